#!/usr/bin/env python3
"""mutcampaign.py <shard k> <n shards> <max mutants per shard> [seed]
Automatic mutation campaign: syntactic mutants (relational / arithmetic / boolean operator replacement, deletion of
require_auth / event / storage-write / guard statements) of the files the properties are anchored in, each applied to a
PRIVATE scratch copy of /repo (/tmp/w-mut<k>), the private harness rebuilt, and the quick tier (cases scaled down by
MUT_SCALE, floors off) of every property anchoring that file run until one reports a violation.
Output: /verif/selftest/campaign/results-<k>.tsv  (status file line op property signature | old -> new)"""
import sys, os, re, json, random, subprocess, time
k, n, maxm = int(sys.argv[1]), int(sys.argv[2]), int(sys.argv[3])
seed = int(sys.argv[4]) if len(sys.argv) > 4 else 1
D = f"/tmp/w-mut{k}"
subprocess.run(["/verif/tools/mkscratch.sh", f"mut{k}"], check=True, stdout=subprocess.DEVNULL)
env = dict(os.environ)
for line in open(f"{D}/env.sh"):
    for kv in line.replace("export", "").split():
        if "=" in kv:
            a, b = kv.split("=", 1); env[a] = b
env.update(CARGO_BUILD_JOBS=str(max(2, 16 // n)), VERIF_THREADS=str(max(2, 16 // n)), VERIF_CASE_SCALE=os.environ.get("MUT_SCALE", "0.4"))
anch = {}
for l in open("/verif/properties.jsonl"):
    j = json.loads(l)
    for f in j["anchors"]["files"]:
        anch.setdefault(f, []).append(j["id"])
REL = [(r" <= ", " < "), (r" < ", " <= "), (r" >= ", " > "), (r" > ", " >= "), (r" == ", " != "), (r" != ", " == ")]
ARI = [(r" \+ ", " - "), (r" - ", " + "), (r" \+= ", " -= "), (r" -= ", " += ")]
BOO = [(r" && ", " || "), (r" \|\| ", " && ")]
DEL = re.compile(r"^\s*([A-Za-z_][\w:.&()\s]*\.require_auth\(\);|[A-Za-z_][\w:.&()\s,]*require_auth_for_args\(.*\);|emit_\w+\(.*\);|e\.storage\(\)\.\w+\(\)\.(set|remove)\(.*\);|\w+\.storage\(\)\.\w+\(\)\.(set|remove)\(.*\);|[\w:]+::(when_not_paused|when_paused|ensure_\w+|enforce_\w+|validate_\w+|check_\w+)\(.*\);)\s*$")
def sites(path):
    out = []
    src = open(path).read().split("\n")
    in_test = False
    for i, line in enumerate(src):
        st = line.strip()
        if st.startswith("#[cfg(test)]") or st.startswith("mod test"):
            in_test = True
        if in_test: continue
        if not st or st.startswith("//") or st.startswith("#[") or st.startswith("use ") or st.startswith("pub use") or st.startswith("///"):
            continue
        code = line.split("//")[0]
        if "fn " in code and ("<" in code and ">" in code): continue
        if "->" in code or "=>" in code and (" < " not in code and " > " not in code):
            pass
        for ops, tag in ((REL, "rel"), (ARI, "ari"), (BOO, "boo")):
            for pat, rep in ops:
                for m in re.finditer(pat, code):
                    # skip generics / lifetimes / shifts / arrows
                    a, b = m.span()
                    ctx = code[max(0, a - 2):b + 2]
                    if "->" in ctx or "=>" in ctx or "<<" in ctx or ">>" in ctx or "'" in ctx: continue
                    new = code[:a] + rep + code[b:] + line[len(code):]
                    out.append((i, tag, line, new))
        if DEL.match(code):
            ind = line[:len(line) - len(line.lstrip())]
            out.append((i, "del", line, ind + "// mutant: statement deleted"))
    return out
rnd = random.Random(seed)
allm = []
for f, ids in sorted(anch.items()):
    p = os.path.join(D, "repo", f)
    if not os.path.exists(p): continue
    ss = sites(p)
    rnd.shuffle(ss)
    # weight: up to 14 per file, deletions and relational first
    ss.sort(key=lambda s: {"del": 0, "rel": 1, "boo": 2, "ari": 3}[s[1]])
    pick = ss[:6] + rnd.sample(ss[6:], min(len(ss[6:]), 10)) if len(ss) > 6 else ss
    for (i, tag, old, new) in pick:
        allm.append((f, i, tag, old, new, ids))
rnd.shuffle(allm)
mine = [m for j, m in enumerate(allm) if j % n == k][:maxm]
os.makedirs("/verif/selftest/campaign", exist_ok=True)
out = open(f"/verif/selftest/campaign/results-{k}.tsv", "a")
def build():
    r = subprocess.run(["cargo", "build", "--release", "--offline"], cwd=f"{D}/harness", env=env, capture_output=True, text=True)
    if r.returncode != 0 and "error[" not in r.stderr and "error:" in r.stderr and "could not compile" not in r.stderr:
        time.sleep(15)
        r = subprocess.run(["cargo", "build", "--release", "--offline"], cwd=f"{D}/harness", env=env, capture_output=True, text=True)
    return r.returncode == 0
for (f, i, tag, old, new, ids) in mine:
    p = os.path.join(D, "repo", f)
    src = open(p).read().split("\n")
    if src[i] != old: continue
    src2 = list(src); src2[i] = new
    open(p, "w").write("\n".join(src2))
    status, prop, sig = "SURVIVED", "-", "-"
    try:
        if not build():
            status = "STILLBORN"
        else:
            for pid in ids:
                r = subprocess.run([f"{D}/target/release/check", "--property", pid, "--tier", "quick", "--no-evidence"], env=env, capture_output=True, text=True, timeout=1500)
                if r.returncode == 1:
                    m = re.search(r"^DETAIL signature=(\S+)", r.stdout, re.M)
                    status, prop, sig = "KILLED", pid, (m.group(1) if m else "?")
                    break
                if r.returncode == 2:
                    status, prop = "INCONCLUSIVE", pid
    except subprocess.TimeoutExpired:
        status = "TIMEOUT"
    finally:
        open(p, "w").write("\n".join(src))
        os.utime(p, None)
    out.write("\t".join([status, f, str(i + 1), tag, prop, sig, old.strip()[:110] + "  ->  " + new.strip()[:110]]) + "\n"); out.flush()
print("shard", k, "done")

#!/bin/bash
# Scratch git worktree of /repo (at HEAD) for a seeded-mutant agent:  /tmp/seed-<name>
set -e
NAME="$1"; [ -n "$NAME" ] || { echo "usage: mkseedtree.sh <name>"; exit 2; }
D="/tmp/seed-$NAME"
git -C /repo worktree add --detach "$D" HEAD >/dev/null 2>&1
# warm build cache so the workspace test build is incremental
# (no warm target copy: /repo/target has grown to ~10 GB; a cold per-crate build is cheaper than the disk)
mkdir -p "/tmp/seed-$NAME-out"
echo "$D"

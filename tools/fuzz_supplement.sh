#!/bin/bash
# Coverage-guided supplement for the thorough tier: libFuzzer (stable toolchain + sancov flags) drives every
# generated sub-check of property <ID> through proptest's pass-through RNG for a fixed number of runs.
#   tools/fuzz_supplement.sh <ID> <seed>
# exit 0 = nothing found (or supplement unavailable: a NOTICE is printed), 1 = VIOLATION printed.
ID="$1"; SEED="${2:-0}"
HERE="$(cd "$(dirname "$0")/.." && pwd)"
export RUSTUP_TOOLCHAIN=stable-x86_64-unknown-linux-gnu CARGO_NET_OFFLINE=true CARGO_TERM_COLOR=never
RUNS="${VERIF_FUZZ_RUNS:-4000}"
cd "$HERE/fuzz" || exit 0
[ -f Cargo.lock ] || cp "$HERE/harness/Cargo.lock" Cargo.lock
log="$(mktemp)"
if ! RUSTFLAGS="-Cpasses=sancov-module -Cllvm-args=-sanitizer-coverage-level=4 -Cllvm-args=-sanitizer-coverage-inline-8bit-counters -Cllvm-args=-sanitizer-coverage-pc-table -Cllvm-args=-sanitizer-coverage-trace-compares --cfg fuzzing" \
     flock "$HERE/fuzz/.build.lock" cargo build --release --offline --target x86_64-unknown-linux-gnu >"$log" 2>&1; then
  tail -n 5 "$log"; rm -f "$log"
  echo "NOTICE fuzz supplement unavailable (stable sancov build failed); proptest result stands"
  exit 0
fi
rm -f "$log"
FZ="$HERE/fuzz/target/x86_64-unknown-linux-gnu/release/fuzz_prop"
SUBS="$("$HERE/harness/target/release/check" --property "$ID" --list-subs)"
total=0; found=0
OUTD="$(mktemp -d "$HERE/fuzz/corpus-run.XXXXXX")"
run_sub() {
  sub="$1"
  corpus="$OUTD/corpus-$sub"; mkdir -p "$corpus"
  # deterministic seed corpus: a few pseudo-random files of different lengths
  python3 - "$corpus" "$SEED" "$sub" <<'PY'
import sys, hashlib
d, seed, sub = sys.argv[1], sys.argv[2], sys.argv[3]
for i, n in enumerate([64, 256, 1024, 4096]):
    out = b""; c = 0
    while len(out) < n:
        out += hashlib.sha256(f"{seed}/{sub}/{i}/{c}".encode()).digest(); c += 1
    open(f"{d}/seed{i}", "wb").write(out[:n])
PY
  VERIF_FUZZ_PROP="$ID" VERIF_FUZZ_SUB="$sub" VERIF_FUZZ_TIER=thorough VERIF_SEED="$SEED" \
    "$FZ" -runs="$RUNS" -seed="$((SEED + 1))" -max_len=8192 -len_control=0 -max_total_time="${VERIF_FUZZ_MAX_TIME:-240}" -timeout=300 -rss_limit_mb=8192 \
    -artifact_prefix="$corpus/" "$corpus" > "$OUTD/out-$sub.txt" 2>&1
  echo $? > "$OUTD/rc-$sub.txt"
  rm -rf "$corpus"
}
export -f run_sub; export OUTD SEED ID FZ RUNS
# sub-checks run in parallel (each libFuzzer process is single-threaded)
echo "$SUBS" | tr ' ' '\n' | grep -v '^$' | xargs -P "${VERIF_FUZZ_JOBS:-12}" -I{} bash -c 'run_sub {}'
for sub in $SUBS; do
  total=$((total + RUNS))
  rc="$(cat "$OUTD/rc-$sub.txt" 2>/dev/null || echo 99)"
  line="$(grep -m1 '^FUZZ-VIOLATION' "$OUTD/out-$sub.txt" 2>/dev/null)"
  if [ -n "$line" ]; then
    grep -m1 '^DETAIL' "$OUTD/out-$sub.txt"
    echo "VIOLATION ${line#FUZZ-VIOLATION }"
    found=1
  elif [ "$rc" != "0" ]; then
    echo "NOTICE fuzz supplement: sub $sub ended with status $rc without a property violation (timeout/oom/crash in harness); ignored"
  fi
done
rm -rf "$OUTD"
# record the supplement in the evidence file
python3 - "$HERE/evidence/$ID.json" "$total" "$RUNS" <<'PY'
import json, sys
p, total, runs = sys.argv[1], int(sys.argv[2]), int(sys.argv[3])
try:
    ev = json.load(open(p))
    ev["coverage"]["fuzz_supplement"] = {"engine": "libFuzzer via libfuzzer-sys on stable + sancov, bytes -> proptest pass-through RNG", "runs_per_sub_at_most": runs, "max_total_time_per_sub_s": 240, "total_runs_at_most": total}
    json.dump(ev, open(p, "w"), indent=2)
except Exception as e:
    print("NOTICE could not annotate evidence:", e)
PY
echo "fuzz supplement: $total libFuzzer executions over sub-checks [$(echo $SUBS | tr '\n' ' ')]"
[ $found -eq 0 ] || exit 1
exit 0

#!/usr/bin/env python3
"""keep_seed.py <seed-id e.g. C02-m1> <srcdir> <caught_by (comma list of check ids, or NONE)> <signature or note>
Copies patch.diff, demo.diff and meta.json (augmented with the lead's independent verification and detection result) to /verif/seeded/<seed-id>/."""
import sys, json, os, shutil
sid, src, caught, note = sys.argv[1:5]
dst = f"/verif/seeded/{sid}"
os.makedirs(dst, exist_ok=True)
for f in ("patch.diff", "demo.diff"):
    shutil.copy(os.path.join(src, f), os.path.join(dst, f))
meta = json.load(open(os.path.join(src, "meta.json")))
ver = json.load(open(os.path.join(src, "verify_result.json")))
meta["independent_verification_by_lead"] = {
    "how": "tools/verify_seed.sh in a scratch git worktree of /repo (outside /repo and /verif): patch applied -> cargo test --workspace --offline --no-fail-fast; patch+demo -> demo test; demo without patch",
    "result": ver,
}
meta["detection"] = {"caught_by_checks": [] if caught == "NONE" else caught.split(","), "signature_or_note": note,
                     "how": "git -C /repo apply patch.diff; ./check <ID> quick; git -C /repo checkout -- ."}
json.dump(meta, open(os.path.join(dst, "meta.json"), "w"), indent=1)
print("kept", dst)

#!/usr/bin/env python3
"""mutrun.py <PROP> <file-relative-to-/repo> <old> <new> [seed]  — apply a one-off textual mutant to /repo, run the quick check, restore."""
import sys, subprocess, os
prop, rel, old, new = sys.argv[1:5]
seed = sys.argv[5] if len(sys.argv) > 5 else "0"
p = os.path.join("/repo", rel)
s = open(p).read()
if s.count(old) < 1:
    print("PATTERN NOT FOUND"); sys.exit(3)
open(p, "w").write(s.replace(old, new, 1))
try:
    env = dict(os.environ, VERIF_SEED=seed)
    r = subprocess.run(["/verif/check", prop, "quick", "--no-evidence"], capture_output=True, text=True, env=env)
    lines = [l for l in r.stdout.splitlines() if l.startswith(("DETAIL", "VIOLATION", "OK", "INCONCLUSIVE", "KNOWN"))]
    print("exit", r.returncode)
    for l in lines[:6]:
        print(l[:400])
    if r.returncode == 2:
        print(r.stdout[-1500:])
finally:
    subprocess.run(["git", "-C", "/repo", "checkout", "--", rel])

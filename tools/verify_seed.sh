#!/bin/bash
# verify_seed.sh <worktree> <dir with patch.diff + demo.diff> <demo test filter / cargo args...>
# Confirms independently: (a) patch + existing suite => all pass, (b) patch + demo => demo fails, (c) demo without patch => passes.
# Prints a JSON line; leaves the worktree clean.
WT="$1"; DIR="$2"; shift 2
export RUSTUP_TOOLCHAIN=stable-x86_64-unknown-linux-gnu CARGO_NET_OFFLINE=true CARGO_TERM_COLOR=never CARGO_BUILD_JOBS=${CARGO_BUILD_JOBS:-6}
cd "$WT" || exit 2
git checkout -q -- . ; git clean -fdq -e target
git apply "$DIR/patch.diff" || { echo '{"error":"patch does not apply"}'; exit 2; }
cargo test --workspace --offline --no-fail-fast > "$DIR/verify_suite_with_patch.log" 2>&1; suite=$?
passed=$(grep -h "^test result:" "$DIR/verify_suite_with_patch.log" | awk '{s+=$4} END{print s+0}')
failed=$(grep -h "^test result:" "$DIR/verify_suite_with_patch.log" | awk '{s+=$6} END{print s+0}')
git apply "$DIR/demo.diff" || { echo '{"error":"demo does not apply"}'; git checkout -q -- .; git clean -fdq -e target; exit 2; }
cargo test --offline "$@" > "$DIR/verify_demo_with_patch.log" 2>&1; demo_with=$?
git apply -R "$DIR/patch.diff"
cargo test --offline "$@" > "$DIR/verify_demo_without_patch.log" 2>&1; demo_without=$?
git checkout -q -- . ; git clean -fdq -e target
echo "{\"suite_exit_with_patch\":$suite,\"suite_passed\":$passed,\"suite_failed\":$failed,\"demo_exit_with_patch\":$demo_with,\"demo_exit_without_patch\":$demo_without}" | tee "$DIR/verify_result.json"

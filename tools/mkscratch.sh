#!/bin/bash
# Creates an isolated scratch copy of the harness AND of /repo so that work (and repo
# mutations for sensitivity tests) cannot disturb /repo, /verif or other scratch copies.
#   tools/mkscratch.sh <name>   ->  /tmp/w-<name>/{harness,repo,home,target}
set -e
NAME="$1"; [ -n "$NAME" ] || { echo "usage: mkscratch.sh <name>"; exit 2; }
D="/tmp/w-$NAME"
mkdir -p "$D/home/evidence" "$D/home/replays/found" "$D/home/replays/known" "$D/home/replays/regress"
rsync -ai --delete --exclude target --exclude .build.lock /verif/harness/ "$D/harness/" | awk '$1 ~ /^>f/ {print substr($0, index($0,$2))}' | while read -r f; do touch "$D/harness/$f"; done
# files that rsync (re)writes get their ORIGINAL (old) mtime back; cargo would then miss the change and keep a
# stale build of a previously patched crate, so every transferred file is touched
rsync -ai --delete --exclude target --exclude .git /repo/ "$D/repo/" | awk '$1 ~ /^>f/ {print substr($0, index($0,$2))}' | while read -r f; do touch "$D/repo/$f"; done
cp /verif/KNOWN_FINDINGS.txt "$D/home/" 2>/dev/null || true
sed -i "s|\"/repo/|\"$D/repo/|g" "$D/harness/Cargo.toml"
grep -rl '"/repo/' "$D/harness/src" | xargs -r sed -i "s|\"/repo/|\"$D/repo/|g"
if [ ! -d "$D/target" ] && [ -d /verif/harness/target ]; then
  cp -a /verif/harness/target "$D/target"
fi
cat > "$D/env.sh" <<EOT
export RUSTUP_TOOLCHAIN=stable-x86_64-unknown-linux-gnu CARGO_NET_OFFLINE=true CARGO_TERM_COLOR=never
export CARGO_TARGET_DIR=$D/target VERIF_HOME=$D/home CARGO_BUILD_JOBS=4 VERIF_THREADS=4
EOT
echo "scratch ready: $D  (source $D/env.sh; cd $D/harness; cargo build --release --offline; $D/target/release/check --property Cxx --tier quick)"

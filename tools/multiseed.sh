#!/bin/bash
# tools/multiseed.sh "<seeds>" [tier]   — run every registered check for each seed; summary in /tmp/multiseed-<tier>.log
SEEDS="${1:-1 2 3}"; TIER="${2:-quick}"
cd /verif
OUT=/tmp/multiseed-$TIER.log; : > $OUT
for s in $SEEDS; do
  for p in $(./harness/target/release/check --list); do
    out=$(VERIF_SEED=$s ./check $p $TIER 2>/dev/null); code=$?
    echo "seed=$s $p exit=$code $(echo "$out" | grep -E "^C[0-9]+ (quick|thorough)" | sed 's/^C[0-9]* //') $(echo "$out" | grep -E '^(VIOLATION|INCONCLUSIVE|DETAIL)' | head -2 | cut -c1-300 | tr '\n' ' ')" >> $OUT
  done
done
echo DONE >> $OUT

#!/usr/bin/env python3
"""mkmut.py <PROP> <name> <file-relative-to-/repo> <old> <new>  — record a textual mutant as /verif/selftest/mutants/<PROP>-<name>.patch"""
import sys, subprocess, os
prop, name, rel, old, new = sys.argv[1:6]
p = os.path.join("/repo", rel)
s = open(p).read()
if s.count(old) < 1:
    print("PATTERN NOT FOUND", name); sys.exit(3)
open(p, "w").write(s.replace(old, new, 1))
try:
    d = subprocess.run(["git", "-C", "/repo", "diff", "--", rel], capture_output=True, text=True).stdout
    out = f"/verif/selftest/mutants/{prop}-{name}.patch"
    open(out, "w").write(d)
    print("wrote", out, len(d.splitlines()), "lines")
finally:
    subprocess.run(["git", "-C", "/repo", "checkout", "--", rel])

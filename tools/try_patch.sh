#!/bin/bash
# tools/try_patch.sh <patch.diff> <ID> [ID...]  — apply a patch to a PRIVATE copy of /repo (scratch /tmp/w-try, private
# harness + target) and run the quick checks there; /repo and /verif are not touched.
PATCH="$(readlink -f "$1")"; shift
N="${TRY_NAME:-try}"; /verif/tools/mkscratch.sh "$N" >/dev/null || exit 2
D=/tmp/w-$N; source $D/env.sh; export CARGO_BUILD_JOBS=8 VERIF_THREADS=${VERIF_THREADS_TRY:-8}
(cd $D/repo && git apply "$PATCH") || { echo "APPLY FAIL $PATCH"; exit 2; }
(cd $D/harness && cargo build --release --offline >$D/build.log 2>&1) || (cd $D/harness && sleep 20 && cargo build --release --offline >$D/build.log 2>&1) || { echo "BUILD FAIL (see $D/build.log)"; cp $D/build.log $D/build-fail-$(date +%s).log; exit 2; }
for id in "$@"; do
  echo "== $(basename $(dirname $PATCH))/$(basename $PATCH) vs $id"
  $D/target/release/check --property $id --tier quick --no-evidence 2>/dev/null | grep -E "^(DETAIL|VIOLATION|OK|INCONC)" | cut -c1-260
done

#!/bin/bash
# collect.sh <scratch-name> <file-stem>...   copy props/<stem>.rs and contracts/<stem>.rs from /tmp/w-<name>/harness into /verif/harness
set -e
NAME="$1"; shift
D="/tmp/w-$NAME"
for stem in "$@"; do
  for sub in props contracts; do
    f="$D/harness/src/$sub/$stem.rs"
    if [ -f "$f" ]; then
      sed "s|$D/repo/|/repo/|g" "$f" > "/verif/harness/src/$sub/$stem.rs"
      echo "collected $sub/$stem.rs ($(wc -l < "$f") lines)"
    fi
  done
done

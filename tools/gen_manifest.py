#!/usr/bin/env python3
"""Regenerates /verif/MANIFEST.json.  Edit CHECKS below, then run."""
import json, subprocess, os

BASELINE_OFF = ("cd /repo && RUSTUP_TOOLCHAIN=stable-x86_64-unknown-linux-gnu CARGO_NET_OFFLINE=true "
                "cargo nextest run --workspace --no-fail-fast --offline || "
                "(cd /repo && RUSTUP_TOOLCHAIN=stable-x86_64-unknown-linux-gnu CARGO_NET_OFFLINE=true cargo test --workspace --no-fail-fast --offline)")

TRUSTED = ("Trusted base: the Soroban native test host (soroban-env-host 25.0.1: storage/TTL rules, rollback of failed invocations, "
           "authorization-tree matching, crypto host functions, event buffer), proptest 1.7 generators/shrinking, and the harness's own "
           "reference model written from the property statement. Sampling, not proof: regions the generator does not produce are not covered.")

# id -> (technique, level text, design_ref)
CHECKS = {
 "C01": ("model-based stateful PBT (proptest) + event-replay oracle",
         "Generated operation histories over nine fungible-token contracts (4 harness flavours wiring Base/AllowList/BlockList/FungibleVotes, 5 example contracts) with state-relative amounts and explicit authorization entries; after every step total_supply == sum of balances (BigInt), supply delta by op kind, failed call leaves the dump unchanged, and folding the emitted mint/burn/transfer events from genesis reproduces every balance.",
         "DESIGN.md §4 C01"),
 "C03": ("model-based PBT (proptest): executable transcription of the statement vs __check_auth, scripted policy/verifier mocks, real Ed25519 verifier, end-to-end probes",
         "Generated rule-set histories (add/remove rule, signer, policy, valid_until, ledger advance) on the example multisig account followed by crafted (signatures, context batch) probes through try_invoke_contract_check_auth and end-to-end require_auth; the verdict must equal an executable transcription of the statement (all supplied signatures verify; per context newest-first, type-specific before Default, unexpired rule whose signers/policies are met; signers outside the rule never count) and the mock policies' enforce log must be exactly the chosen rule's policies once per context.",
         "DESIGN.md §4 C03"),
 "C04": ("model-based stateful PBT (proptest): RWA token with scripted compliance / identity-verifier mocks, gate matrix, supervisory-operation model",
         "Generated histories of mint/transfer/transfer_from/approve/forced_transfer/burn/recover_balance/freeze/unfreeze/pause with flipped identity and compliance answers on a harness RWA token (library RWA + Pausable wiring; a tenth of the cases through the library compliance storage): a holder-initiated movement succeeds only with every gate open (pause, both address freezes, free balance, both identities, can_transfer, allowance), mint only with verified recipient and can_create, 0 <= frozen <= balance always, supervisory operations unfreeze the minimum, recovery moves the whole balance with its freeze status to the registered target only, and the compliance log gains exactly one exact entry per successful transfer/mint/burn.",
         "DESIGN.md §4 C04"),
 "C06": ("model-based stateful PBT (proptest) with explicit authorization subsets; full enumeration consistency after every step",
         "Generated grant/revoke/renounce/set_role_admin (cycles, self-admin roles)/admin-transfer/renounce_admin histories and macro-guarded probes on a harness AccessControl contract, the nft-access-control example and the ownable example, callers by standing (admin, role admin, member, stranger) and auth mode: privileged effects only with the right principal's exact entry and standing, nothing passes after renounce, and after every step has_role/count/member-by-index/existing-roles describe exactly the model set with gap-free indices (256-role limit scenario included).",
         "DESIGN.md §4 C06"),
 "C07": ("model-based stateful PBT (proptest) with the ledger as an operation and TTL-boundary selectors (min_temp_entry_ttl = 1)",
         "Generated offer(new, live_until)/cancel/accept/renounce/probe histories on the ownable example and the harness AccessControl admin transfer, offers replaced by longer- and shorter-lived ones, ledger moved to expiry-1/expiry/expiry+1 of current and earlier offers, every call with an auth mode: accept succeeds only for the live pending account with its own entry, never for a cancelled, replaced or expired offer, never twice; the holder keeps control until acceptance; renounce is refused while an offer is pending.",
         "DESIGN.md §4 C07"),
 "C08": ("model-based stateful PBT (proptest) over the timelock state machine with ready-ledger boundary selectors",
         "Generated schedule/execute/cancel/set_min_delay/advance histories over a pool of operations with predecessor links (other op, never-scheduled, cancelled, own-hash) and delays from 0 to u32::MAX on a harness exposing the timelock library 1:1 plus a counting target: execution only when scheduled with delay >= the minimum then in force, ready, predecessor done and not done before; Done absorbing; failed target rolls everything back; every operation's reported state/ledger/predicates equal the model after every step; hash_operation deterministic and field-sensitive.",
         "DESIGN.md §4 C08"),
 "C09": ("model-based PBT (proptest) with hand-built controller credentials (arbitrary descriptor lists vs contexts), direct __check_auth probes",
         "On the self-administered TimelockController example (0..2 executors) generated scheduling histories put the self-administration operation in every state, then adversarial probes invoke admin-only entry points with controller credentials carrying a generated Vec<OperationMeta> (0..3 descriptors, perturbed predecessor/salt/executor) directly, through a forwarder and through try_invoke_contract_check_auth with foreign/create contexts: an admin call takes effect only if a matching operation was Ready and is consumed by that very call with an executor's entry when executors exist; schedule/cancel/execute need role plus that account's entry; the documented happy path succeeds.",
         "DESIGN.md §4 C09"),
 "C10": ("model-based stateful PBT (proptest) against a plain id->owner map with full / windowed owner scans after every step, bucket- and batch-edge selectors, 32000-token batches",
         "Generated mint (sequential, explicit fresh ids, batches of 1..32000 incl. bucket-edge sizes and refused 0 / 32001) / transfer / transfer_from / burn / burn_from histories with first/last/bucket-edge/burned/fresh token selectors on the three NFT examples and harness twins (base, enumerable, consecutive): after every step owner_of equals the reference map for every existing id (bulk reads; windows plus final full scan for giant batches), fails for burned and unissued ids, balances equal owned counts, no other token changed owner, sequential ids are never reused, token_uri exists exactly for existing ids, and the enumerable global and per-owner index lists contain each token exactly once with gap-free indices.",
         "DESIGN.md §4 C10"),
 "C11": ("model-based stateful PBT (proptest) with explicit authorization entries, actor-role selectors and approval-expiry boundary probes",
         "Generated approve / approve_for_all / revoke / transfer / transfer_from / burn / burn_from / advance histories on the three NFT flavours, actors chosen by standing (owner, approved, operator, former owner, former approved, stranger), live_until from the ledger lattice, each call with an auth mode: a token moves or burns only with the exact entry of its owner, its live approved account or a live operator of the current owner; approvals are set only by owner or live operator, cleared by every transfer/burn, never survive an ownership change (round-trip probe) and operator approvals never reach another owner's tokens; get_approved / is_approved_for_all equal the model at every ledger.",
         "DESIGN.md §4 C11"),
 "C12": ("exhaustive boundary lattice (deterministic) + PBT (proptest) against an exact num-bigint oracle, constructed near-bound triples",
         "All triples of a 67-value (thorough 129) i128 boundary lattice x 3 roundings x {checked, panicking} evaluated exhaustively, plus generated triples of every bit length and constructed triples around the i128 fit boundary, the I256 variants on products fitting 256 bits, and Wad checked_mul/checked_div/from_ratio/pow/checked_pow: each result equals the exactly rounded BigInt quotient whenever it fits (also when x*y does not), fails exactly when d = 0 or it does not fit, panicking and checked variants agree, pow fails exactly when checked_pow is None.",
         "DESIGN.md §4 C12"),
 "C13": ("model-based stateful PBT (proptest) with end-of-ledger reference history and full past-query sweeps",
         "Generated mint/burn/transfer/transfer_from/delegate/advance histories (many operations per ledger and gaps) on the fungible-votes example, a harness fungible votes token with burn, a harness NFT votes token and the bare votes library: voting units equal balances, votes equal the sum of units delegating to the account, total equals the sum of units, and for every past ledger and account the checkpoint queries equal the model's end-of-ledger value (later operations never rewrite the past); current/future queries are refused; checkpoints coalesce per ledger.",
         "DESIGN.md §4 C13"),
 "C19": ("model-based stateful PBT (proptest) with explicit nested authorization trees and per-field tampering",
         "Generated forwards (fee/max-fee lattice, expirations around the ledger, pre-existing allowances, failing targets, user == forwarder, disallowed tokens) and allow-list histories on both fee-forwarder examples with library tokens and a Stellar Asset Contract as fee tokens and a logging target, each forward under one of 12 authorization modes (per-field tamper of token/max/expiration/target/fn/args, missing sub-invocation or relayer entry, stranger relayer): success only with the exact user tuple, 0 < fee <= max, live expiration, acceptable token and authorized relayer/executor; on success exactly fee moves user -> recipient, the target is invoked once with exactly (fn, args) and the residual allowance is as documented; on any failure nothing persists; the allow-list enumeration is a bijection over the allowed set.",
         "DESIGN.md §4 C19"),
 "C02": ("model-based stateful PBT (proptest) with explicit authorization entries (no mock_all_auths)",
         "Generated histories of approve/transfer/transfer_from/burn/burn_from/mint/ledger-advance over nine fungible-token contracts, every call carrying an explicit authorization set in one of the modes Exact/Drop/Swap/Tamper/Surplus; safety oracle from the statement: a balance decreases only with the holder's exact entry or a spender's entry plus a live sufficient allowance that then drops by exactly the amount; allowances never exceed approved-minus-spent, are zero after live_until (also past the entry's storage TTL) and change only by the owner's approve or by being spent.",
         "DESIGN.md §4 C02"),
 "C16": ("model-based stateful PBT (proptest): gate matrix over entry points x party roles, cap boundary amounts, upgrade/migrate flag histories",
         "Generated histories interleaving allow/disallow, block/unblock, pause/unpause with every token entry point (transfer, transfer_from, approve, burn, burn_from, mint) under explicit authorization on two harness list tokens and the allowlist/blocklist/pausable/capped/pausable-counter examples: a call that succeeds never has a closed documented gate, a refused call changes nothing, list changes are immediate and idempotent, pause/unpause strictly alternate and need the owner, with all gates open and preconditions met the call works; cap: no successful mint lifts the supply above generated caps (boundary amounts cap-supply+-1, overflow); migration: on the derive-generated upgrade/migrate of the current tree (native code re-installed after upgrade) migrate completes exactly once per upgrade, never without one, only for the owner.",
         "DESIGN.md §4 C16"),
 "C05": ("model-based stateful PBT (proptest) with exact BigInt rational oracle and cross-multiplied rate monotonicity",
         "Generated deposit/mint/withdraw/redeem/donation/approval/share-transfer histories on the example vault for every decimals offset 0..=10 over a library asset token, with operator == or != holder and explicit authorization trees (nested asset pull); every conversion and preview equals the exact rational formula rounded in the stated direction (BigInt) or fails iff it does not fit, a preview equals what the operation then moves, the operation moves exactly (assets, shares) between exactly the named parties with matching event, and (A'+1)(S+V) >= (A+1)(S'+V) after every successful operation; max_withdraw/max_redeem accepted and +1 rejected; two-leg round trips never profit.",
         "DESIGN.md §4 C05"),
 "C14": ("model-based stateful PBT (proptest): threshold/weight lattices, spending-window histories with BigInt window sums, can_enforce vs enforce differential",
         "Simple-threshold and spending-limit example policies and a harness weighted-threshold policy driven with generated rules, thresholds, weight maps (sums past u32::MAX), authenticated subsets and spending histories (limit changes, ledger advances to window edges, malformed and non-transfer contexts, 998..1000-entry histories): can_enforce equals the threshold/weight predicate, zero/unreachable thresholds are refused, can_enforce agrees with whether enforce succeeds in the same state, every state-changing call without the account's exact authorization entry fails without trace, and the authorized amounts inside any window never exceed the limit in force (BigInt).",
         "DESIGN.md §4 C14"),
 "C15": ("model-based PBT (proptest) over real registries, identities and claim issuers with independently signed claims (ed25519-dalek, p256, k256) and constructed defects",
         "Generated registry histories (topics with 0/1/several trusted issuers, issuers de-listed after signing) and per-identity claim sets, each claim genuinely signed for one of the three schemes or carrying exactly one constructed defect (tampered signature/data, other identity/topic/issuer/network/nonce, key not allowed or removed, expired, revoked, nonce bumped, wrong scheme, truncated or extended sig_data, slot mismatch): the issuer confirms a claim iff it is valid by construction, add_claim accepts iff valid, and verify_identity succeeds exactly when every required topic has a currently trusted issuer whose valid claim the registered identity holds.",
         "DESIGN.md §4 C15"),
 "C20": ("model-based stateful PBT (proptest): eight registries against plain set/map reference models, capacity scenarios at limit-1/limit/limit+1",
         "Generated add/remove/update/batch histories with state-relative selectors (existing first/last/middle/just-moved, absent, removed-before) over the library's registries, every getter evaluated after every step against a plain set/map model (sets as sets, index ranges as bijections, never order): duplicates and absent removals are refused without effect, documented capacity limits hold exactly at the limit, ids are never reused, a recovered account is never registered again.",
         "DESIGN.md §4 C20"),
 "C17": ("PBT (proptest) with an independent sha2/sha3 tree builder, single-corruption metamorphic probes, exhaustive small trees, model-based claim histories",
         "Independent Merkle tree builder (sorted-pair with promoted odd nodes and OZ-JS heap layout; positional padded with distinct fillers) for SHA-256 and Keccak-256: every leaf's honest proof must verify, every single-element corruption of leaf/proof/index/root must be rejected; exhaustive drop/swap/index/high-bit enumeration for trees up to 17 (thorough 40) leaves; generated claim histories over two trees on harness distributors (both verification forms) and the airdrop and merkle-voting examples: claimed flips only with a valid proof against the current root, stays set forever, failed claims flip nothing, airdrop pays exactly once.",
         "DESIGN.md §4 C17"),
 "C18": ("PBT (proptest) with independently produced genuine assertions (p256, ed25519-dalek, sha2), re-signed semantic variants, bit-flip corruptions, encoder differential (base64 crate + own RFC 4648 encoder), exhaustive length lattice",
         "For generated payloads and key pairs a genuine WebAuthn assertion (flat client-data JSON of lengths up to and past the 1024 bound) and Ed25519 signature are produced independently and must be accepted by the library functions and both example verifier contracts; about 55 correctly re-signed variants per assertion (all 16 flag combinations, type strings, challenge encodings, authenticator-data lengths, client-data lengths around the bound, wrong signed message) are accepted exactly when the stated conditions hold, and every unsigned bit flip in payload, key, signature, authenticator data or client data is rejected; base64url output equals RFC 4648 section 5 (two reference encoders) for every length 0..=64 (thorough 300) and random inputs; extract_from_bytes equals slice semantics.",
         "DESIGN.md §4 C18"),
}

# extensions added after the first complete version (DESIGN §9.10-§9.12): appended to the level text
EXTRA = {
 "C03": " Extension `account-guards`: the example account's self-administration entry points (add/remove rule, signer, policy, rename, valid_until, execute, upgrade) under six authorization variants (rows of the C06 guard audit for this example).",
 "C04": " Extension: the `real-idv` sub-check wires the token to the library's real identity stack (IdentityVerifier, claim topics and issuers, identity registry storage) and includes recover_identity / recover_balance histories (registered recovery target, whole balance with freeze status carried) and a second compliance module.",
 "C05": " The Totals probe also checks the documented max_deposit / max_mint constants and the share decimals (underlying decimals + offset).",
 "C06": " Extensions: low-level role clean-up operations (remove_role_admin / remove_role_accounts_count) and seed_role (grant_role_no_auth over lists with duplicates) in the acl history, a role named by the empty symbol in the role universe; the guard macros stacked with pause guards (principal half); `example-guards`, a table-driven audit of 60 guarded entry points of 17 example contracts under six authorization variants (run only under the exact entry of the rightful principal; refused calls leave no trace; the exact entry succeeds).",
 "C08": " The hash probe also tells predecessor from salt (all-zero \"none\" values and exchanged fields hash differently).",
 "C09": " Extension: the example's getter entry points (state, exists/pending/ready/done, ready ledger, min delay) are compared with the model's timelock state machine after every step (`getters`) and at the end of every history.",
 "C12": " checked_pow of an integer base is exact. Extension `wad-api`: every remaining public function and operator of the Wad type (integer / token-amount / price conversions, checked_add/sub, *_int, abs, min/max, ordering, Add/Sub/Mul/Div/Neg) against the BigInt reference per documented formula, panicking variants failing exactly when the checked ones report no value (undocumented corners counted, not asserted).",
 "C15": " Extension `claim-data-codec`: encode_claim_data_expiration / decode_claim_data_expiration / is_claim_expired against the documented byte layout and refusals, ledger timestamps around valid_until.",
 "C16": " Extensions: a positive mint within the cap must succeed; supply cap lowered below the supply (`cap-resettable`); only_owner / only_admin / only_role stacked with when_not_paused / when_paused in both orders (`stacked-guards`).",
 "C17": " Corruptions include proofs extended to 31/32/33/40 elements (the positional verifier's documented depth bound).",
 "C19": " Extensions: `collect-fee-direct` drives the low-level collect_fee helper from a forwarder-like contract (payer = a user or the contract itself, eager/lazy, model of the token's allowance rules in both directions; decides `user equal to the forwarder` under real authorization); `permissioned-guards` audits forward / enable / disable / sweep_tokens of the permissioned example under six authorization variants.",
 "C20": " The capacity scenarios (5 000 documents, 10 000 bound tokens, each with an update-in-place / re-add at the limit) run in both tiers.",
}

PENDING_REASON = "check not yet implemented in this commit (work in progress; design in DESIGN.md §4) — will be claimed once its harness lands"

def main():
    ids = [json.loads(l)["id"] for l in open("/verif/properties.jsonl")]
    checks = []
    for pid in ids:
        if pid not in CHECKS:
            continue
        tech, text, ref = CHECKS[pid]
        checks.append({
            "property_id": pid,
            "quick_cmd": f"./check {pid} quick",
            "thorough_cmd": f"./check {pid} thorough",
            "evidence_file": f"/verif/evidence/{pid}.json",
            "replay_cmd_template": f"./check {pid} quick --replay {{path}}",
            "engine": "pbt-harness",
            "level_claimed": {"category": "exploration", "text": text + EXTRA.get(pid, ""), "design_ref": ref + (", §9.2, §9.10-§9.12" if pid in EXTRA else ", §9.2")},
            "level_note": TRUSTED,
            "technique": tech,
        })
    hooks_commits = []
    m = {
        "version": 1,
        "setup_cmd": "./check --setup",
        "hooks": {
            "guard": "stellar_contracts_verif (rustc --cfg; unused: the checks need no source hooks, every observation goes through public entry points, events, pub storage keys and harness-owned collaborator contracts)",
            "enable": "n/a - no hooks; the harness crate /verif/harness depends on /repo/packages/* by absolute path and #[path]-includes /repo/examples/*/src/contract.rs, so every check rebuilds from /repo's working tree",
            "baseline_off_cmd": BASELINE_OFF,
            "source_commits": hooks_commits,
            "add_only": True,
        },
        "engines": [
            {"name": "pbt-harness", "path": "/verif/harness", "serves_properties": sorted(CHECKS.keys()),
             "kind_free_text": "proptest-1.7 driven model-based runner (16 seeded worker threads, integrated shrinking, JSON replay files) executing contracts in the Soroban native test host with explicit authorization entries"},
            {"name": "libfuzzer-passthrough", "path": "/verif/fuzz", "serves_properties": sorted(CHECKS.keys()),
             "kind_free_text": "thorough tier only, supplement: one generic libFuzzer target (stable toolchain + sancov flags, libfuzzer-sys) whose bytes drive the same proptest strategies through the pass-through RNG (locally patched proptest copy in fuzz/vendor) and the same interpreters/oracles; can only add a violation"},
        ],
        "checks": checks,
        "notes": "Exit codes: 0 held, 1 VIOLATION, 2 inconclusive (build failure, watchdog, starved generator). VERIF_SEED selects the PRNG stream (same seed => same cases). Known findings: /verif/KNOWN_FINDINGS.txt (seven genuine defects were found and repaired by fix: commits in /repo; only `fixed:` lines remain). Sensitivity: selftest/run_sharded.sh (one-line mutants in selftest/mutants, results in selftest/RESULTS.txt) seeded/ (independently produced changes with demonstrations), selftest/campaign/ (automatic mutation campaigns) and benign/ (behaviour-preserving refactorings that must stay silent). replays/regress/ is replayed at the start of every run. DESIGN.md §9 is the implementation record.",
        "not_applicable": [{"property_id": p, "reason": PENDING_REASON} for p in ids if p not in CHECKS],
    }
    json.dump(m, open("/verif/MANIFEST.json", "w"), indent=1)
    print("wrote MANIFEST.json with", len(checks), "checks")

main()

#!/bin/bash
# selftest/run_sharded.sh <n> [ID ...] — the whole mutant suite on n private scratch copies in parallel; merged into RESULTS.txt
N="${1:-3}"; shift
cd "$(dirname "$0")/.." || exit 2
pids=()
for k in $(seq 0 $((N-1))); do
  SHARD=$k/$N SELFTEST_JOBS=$((16/N)) SELFTEST_THREADS=$((16/N)) selftest/run_scratch.sh "$@" > /tmp/selftest-shard-$k.log 2>&1 &
  pids+=($!)
done
rc=0; for p in "${pids[@]}"; do wait $p || rc=1; done
cat selftest/RESULTS.txt.[0-9]* | sort > selftest/RESULTS.txt; rm -f selftest/RESULTS.txt.[0-9]*
echo "selftest finished: $(grep -c KILLED selftest/RESULTS.txt) killed, $(grep -vc KILLED selftest/RESULTS.txt) not killed"
grep -v KILLED selftest/RESULTS.txt
exit $rc

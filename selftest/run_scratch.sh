#!/bin/bash
# Same as run.sh but in an isolated scratch copy (/tmp/w-selftest: private harness + private copy of /repo),
# so that /repo and /verif stay usable meanwhile.  selftest/run_scratch.sh [ID ...]
# SHARD=k/n runs every n-th mutant (k = 0..n-1) in its own scratch /tmp/w-selftest<k> and writes RESULTS.txt.<k>;
# selftest/run_sharded.sh <n> starts n shards in parallel and merges them.
set -u
cd "$(dirname "$0")/.." || exit 2
SH_K=""; SH_N=1
if [ -n "${SHARD:-}" ]; then SH_K="${SHARD%%/*}"; SH_N="${SHARD##*/}"; fi
/verif/tools/mkscratch.sh selftest$SH_K >/dev/null || exit 2
D=/tmp/w-selftest$SH_K
source $D/env.sh
export CARGO_BUILD_JOBS=${SELFTEST_JOBS:-8} VERIF_THREADS=${SELFTEST_THREADS:-8}
rm -rf $D/repo.orig; mkdir -p $D/repo.orig; rsync -a $D/repo/packages $D/repo/examples $D/repo.orig/
# restore and TOUCH what was restored (an old mtime would make cargo keep the stale, mutated build of that crate)
restore() {
  for sub in packages examples; do
    rsync -ai --delete $D/repo.orig/$sub/ $D/repo/$sub/ | awk '$1 ~ /^>f/ {print substr($0, index($0,$2))}' | while read -r f; do touch "$D/repo/$sub/$f"; done
  done
}
OUT=/verif/selftest/RESULTS.txt${SH_K:+.$SH_K}
idx=-1
: > "$OUT.tmp"
fail=0
for patch in /verif/selftest/mutants/*.patch; do
  base="$(basename "$patch" .patch)"; id="${base%%-*}"
  if [ $# -gt 0 ]; then case " $* " in *" $id "*) ;; *) continue ;; esac; fi
  idx=$((idx+1)); if [ -n "$SH_K" ] && [ $((idx % SH_N)) -ne "$SH_K" ]; then continue; fi
  if ! (cd $D/repo && git apply "$patch" 2>/dev/null); then echo "$base: PATCH-DOES-NOT-APPLY" | tee -a "$OUT.tmp"; fail=1; restore; continue; fi
  # a build may be killed for lack of memory when several scratch copies build at once: retry once before giving up
  if ! (cd $D/harness && cargo build --release --offline >/dev/null 2>&1) && ! (cd $D/harness && sleep 20 && cargo build --release --offline >$D/build-fail.log 2>&1); then echo "$base: BUILD-FAILED" | tee -a "$OUT.tmp"; fail=1; restore; continue; fi
  log="$($D/target/release/check --property "$id" --tier quick --no-evidence 2>/dev/null)"; code=$?
  restore
  sig="$(echo "$log" | grep -m1 '^DETAIL' | sed 's/^DETAIL signature=\([^ ]*\).*/\1/')"
  if [ $code -eq 1 ]; then echo "$base: KILLED $sig" | tee -a "$OUT.tmp"; else echo "$base: SURVIVED (exit $code)" | tee -a "$OUT.tmp"; fail=1; fi
done
mv "$OUT.tmp" "$OUT"
echo "selftest finished: $(grep -c KILLED $OUT) killed, $(grep -vc KILLED $OUT) not killed"
exit $fail

#!/bin/bash
# Sensitivity self-test: applies each recorded mutant (selftest/mutants/<ID>-<name>.patch) to /repo's
# working tree, runs the quick check of <ID> expecting exit 1, and restores the tree.
#   selftest/run.sh [ID ...]        (default: all)          VERIF_SEED honoured
# Never leaves /repo modified (trap).  Results: selftest/RESULTS.txt
cd "$(dirname "$0")/.." || exit 2
if [ -n "$(git -C /repo status --porcelain --untracked-files=no)" ]; then
  echo "refusing to run: /repo has uncommitted changes"; exit 2
fi
restore() { git -C /repo checkout -- . ; }
trap restore EXIT
OUT=selftest/RESULTS.txt
: > "$OUT.tmp"
fail=0
for patch in selftest/mutants/*.patch; do
  base="$(basename "$patch" .patch)"
  id="${base%%-*}"
  if [ $# -gt 0 ]; then
    case " $* " in *" $id "*) ;; *) continue ;; esac
  fi
  if ! git -C /repo apply "$PWD/$patch" 2>/dev/null; then
    echo "$base: PATCH-DOES-NOT-APPLY" | tee -a "$OUT.tmp"; fail=1; continue
  fi
  log="$(./check "$id" quick --no-evidence 2>&1)"; code=$?
  restore
  sig="$(echo "$log" | grep -m1 '^DETAIL' | sed 's/^DETAIL signature=\([^ ]*\).*/\1/')"
  if [ $code -eq 1 ]; then
    echo "$base: KILLED $sig" | tee -a "$OUT.tmp"
  else
    echo "$base: SURVIVED (exit $code)" | tee -a "$OUT.tmp"; fail=1
  fi
done
mv "$OUT.tmp" "$OUT"
exit $fail

//! Env construction, ledger control, explicit authorization entries, event decoding.

use soroban_sdk::testutils::{Address as _, EnvTestConfig, Events as _, Ledger as _};
use soroban_sdk::xdr::{
    self, InvokeContractArgs, ScAddress, ScSymbol, ScVal, SorobanAddressCredentials, SorobanAuthorizationEntry,
    SorobanAuthorizedFunction, SorobanAuthorizedInvocation, SorobanCredentials, VecM,
};
use soroban_sdk::{contract, contractimpl, Address, Env, TryFromVal, Val, Vec as SVec};
use std::cell::Cell;

/// Accept-all account contract registered at every plain actor address, so that
/// "X authorizes this call" == "an entry for X with exactly this invocation tree is attached".
#[contract]
pub struct AcceptAll;

#[contractimpl]
impl AcceptAll {
    #[allow(non_snake_case)]
    pub fn __check_auth(_signature_payload: Val, _signatures: Val, _auth_context: Val) {}
}

pub const BIG_TTL: u32 = 3_110_400;

/// Fresh Env: unlimited budget, no snapshot file, `min_temp_entry_ttl = 1`.
pub fn new_env(seq: u32, max_entry_ttl: u32) -> Env {
    let e = Env::new_with_config(EnvTestConfig { capture_snapshot_at_drop: false });
    // finite per-invocation budget: a runaway loop in the code under test must end as a failed call, not as an
    // out-of-memory kill of the whole check (limits far above any legitimate call, DESIGN §9.17; the capacity
    // scenarios of C20 raise them with `raise_budget`)
    let (cpu, mem) = budget_limits();
    e.cost_estimate().budget().reset_limits(cpu, mem);
    // network-configuration limits (entry size, footprint, ...) are not the library's documented limits
    e.cost_estimate().disable_resource_limits();
    // host diagnostics (debug event log + backtrace attached to every error) only enrich error text,
    // which no oracle reads, and make every refused call several times more expensive
    if std::env::var("VERIF_DEBUG").is_err() {
        let _ = e.host().set_diagnostic_level(Default::default());
    }
    e.ledger().with_mut(|li| {
        li.sequence_number = seq;
        li.timestamp = 1_700_000_000 + seq as u64 * 5;
        li.min_temp_entry_ttl = 1;
        li.min_persistent_entry_ttl = 4096;
        li.max_entry_ttl = max_entry_ttl;
    });
    e
}

/// (cpu instructions, memory bytes) allowed per top-level invocation; VERIF_CPU_LIMIT / VERIF_MEM_LIMIT override.
/// The heaviest legitimate invocation of the ordinary cases stays below 3e9 instructions / 0.4 GB (measured by running
/// every check with those limits); a real network allows 1e8 instructions.
pub fn budget_limits() -> (u64, u64) {
    let get = |k: &str, d: u64| std::env::var(k).ok().and_then(|s| s.parse::<u64>().ok()).unwrap_or(d);
    (get("VERIF_CPU_LIMIT", 10_000_000_000), get("VERIF_MEM_LIMIT", 1_000_000_000))
}
/// for the few scripted scenarios that legitimately need more (10 000-token registry, 5 000 documents in one frame)
pub fn raise_budget(e: &Env, cpu: u64, mem: u64) {
    e.cost_estimate().budget().reset_limits(cpu, mem);
}

pub fn seq(e: &Env) -> u32 {
    e.ledger().sequence()
}

/// Advance the ledger by `k` (saturating).
pub fn advance(e: &Env, k: u32) {
    let s = e.ledger().sequence().saturating_add(k);
    set_seq(e, s);
}
pub fn set_seq(e: &Env, s: u32) {
    e.ledger().with_mut(|li| {
        li.sequence_number = s;
        li.timestamp = 1_700_000_000 + s as u64 * 5;
    });
}

/// New plain actor (contract-typed address with the accept-all account).
pub fn actor(e: &Env) -> Address {
    let a = Address::generate(e);
    e.register_at(&a, AcceptAll, ());
    a
}
pub fn actors(e: &Env, n: usize) -> Vec<Address> {
    (0..n).map(|_| actor(e)).collect()
}

/// One node of an authorized invocation tree.
#[derive(Clone, Debug)]
pub struct Inv {
    pub contract: Address,
    pub func: String,
    pub args: Vec<Val>,
    pub subs: Vec<Inv>,
}
impl Inv {
    pub fn new(contract: &Address, func: &str, args: SVec<Val>) -> Inv {
        Inv { contract: contract.clone(), func: func.to_string(), args: args.iter().collect(), subs: vec![] }
    }
    pub fn with_sub(mut self, s: Inv) -> Inv {
        self.subs.push(s);
        self
    }
}

thread_local! {
    static NONCE: Cell<i64> = const { Cell::new(1) };
}

fn inv_xdr(e: &Env, inv: &Inv) -> SorobanAuthorizedInvocation {
    let args: Vec<ScVal> = inv.args.iter().map(|v| ScVal::try_from_val(e, v).expect("arg to scval")).collect();
    let subs: Vec<SorobanAuthorizedInvocation> = inv.subs.iter().map(|s| inv_xdr(e, s)).collect();
    SorobanAuthorizedInvocation {
        function: SorobanAuthorizedFunction::ContractFn(InvokeContractArgs {
            contract_address: ScAddress::try_from(&inv.contract).expect("addr"),
            function_name: ScSymbol(inv.func.as_str().try_into().expect("sym")),
            args: VecM::try_from(args).expect("args"),
        }),
        sub_invocations: VecM::try_from(subs).expect("subs"),
    }
}

/// Build an authorization entry for `who` with signature `sig` (Void for plain actors).
pub fn entry_with_sig(e: &Env, who: &Address, inv: &Inv, sig: ScVal) -> SorobanAuthorizationEntry {
    let nonce = NONCE.with(|n| {
        let v = n.get();
        n.set(v + 1);
        v
    });
    let li = e.ledger().get();
    SorobanAuthorizationEntry {
        root_invocation: inv_xdr(e, inv),
        credentials: SorobanCredentials::Address(SorobanAddressCredentials {
            address: ScAddress::try_from(who).expect("addr"),
            nonce,
            signature_expiration_ledger: li.sequence_number.saturating_add(li.max_entry_ttl.min(100_000)).saturating_sub(1),
            signature: sig,
        }),
    }
}
pub fn entry(e: &Env, who: &Address, inv: &Inv) -> SorobanAuthorizationEntry {
    entry_with_sig(e, who, inv, ScVal::Void)
}

/// Install exactly these authorizations for the next call(s).
pub fn set_auth(e: &Env, list: &[(&Address, &Inv)]) {
    let entries: Vec<SorobanAuthorizationEntry> = list.iter().map(|(a, i)| entry(e, a, i)).collect();
    e.set_auths(&entries);
}
pub fn set_entries(e: &Env, entries: &[SorobanAuthorizationEntry]) {
    e.set_auths(entries);
}
pub fn no_auth(e: &Env) {
    e.set_auths(&[]);
}

/// Decoded contract event of the last top-level invocation.
#[derive(Clone, Debug)]
pub struct Ev {
    pub contract: Option<Address>,
    pub topics: Vec<ScVal>,
    pub data: ScVal,
}
impl Ev {
    pub fn topic_sym(&self, i: usize) -> Option<String> {
        match self.topics.get(i) {
            Some(ScVal::Symbol(s)) => Some(s.0.to_utf8_string_lossy()),
            _ => None,
        }
    }
    pub fn topic_addr(&self, e: &Env, i: usize) -> Option<Address> {
        match self.topics.get(i) {
            Some(ScVal::Address(a)) => Address::try_from_val(e, a).ok(),
            _ => None,
        }
    }
    /// data as map field lookup (contractevent structs are published as maps)
    pub fn data_field(&self, name: &str) -> Option<ScVal> {
        match &self.data {
            ScVal::Map(Some(m)) => {
                for ent in m.0.iter() {
                    if let ScVal::Symbol(s) = &ent.key {
                        if s.0.to_utf8_string_lossy() == name {
                            return Some(ent.val.clone());
                        }
                    }
                }
                None
            }
            _ => None,
        }
    }
}

pub fn scval_i128(v: &ScVal) -> Option<i128> {
    match v {
        ScVal::I128(p) => Some(((p.hi as i128) << 64) | (p.lo as i128)),
        _ => None,
    }
}
pub fn scval_u32(v: &ScVal) -> Option<u32> {
    match v {
        ScVal::U32(p) => Some(*p),
        _ => None,
    }
}
pub fn scval_u64(v: &ScVal) -> Option<u64> {
    match v {
        ScVal::U64(p) => Some(*p),
        _ => None,
    }
}
pub fn scval_addr(e: &Env, v: &ScVal) -> Option<Address> {
    match v {
        ScVal::Address(a) => Address::try_from_val(e, a).ok(),
        _ => None,
    }
}

/// Events emitted by the last top-level invocation (failed invocations emit none).
pub fn last_events(e: &Env) -> Vec<Ev> {
    let all = e.events().all();
    let mut out = vec![];
    for ce in all.events() {
        let xdr::ContractEventBody::V0(b) = &ce.body;
        let contract = ce.contract_id.as_ref().and_then(|id| Address::try_from_val(e, &ScAddress::Contract(id.clone())).ok());
        out.push(Ev { contract, topics: b.topics.to_vec(), data: b.data.clone() });
    }
    out
}
pub fn events_of(e: &Env, c: &Address) -> Vec<Ev> {
    last_events(e).into_iter().filter(|ev| ev.contract.as_ref() == Some(c)).collect()
}

/// Silence the default panic hook (contract panics are expected and observed as Err).
pub fn quiet_panics() {
    if std::env::var("VERIF_DEBUG").is_err() {
        std::panic::set_hook(Box::new(|_| {}));
    }
}

// ---------------------------------------------------------------- generic calls

use soroban_sdk::{IntoVal, Symbol};

/// Generic top-level invocation; contract errors, host errors and contract panics are all `Err`.
pub fn call(e: &Env, c: &Address, f: &str, args: SVec<Val>) -> Result<Val, String> {
    let r = e.try_invoke_contract::<Val, soroban_sdk::Error>(c, &Symbol::new(e, f), args);
    match r {
        Ok(Ok(v)) => Ok(v),
        Ok(Err(_)) => Err("conversion".into()),
        Err(Ok(err)) => Err(format!("{err:?}")),
        Err(Err(ie)) => Err(format!("{ie:?}")),
    }
}
/// Typed generic call.
pub fn call_t<T: TryFromVal<Env, Val>>(e: &Env, c: &Address, f: &str, args: SVec<Val>) -> Result<T, String> {
    let v = call(e, c, f, args)?;
    T::try_from_val(e, &v).map_err(|_| format!("{f}: unexpected return type"))
}
/// Read-only getter call that the model says must succeed.
pub fn get_t<T: TryFromVal<Env, Val>>(e: &Env, c: &Address, f: &str, args: SVec<Val>) -> Result<T, String> {
    call_t(e, c, f, args)
}

/// `args![e; a, b, c]` -> soroban Vec<Val>
#[macro_export]
macro_rules! args {
    ($e:expr $(;)?) => { soroban_sdk::Vec::<soroban_sdk::Val>::new($e) };
    ($e:expr; $($x:expr),+ $(,)?) => {{
        let mut v = soroban_sdk::Vec::<soroban_sdk::Val>::new($e);
        $( v.push_back(soroban_sdk::IntoVal::<soroban_sdk::Env, soroban_sdk::Val>::into_val(&$x, $e)); )+
        v
    }};
}

pub fn val<T: IntoVal<Env, Val>>(e: &Env, x: &T) -> Val {
    x.into_val(e)
}

//! PBT / fuzz harness over /repo (OpenZeppelin stellar-contracts). See /verif/DESIGN.md.
#![allow(clippy::too_many_arguments)]

#[macro_use]
pub mod engine;
#[macro_use]
pub mod envx;
pub mod big;
pub mod contracts;
pub mod examples;
pub mod gen;
pub mod props;

//! Shared strategies: boundary-biased scalars and monotone index mapping.

use proptest::prelude::*;

/// Map a raw u16 selector monotonically onto 0..len (never `%`, so shrinking works).
pub fn pick(sel: u16, len: usize) -> usize {
    if len == 0 {
        0
    } else {
        ((sel as usize) * len) >> 16
    }
}

pub fn i128_lattice() -> Vec<i128> {
    let mut v: Vec<i128> = vec![0, 1, -1, 2, -2, 3, 7, 10, 100];
    let p63 = 1i128 << 63;
    let p64 = 1i128 << 64;
    let e18 = 1_000_000_000_000_000_000i128;
    for b in [p63, p64, e18, 1i128 << 31, 1i128 << 32, 1i128 << 62, 1i128 << 96, 1i128 << 126, e18 * e18] {
        for d in [-1i128, 0, 1] {
            v.push(b + d);
            v.push(-(b + d));
        }
    }
    v.extend([i128::MIN, i128::MIN + 1, i128::MAX - 1, i128::MAX, i128::MAX / 2, i128::MAX / 2 + 1, i128::MIN / 2]);
    v.sort();
    v.dedup();
    v
}

/// uniformly random bit length, random sign
pub fn i128_anybits() -> BoxedStrategy<i128> {
    (0u32..=127, any::<u128>(), any::<bool>())
        .prop_map(|(bits, raw, neg)| {
            let m: u128 = if bits == 0 { 0 } else { raw >> (128 - bits) };
            let x = m as i128; // bits <= 127 so non-negative
            if neg {
                -x
            } else {
                x
            }
        })
        .boxed()
}

/// boundary-biased i128 over the full range
pub fn i128_full() -> BoxedStrategy<i128> {
    let lat = i128_lattice();
    prop_oneof![
        3 => proptest::sample::select(lat),
        4 => i128_anybits(),
        2 => -20i128..=1000i128,
        1 => any::<i128>(),
    ]
    .boxed()
}

/// boundary-biased non-negative amounts (token amounts): small, mid, huge
pub fn amount_pos() -> BoxedStrategy<i128> {
    prop_oneof![
        4 => 0i128..=1000,
        3 => i128_anybits().prop_map(|x| x.checked_abs().unwrap_or(i128::MAX)),
        1 => proptest::sample::select(vec![i128::MAX, i128::MAX - 1, i128::MAX / 2, i128::MAX / 2 + 1, 1i128 << 64, 1i128 << 126]),
    ]
    .boxed()
}

/// amounts as callers may pass them: mostly non-negative, sometimes negative
pub fn amount_any() -> BoxedStrategy<i128> {
    prop_oneof![
        8 => amount_pos(),
        1 => -1000i128..0,
        1 => proptest::sample::select(vec![i128::MIN, i128::MIN + 1, -1i128, -(1i128 << 64)]),
    ]
    .boxed()
}

pub fn u32_lattice() -> BoxedStrategy<u32> {
    prop_oneof![
        4 => 0u32..=50,
        2 => 0u32..=5000,
        1 => proptest::sample::select(vec![u32::MAX, u32::MAX - 1, u32::MAX / 2, 1u32 << 31, (1u32 << 31) - 1, 1u32 << 16]),
        1 => any::<u32>(),
    ]
    .boxed()
}

/// selector for accounts / items
pub fn sel() -> BoxedStrategy<u16> {
    any::<u16>().boxed()
}

/// serde adapter: i128 as decimal string (serde_json::Value cannot hold 128-bit numbers)
pub mod i128_str {
    use serde::{Deserialize, Deserializer, Serializer};
    pub fn serialize<S: Serializer>(x: &i128, s: S) -> Result<S::Ok, S::Error> {
        s.serialize_str(&x.to_string())
    }
    pub fn deserialize<'de, D: Deserializer<'de>>(d: D) -> Result<i128, D::Error> {
        let s = String::deserialize(d)?;
        s.parse::<i128>().map_err(serde::de::Error::custom)
    }
}
/// serde adapter for Vec<i128>
pub mod i128_vec_str {
    use serde::{Deserialize, Deserializer, Serialize, Serializer};
    pub fn serialize<S: Serializer>(x: &[i128], s: S) -> Result<S::Ok, S::Error> {
        x.iter().map(|v| v.to_string()).collect::<Vec<_>>().serialize(s)
    }
    pub fn deserialize<'de, D: Deserializer<'de>>(d: D) -> Result<Vec<i128>, D::Error> {
        let v = Vec::<String>::deserialize(d)?;
        v.iter().map(|s| s.parse::<i128>().map_err(serde::de::Error::custom)).collect()
    }
}

//! Exact integer oracle helpers on num-bigint.

use num_bigint::BigInt;
use num_integer::Integer;
use num_traits::{Signed, ToPrimitive, Zero};

pub fn b(x: i128) -> BigInt {
    BigInt::from(x)
}

pub fn fits_i128(x: &BigInt) -> Option<i128> {
    x.to_i128()
}

/// floor(n / d), d != 0
pub fn div_floor(n: &BigInt, d: &BigInt) -> BigInt {
    n.div_floor(d)
}
/// ceil(n / d), d != 0
pub fn div_ceil(n: &BigInt, d: &BigInt) -> BigInt {
    let (q, r) = n.div_mod_floor(d);
    if r.is_zero() {
        q
    } else {
        q + 1
    }
}
/// truncation toward zero
pub fn div_trunc(n: &BigInt, d: &BigInt) -> BigInt {
    let q = n.abs() / d.abs();
    if n.is_negative() != d.is_negative() {
        -q
    } else {
        q
    }
}

pub fn pow10(k: u32) -> BigInt {
    BigInt::from(10u32).pow(k)
}

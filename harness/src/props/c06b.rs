//! C06 sub-check `example-guards` — every guarded entry point of every example contract the
//! harness can link is called under each of six authorization variants.
//!
//! Statement clause audited: "a function restricted to the admin, the owner or a role executes
//! only with that principal's authorization".  For each entry point a scenario is built in which
//! the call WOULD succeed if the guard were absent (balances to sweep, tokens to burn, a scheduled
//! operation to cancel, ...).  The call is then made with exactly one of
//!
//! * `NoEntries`            no authorization entry at all,
//! * `StrangerSigns`        an exact entry of a stranger while the argument names the real principal,
//! * `StrangerAsPrincipal`  the stranger names itself as the principal and signs exactly,
//! * `PrincipalTampered`    the principal's entry for this function with ONE argument changed,
//! * `PrincipalOtherFn`     the principal's entry for another function of the same contract,
//! * `Exact`                the exact entry of the rightful principal.
//!
//! Oracle (safety): only `Exact` may succeed; a refused call leaves the observed state unchanged.
//! Liveness (non-vacuity): in EVERY case the exact entry of the principal is tried afterwards on the
//! same scenario and must succeed, so a refusal above is a refusal of the authorization and not of a
//! broken scenario.  The "stranger" is an outsider, a holder of a DIFFERENT privilege of the same
//! contract (admin for a role-guarded function, another role's member, ...) or a former holder whose
//! role / admin / ownership was taken away through the public entry points before the call.
//!
//! Principals that are contract accounts are authorized the way their `__check_auth` prescribes:
//! sac-admin-generic by an ed25519 signature of the chief / an operator over the entry's payload,
//! the multisig smart account by its rule's delegated signer.

use crate::contracts::c06b::sac_admin_generic::contract as sag;
use crate::contracts::c06b::sac_admin_wrapper::contract::ExampleContract as SacWrapperEx;
use crate::contracts::c19::target::Target;
use crate::contracts::c20b::mock_policy::MockPolicy;
use crate::contracts::ft::ft_base::FtBase;
use crate::engine::*;
use crate::envx::{self, call, Inv};
use crate::examples;
use crate::gen::pick;
use ed25519_dalek::{Signer as _, SigningKey};
use proptest::prelude::*;
use serde::{Deserialize, Serialize};
use sha2::{Digest, Sha256};
use soroban_sdk::testutils::IssuerFlags;
use soroban_sdk::xdr::{self, HashIdPreimage, HashIdPreimageSorobanAuthorization, Limits, ScVal, SorobanAuthorizationEntry, SorobanCredentials, WriteXdr};
use soroban_sdk::{Address, Bytes, BytesN, Env, IntoVal, Map, String as SString, Symbol, TryFromVal, Val, Vec as SVec};
use std::sync::OnceLock;
use stellar_accounts::smart_account::{ContextRuleType, Signatures, Signer};

// ------------------------------------------------------------------ the audited table

macro_rules! eps {
    ($( $v:ident => ($ex:expr, $f:expr, $g:expr) ),+ $(,)?) => {
        #[derive(Clone, Copy, Debug, Serialize, Deserialize, PartialEq, Eq, PartialOrd, Ord)]
        pub enum Ep { $($v),+ }
        /// (entry point, example, function, guard kind)
        pub const EPS: &[(Ep, &str, &str, &str)] = &[ $((Ep::$v, $ex, $f, $g)),+ ];
    };
}

eps! {
    FfForward => ("fee-forwarder-permissioned", "forward", "#[only_role(relayer, \"executor\")]"),
    FfEnable => ("fee-forwarder-permissioned", "enable_fee_token", "#[only_role(operator, \"manager\")]"),
    FfDisable => ("fee-forwarder-permissioned", "disable_fee_token", "#[only_role(operator, \"manager\")]"),
    FfSweep => ("fee-forwarder-permissioned", "sweep_tokens", "#[only_role(operator, \"manager\")]"),
    RoyMint => ("nft-royalties", "mint", "#[only_admin]"),
    RoyMintWithRoyalty => ("nft-royalties", "mint_with_royalty", "#[only_admin]"),
    RoySetDefault => ("nft-royalties", "set_default_royalty", "#[only_role(operator, \"manager\")]"),
    RoySetToken => ("nft-royalties", "set_token_royalty", "#[only_role(operator, \"manager\")]"),
    RoyRemoveToken => ("nft-royalties", "remove_token_royalty", "#[only_role(operator, \"manager\")]"),
    SawSetAdmin => ("sac-admin-wrapper", "set_admin", "#[only_admin]"),
    SawSetAuthorized => ("sac-admin-wrapper", "set_authorized", "#[only_role(operator, \"manager\")]"),
    SawMint => ("sac-admin-wrapper", "mint", "#[only_role(operator, \"manager\")]"),
    SawClawback => ("sac-admin-wrapper", "clawback", "#[only_role(operator, \"manager\")]"),
    SagSacMint => ("sac-admin-generic", "sac.mint", "__check_auth: operator key + minting limit"),
    SagSacClawback => ("sac-admin-generic", "sac.clawback", "__check_auth: operator key"),
    SagSacSetAuthorized => ("sac-admin-generic", "sac.set_authorized", "__check_auth: operator key"),
    SagSacSetAdmin => ("sac-admin-generic", "sac.set_admin", "__check_auth: chief key"),
    SagAssignOperator => ("sac-admin-generic", "assign_operator", "current_contract_address().require_auth() -> __check_auth"),
    SagRemoveOperator => ("sac-admin-generic", "remove_operator", "current_contract_address().require_auth() -> __check_auth"),
    SagSetMintingLimit => ("sac-admin-generic", "set_minting_limit", "current_contract_address().require_auth() -> __check_auth"),
    SagUpdateMintingLimit => ("sac-admin-generic", "update_minting_limit", "current_contract_address().require_auth() -> __check_auth"),
    VotesMint => ("fungible-votes", "mint", "#[only_owner]"),
    SeqMint => ("nft-sequential-minting", "mint", "stored owner.require_auth()"),
    EnumMint => ("nft-enumerable", "mint", "stored owner.require_auth()"),
    ConsBatchMint => ("nft-consecutive", "batch_mint", "stored owner.require_auth()"),
    FpMint => ("fungible-pausable", "mint", "stored owner.require_auth()"),
    FpPause => ("fungible-pausable", "pause", "caller.require_auth() + caller == stored owner"),
    FpUnpause => ("fungible-pausable", "unpause", "caller.require_auth() + caller == stored owner"),
    PausPause => ("pausable", "pause", "caller.require_auth() + caller == stored owner"),
    PausUnpause => ("pausable", "unpause", "caller.require_auth() + caller == stored owner"),
    AlAllow => ("fungible-allowlist", "allow_user", "#[only_role(operator, \"manager\")]"),
    AlDisallow => ("fungible-allowlist", "disallow_user", "#[only_role(operator, \"manager\")]"),
    BlBlock => ("fungible-blocklist", "block_user", "#[only_role(operator, \"manager\")]"),
    BlUnblock => ("fungible-blocklist", "unblock_user", "#[only_role(operator, \"manager\")]"),
    UpV1Upgrade => ("upgradeable-v1", "upgrade", "_require_auth: operator.require_auth() + operator == stored owner"),
    UpV2Upgrade => ("upgradeable-v2", "upgrade", "_require_auth: operator.require_auth() + operator == stored owner"),
    UpV2Migrate => ("upgradeable-v2", "migrate", "_require_auth: operator.require_auth() + operator == stored owner"),
    UpgraderUpgrade => ("upgradeable-upgrader", "upgrade", "#[only_owner]"),
    UpgraderUpgradeAndMigrate => ("upgradeable-upgrader", "upgrade_and_migrate", "#[only_owner]"),
    OwnIncrement => ("ownable", "increment", "#[only_owner]"),
    NacAdminFn => ("nft-access-control", "admin_restricted_function", "#[only_admin]"),
    NacMint => ("nft-access-control", "mint", "#[only_role(caller, \"minter\")]"),
    NacMultiRole => ("nft-access-control", "multi_role_action", "#[has_any_role(caller, [..])] + caller.require_auth()"),
    NacMultiRoleAuth => ("nft-access-control", "multi_role_auth_action", "#[only_any_role(caller, [..])]"),
    NacBurn => ("nft-access-control", "burn", "#[has_role(from, \"burner\")] + Base::burn from.require_auth()"),
    NacBurnFrom => ("nft-access-control", "burn_from", "#[has_role(spender, \"burner\")] + Base::burn_from spender.require_auth()"),
    TlSchedule => ("timelock-controller", "schedule_op", "#[only_role(proposer, \"proposer\")]"),
    TlCancel => ("timelock-controller", "cancel_op", "#[only_role(canceller, \"canceller\")]"),
    TlExecute => ("timelock-controller", "execute_op", "ensure_role(executor) + executor.require_auth()"),
    TlUpdateDelay => ("timelock-controller", "update_delay", "#[only_admin] (external admin)"),
    MsAddRule => ("multisig-smart-account", "add_context_rule", "current_contract_address().require_auth() -> rule signers"),
    MsRename => ("multisig-smart-account", "update_context_rule_name", "current_contract_address().require_auth() -> rule signers"),
    MsValidUntil => ("multisig-smart-account", "update_context_rule_valid_until", "current_contract_address().require_auth() -> rule signers"),
    MsRemoveRule => ("multisig-smart-account", "remove_context_rule", "current_contract_address().require_auth() -> rule signers"),
    MsAddSigner => ("multisig-smart-account", "add_signer", "current_contract_address().require_auth() -> rule signers"),
    MsRemoveSigner => ("multisig-smart-account", "remove_signer", "current_contract_address().require_auth() -> rule signers"),
    MsAddPolicy => ("multisig-smart-account", "add_policy", "current_contract_address().require_auth() -> rule signers"),
    MsRemovePolicy => ("multisig-smart-account", "remove_policy", "current_contract_address().require_auth() -> rule signers"),
    MsExecute => ("multisig-smart-account", "execute", "current_contract_address().require_auth() -> rule signers"),
    MsUpgrade => ("multisig-smart-account", "upgrade", "_require_auth: current_contract_address().require_auth() -> rule signers"),
}

#[derive(Clone, Copy, Debug, Serialize, Deserialize, PartialEq, Eq)]
pub enum Variant {
    NoEntries,
    StrangerSigns,
    StrangerAsPrincipal,
    PrincipalTampered,
    PrincipalOtherFn,
    Exact,
}
pub const VARIANTS: [Variant; 6] =
    [Variant::NoEntries, Variant::StrangerSigns, Variant::StrangerAsPrincipal, Variant::PrincipalTampered, Variant::PrincipalOtherFn, Variant::Exact];
impl Variant {
    fn name(self) -> &'static str {
        match self {
            Variant::NoEntries => "no-entries",
            Variant::StrangerSigns => "stranger-signs",
            Variant::StrangerAsPrincipal => "stranger-as-principal",
            Variant::PrincipalTampered => "principal-tampered",
            Variant::PrincipalOtherFn => "principal-other-fn",
            Variant::Exact => "exact",
        }
    }
}

#[derive(Clone, Copy, Debug, Serialize, Deserialize, PartialEq, Eq)]
pub enum StrangerKind {
    /// holds nothing on the contract
    Outsider,
    /// holds a different privilege of the same contract (falls back to Outsider where there is none)
    OtherPrivileged,
    /// held the privilege until it was taken away through the public entry points (falls back to Outsider
    /// where the example offers no way to take it away)
    ExHolder,
}

#[derive(Clone, Debug, Serialize, Deserialize)]
pub struct GCase {
    pub ep: Ep,
    pub variant: Variant,
    pub stranger: StrangerKind,
    /// the privilege changed hands (through the public entry points) before the audited call
    pub rotate: bool,
    pub seq: u32,
    pub a: u16,
    pub b: u16,
    pub c: u16,
}

pub fn strategy(_tier: Tier) -> BoxedStrategy<GCase> {
    strategy_over((0..EPS.len()).collect())
}
/// the same audit restricted to the entry points of one example (C19 re-uses the fee-forwarder rows, whose file it anchors)
pub fn strategy_for_example(example: &'static str) -> BoxedStrategy<GCase> {
    strategy_over((0..EPS.len()).filter(|i| EPS[*i].1 == example).collect())
}
fn strategy_over(rows: Vec<usize>) -> BoxedStrategy<GCase> {
    let cells = rows.len() * VARIANTS.len();
    (
        0..cells,
        prop_oneof![3 => Just(StrangerKind::Outsider), 3 => Just(StrangerKind::OtherPrivileged), 2 => Just(StrangerKind::ExHolder)],
        proptest::bool::weighted(0.3),
        10u32..5000,
        any::<u16>(),
        any::<u16>(),
        any::<u16>(),
    )
        .prop_map(move |(cell, stranger, rotate, seq, a, b, c)| GCase {
            ep: EPS[rows[cell / VARIANTS.len()]].0,
            variant: VARIANTS[cell % VARIANTS.len()],
            stranger,
            rotate,
            seq,
            a,
            b,
            c,
        })
        .boxed()
}

// ------------------------------------------------------------------ who authorizes, and how

#[derive(Clone)]
enum Who {
    /// plain actor: authorizes iff an entry of this address for exactly the invocation is attached
    Plain(Address),
    /// sac-admin-generic: the contract account `account` accepts an ed25519 signature (public key, signature)
    /// of the entry's payload; the key decides the privilege
    Ed { account: Address, secret: [u8; 32] },
    /// multisig smart account: `signer` is a delegated signer that signs the entry's payload
    Deleg { account: Address, signer: Address },
}

fn who_addr(w: &Who) -> Address {
    match w {
        Who::Plain(a) => a.clone(),
        Who::Ed { account, .. } => account.clone(),
        Who::Deleg { signer, .. } => signer.clone(),
    }
}

fn harness_err(what: &str) -> Violation {
    violation("C06/example-guards/harness", what.to_string())
}

fn auth_payload(e: &Env, entry: &SorobanAuthorizationEntry) -> Result<[u8; 32], Violation> {
    let SorobanCredentials::Address(c) = &entry.credentials else { return Err(harness_err("credentials")) };
    let pre = HashIdPreimage::SorobanAuthorization(HashIdPreimageSorobanAuthorization {
        network_id: xdr::Hash(e.ledger().network_id().to_array()),
        nonce: c.nonce,
        signature_expiration_ledger: c.signature_expiration_ledger,
        invocation: entry.root_invocation.clone(),
    });
    let bytes = pre.to_xdr(Limits::none()).map_err(|_| harness_err("payload xdr"))?;
    Ok(Sha256::digest(&bytes).into())
}

fn set_sig(entry: &mut SorobanAuthorizationEntry, sig: ScVal) {
    if let SorobanCredentials::Address(c) = &mut entry.credentials {
        c.signature = sig;
    }
}

/// The authorization entries by which `who` authorizes exactly `inv`.
fn entries_for(e: &Env, who: &Who, inv: &Inv) -> Result<Vec<SorobanAuthorizationEntry>, Violation> {
    match who {
        Who::Plain(a) => Ok(vec![envx::entry(e, a, inv)]),
        Who::Ed { account, secret } => {
            let mut en = envx::entry_with_sig(e, account, inv, ScVal::Void);
            let pl = auth_payload(e, &en)?;
            let sk = SigningKey::from_bytes(secret);
            let s = sag::Signature {
                public_key: BytesN::from_array(e, &sk.verifying_key().to_bytes()),
                signature: BytesN::from_array(e, &sk.sign(&pl).to_bytes()),
            };
            let v: Val = s.into_val(e);
            let sc = ScVal::try_from_val(e, &v).map_err(|_| harness_err("signature to ScVal"))?;
            set_sig(&mut en, sc);
            Ok(vec![en])
        }
        Who::Deleg { account, signer } => {
            let mut en = envx::entry_with_sig(e, account, inv, ScVal::Void);
            let pl = auth_payload(e, &en)?;
            let mut m: Map<Signer, Bytes> = Map::new(e);
            m.set(Signer::Delegated(signer.clone()), Bytes::new(e));
            let v: Val = Signatures(m).into_val(e);
            let sc = ScVal::try_from_val(e, &v).map_err(|_| harness_err("signatures to ScVal"))?;
            set_sig(&mut en, sc);
            let second = envx::entry(e, signer, &Inv::new(account, "__check_auth", args![e; BytesN::from_array(e, &pl)]));
            Ok(vec![en, second])
        }
    }
}

// ------------------------------------------------------------------ scenario

struct Scn {
    /// invoked contract
    c: Address,
    func: &'static str,
    /// arguments naming the given address as the principal (ignored by functions that name nobody)
    mk: Box<dyn Fn(&Address) -> Vec<Val>>,
    names_principal: bool,
    principal: Who,
    /// another function of the same contract, for `PrincipalOtherFn`
    other_fn: &'static str,
    /// third parties' entries that the call needs besides the principal's (forward: the user's)
    extra: Vec<(Address, Inv)>,
    outsider: Who,
    other_priv: Vec<Who>,
    ex_holder: Option<Who>,
    /// addresses for tampering an address argument
    pool: Vec<Address>,
    /// cheap observation of the state the call would change
    obs: Box<dyn Fn() -> Vec<String>>,
    /// the exact entry must succeed (false: the entry point cannot be authorized by anybody, see the note at `build_sag`)
    live: bool,
}

fn su(e: &Env, c: &Address, f: &str, a: SVec<Val>) -> Result<Val, Violation> {
    call(e, c, f, a).map_err(|er| violation("C06/example-guards/setup-failed", format!("set-up call {f} failed: {er}")))
}

/// getter -> printable (errors are printable too: "token does not exist" is an observation)
fn gv(e: &Env, c: &Address, f: &str, a: SVec<Val>) -> String {
    match call(e, c, f, a) {
        Ok(v) => match ScVal::try_from_val(e, &v) {
            Ok(s) => format!("{s:?}"),
            Err(_) => "unprintable".into(),
        },
        Err(_) => "err".into(),
    }
}

fn s(e: &Env, x: &str) -> SString {
    SString::from_str(e, x)
}
fn sym(e: &Env, x: &str) -> Symbol {
    Symbol::new(e, x)
}
fn v<T: IntoVal<Env, Val>>(e: &Env, x: T) -> Val {
    x.into_val(e)
}
fn b32(e: &Env, fill: u8, k: u16) -> BytesN<32> {
    let mut a = [fill; 32];
    a[0] = (k >> 8) as u8;
    a[1] = k as u8;
    BytesN::from_array(e, &a)
}

fn rotate_role(e: &Env, c: &Address, role: &str, admin: &Address, old: &Address) -> Result<Address, Violation> {
    let new = envx::actor(e);
    su(e, c, "grant_role", args![e; new.clone(), sym(e, role), admin.clone()])?;
    su(e, c, "revoke_role", args![e; old.clone(), sym(e, role), admin.clone()])?;
    Ok(new)
}
fn rotate_admin(e: &Env, c: &Address) -> Result<Address, Violation> {
    let new = envx::actor(e);
    su(e, c, "transfer_admin_role", args![e; new.clone(), envx::seq(e) + 100])?;
    su(e, c, "accept_admin_transfer", args![e])?;
    Ok(new)
}
fn rotate_owner(e: &Env, c: &Address) -> Result<Address, Violation> {
    let new = envx::actor(e);
    su(e, c, "transfer_ownership", args![e; new.clone(), envx::seq(e) + 100])?;
    su(e, c, "accept_ownership", args![e])?;
    Ok(new)
}

fn wants_rotation(k: &GCase) -> bool {
    k.rotate || k.stranger == StrangerKind::ExHolder
}

fn plains(v: &[&Address]) -> Vec<Who> {
    v.iter().map(|a| Who::Plain((*a).clone())).collect()
}

#[allow(clippy::too_many_arguments)]
fn scn(
    c: &Address,
    func: &'static str,
    other_fn: &'static str,
    names_principal: bool,
    principal: Who,
    outsider: Who,
    mk: Box<dyn Fn(&Address) -> Vec<Val>>,
    obs: Box<dyn Fn() -> Vec<String>>,
) -> Scn {
    Scn { c: c.clone(), func, mk, names_principal, principal, other_fn, extra: vec![], outsider, other_priv: vec![], ex_holder: None, pool: vec![], obs, live: true }
}

// ---------------------------------------------------------------- fee-forwarder-permissioned

fn build_ff(e: &Env, k: &GCase) -> Result<Scn, Violation> {
    use examples::fee_forwarder_permissioned::contract::FeeForwarder;
    let (admin, m1, r0, r1) = (envx::actor(e), envx::actor(e), envx::actor(e), envx::actor(e));
    let (user, recipient, outsider) = (envx::actor(e), envx::actor(e), envx::actor(e));
    let mut ex = SVec::new(e);
    ex.push_back(r0.clone());
    ex.push_back(r1.clone());
    let fwd = e.register(FeeForwarder, (admin.clone(), m1.clone(), ex));
    let tok = e.register(FtBase, (admin.clone(),));
    let tok2 = e.register(FtBase, (admin.clone(),));
    let target = e.register(Target, ());
    let is_fwd = k.ep == Ep::FfForward;
    let (role, mut principal) = if is_fwd { ("executor", r0.clone()) } else { ("manager", m1.clone()) };
    let mut exh = None;
    if wants_rotation(k) {
        let n = rotate_role(e, &fwd, role, &admin, &principal)?;
        exh = Some(Who::Plain(principal.clone()));
        principal = n;
    }
    // the manager that does the set-up below is whoever holds the role now
    let mgr = if is_fwd { m1.clone() } else { principal.clone() };
    let others = if is_fwd { plains(&[&admin, &m1]) } else { plains(&[&admin, &r0, &r1]) };

    let (fe, ff, ft, ft2, fu, fr, fg) = (e.clone(), fwd.clone(), tok.clone(), tok2.clone(), user.clone(), recipient.clone(), target.clone());
    let obs = Box::new(move || {
        let e = &fe;
        let allowed = |t: &Address| e.as_contract(&ff, || stellar_fee_abstraction::is_allowed_fee_token(e, t));
        let enabled = e.as_contract(&ff, || stellar_fee_abstraction::is_fee_token_allowlist_enabled(e));
        vec![
            format!("{} {} {}", allowed(&ft), allowed(&ft2), enabled),
            gv(e, &ft, "balance", args![e; ff.clone()]),
            gv(e, &ft, "balance", args![e; fr.clone()]),
            gv(e, &ft, "balance", args![e; fu.clone()]),
            gv(e, &fg, "log", args![e]),
        ]
    });

    let me = e.clone();
    let (func, other_fn, mk): (&'static str, &'static str, Box<dyn Fn(&Address) -> Vec<Val>>) = match k.ep {
        Ep::FfEnable => {
            if k.c & 1 == 1 {
                su(e, &fwd, "enable_fee_token", args![e; tok2.clone(), mgr.clone()])?;
            }
            let t = tok.clone();
            ("enable_fee_token", "disable_fee_token", Box::new(move |p| vec![v(&me, t.clone()), v(&me, p.clone())]))
        }
        Ep::FfDisable => {
            su(e, &fwd, "enable_fee_token", args![e; tok.clone(), mgr.clone()])?;
            if k.c & 1 == 1 {
                su(e, &fwd, "enable_fee_token", args![e; tok2.clone(), mgr.clone()])?;
            }
            let t = tok.clone();
            ("disable_fee_token", "enable_fee_token", Box::new(move |p| vec![v(&me, t.clone()), v(&me, p.clone())]))
        }
        Ep::FfSweep => {
            let amt: i128 = 1 + k.a as i128 * 977;
            su(e, &tok, "mint", args![e; fwd.clone(), amt])?;
            let (t, r) = (tok.clone(), recipient.clone());
            ("sweep_tokens", "enable_fee_token", Box::new(move |p| vec![v(&me, t.clone()), v(&me, r.clone()), v(&me, p.clone())]))
        }
        _ => {
            if k.c & 1 == 1 {
                su(e, &fwd, "enable_fee_token", args![e; tok.clone(), mgr.clone()])?;
            }
            let fee: i128 = 1 + pick(k.a, 1000) as i128;
            let max: i128 = fee + pick(k.b, 50) as i128;
            let exp: u32 = envx::seq(e) + 50;
            su(e, &tok, "mint", args![e; user.clone(), max + 10])?;
            let targs: SVec<Val> = args![e; k.a as i128, k.b as u32];
            let (t, g, u, ta) = (tok.clone(), target.clone(), user.clone(), targs.clone());
            (
                "forward",
                "sweep_tokens",
                Box::new(move |p| {
                    vec![v(&me, t.clone()), v(&me, fee), v(&me, max), v(&me, exp), v(&me, g.clone()), v(&me, sym(&me, "ping")), v(&me, ta.clone()), v(&me, u.clone()), v(&me, p.clone())]
                }),
            )
        }
    };
    let mut sc = scn(&fwd, func, other_fn, true, Who::Plain(principal), Who::Plain(outsider.clone()), mk, obs);
    if is_fwd {
        // the user's own authorization (C19's subject) is always attached and always exact
        let fee: i128 = 1 + pick(k.a, 1000) as i128;
        let max: i128 = fee + pick(k.b, 50) as i128;
        let exp: u32 = envx::seq(e) + 50;
        let targs: SVec<Val> = args![e; k.a as i128, k.b as u32];
        let root = Inv::new(&fwd, "forward", args![e; tok.clone(), max, exp, target.clone(), sym(e, "ping"), targs])
            .with_sub(Inv::new(&tok, "approve", args![e; user.clone(), fwd.clone(), max, exp]));
        sc.extra.push((user.clone(), root));
    }
    sc.other_priv = others;
    sc.ex_holder = exh;
    sc.pool = vec![tok2, recipient, outsider, admin, user];
    Ok(sc)
}

// ---------------------------------------------------------------- nft-royalties

fn build_roy(e: &Env, k: &GCase) -> Result<Scn, Violation> {
    use examples::nft_royalties::contract::ExampleContract;
    let (admin0, m1, holder, to, recv, outsider) = (envx::actor(e), envx::actor(e), envx::actor(e), envx::actor(e), envx::actor(e), envx::actor(e));
    let c = e.register(ExampleContract, (s(e, "uri"), s(e, "N"), s(e, "N"), admin0.clone(), m1.clone()));
    // two existing tokens (ids 0 and 1)
    su(e, &c, "mint", args![e; holder.clone()])?;
    su(e, &c, "mint", args![e; holder.clone()])?;
    let by_admin = matches!(k.ep, Ep::RoyMint | Ep::RoyMintWithRoyalty);
    let mut admin = admin0.clone();
    let mut mgr = m1.clone();
    let mut exh = None;
    if wants_rotation(k) {
        if by_admin {
            admin = rotate_admin(e, &c)?;
            exh = Some(Who::Plain(admin0.clone()));
        } else {
            mgr = rotate_role(e, &c, "manager", &admin, &m1)?;
            exh = Some(Who::Plain(m1.clone()));
        }
    }
    let tid: u32 = (k.c & 1) as u32;
    let bps: u32 = pick(k.a, 10_001) as u32;
    let (oe, oc, oto) = (e.clone(), c.clone(), to.clone());
    let obs = Box::new(move || {
        let e = &oe;
        vec![
            gv(e, &oc, "get_royalty_info", args![e; 0u32, 10_000i128]),
            gv(e, &oc, "get_royalty_info", args![e; 1u32, 10_000i128]),
            gv(e, &oc, "get_royalty_info", args![e; 2u32, 10_000i128]),
            gv(e, &oc, "balance", args![e; oto.clone()]),
        ]
    });
    let me = e.clone();
    let (func, other_fn, names, mk): (&'static str, &'static str, bool, Box<dyn Fn(&Address) -> Vec<Val>>) = match k.ep {
        Ep::RoyMint => {
            let t = to.clone();
            ("mint", "mint_with_royalty", false, Box::new(move |_| vec![v(&me, t.clone())]))
        }
        Ep::RoyMintWithRoyalty => {
            let (t, r) = (to.clone(), recv.clone());
            ("mint_with_royalty", "mint", false, Box::new(move |_| vec![v(&me, t.clone()), v(&me, r.clone()), v(&me, bps)]))
        }
        Ep::RoySetDefault => {
            let r = recv.clone();
            ("set_default_royalty", "set_token_royalty", true, Box::new(move |p| vec![v(&me, r.clone()), v(&me, bps), v(&me, p.clone())]))
        }
        Ep::RoySetToken => {
            let r = recv.clone();
            ("set_token_royalty", "set_default_royalty", true, Box::new(move |p| vec![v(&me, tid), v(&me, r.clone()), v(&me, bps), v(&me, p.clone())]))
        }
        _ => {
            su(e, &c, "set_token_royalty", args![e; tid, recv.clone(), 1 + pick(k.a, 10_000) as u32, mgr.clone()])?;
            ("remove_token_royalty", "set_token_royalty", true, Box::new(move |p| vec![v(&me, tid), v(&me, p.clone())]))
        }
    };
    let principal = if by_admin { admin.clone() } else { mgr.clone() };
    let mut sc = scn(&c, func, other_fn, names, Who::Plain(principal), Who::Plain(outsider.clone()), mk, obs);
    sc.other_priv = if by_admin { plains(&[&mgr]) } else { plains(&[&admin]) };
    sc.ex_holder = exh;
    sc.pool = vec![holder, outsider, to, recv];
    Ok(sc)
}

// ---------------------------------------------------------------- sac-admin-wrapper

fn new_sac(e: &Env, issuer_admin: &Address) -> Address {
    let sac = e.register_stellar_asset_contract_v2(issuer_admin.clone());
    sac.issuer().set_flag(IssuerFlags::RevocableFlag);
    sac.issuer().set_flag(IssuerFlags::ClawbackEnabledFlag);
    sac.address()
}

fn build_saw(e: &Env, k: &GCase) -> Result<Scn, Violation> {
    let (issuer, admin0, m1, holder, to, newadm, outsider) =
        (envx::actor(e), envx::actor(e), envx::actor(e), envx::actor(e), envx::actor(e), envx::actor(e), envx::actor(e));
    let sac = new_sac(e, &issuer);
    let w = e.register(SacWrapperEx, (admin0.clone(), m1.clone(), sac.clone()));
    let bal: i128 = 1000 + k.b as i128;
    su(e, &sac, "mint", args![e; holder.clone(), bal])?;
    su(e, &sac, "set_admin", args![e; w.clone()])?;
    let by_admin = k.ep == Ep::SawSetAdmin;
    let mut admin = admin0.clone();
    let mut mgr = m1.clone();
    let mut exh = None;
    if wants_rotation(k) {
        if by_admin {
            admin = rotate_admin(e, &w)?;
            exh = Some(Who::Plain(admin0.clone()));
        } else {
            mgr = rotate_role(e, &w, "manager", &admin, &m1)?;
            exh = Some(Who::Plain(m1.clone()));
        }
    }
    let (oe, os, oh, oto) = (e.clone(), sac.clone(), holder.clone(), to.clone());
    let obs = Box::new(move || {
        let e = &oe;
        vec![
            gv(e, &os, "admin", args![e]),
            gv(e, &os, "authorized", args![e; oh.clone()]),
            gv(e, &os, "balance", args![e; oh.clone()]),
            gv(e, &os, "balance", args![e; oto.clone()]),
        ]
    });
    let me = e.clone();
    let (func, other_fn, mk): (&'static str, &'static str, Box<dyn Fn(&Address) -> Vec<Val>>) = match k.ep {
        Ep::SawSetAdmin => {
            let n = newadm.clone();
            ("set_admin", "mint", Box::new(move |p| vec![v(&me, n.clone()), v(&me, p.clone())]))
        }
        Ep::SawSetAuthorized => {
            let authorize = k.c & 1 == 1;
            if authorize {
                su(e, &w, "set_authorized", args![e; holder.clone(), false, mgr.clone()])?;
            }
            let h = holder.clone();
            ("set_authorized", "mint", Box::new(move |p| vec![v(&me, h.clone()), v(&me, authorize), v(&me, p.clone())]))
        }
        Ep::SawMint => {
            let amt: i128 = 1 + k.a as i128;
            let t = to.clone();
            ("mint", "clawback", Box::new(move |p| vec![v(&me, t.clone()), v(&me, amt), v(&me, p.clone())]))
        }
        _ => {
            let amt: i128 = 1 + pick(k.a, bal as usize) as i128;
            let h = holder.clone();
            ("clawback", "mint", Box::new(move |p| vec![v(&me, h.clone()), v(&me, amt), v(&me, p.clone())]))
        }
    };
    let principal = if by_admin { admin.clone() } else { mgr.clone() };
    let mut sc = scn(&w, func, other_fn, true, Who::Plain(principal), Who::Plain(outsider.clone()), mk, obs);
    sc.other_priv = if by_admin { plains(&[&mgr, &issuer]) } else { plains(&[&admin, &issuer]) };
    sc.ex_holder = exh;
    sc.pool = vec![outsider, to, holder, newadm];
    Ok(sc)
}

// ---------------------------------------------------------------- sac-admin-generic
//
// The administrator of the SAC is a contract account: `admin.require_auth()` inside the SAC runs the
// example's `__check_auth`, which verifies an ed25519 signature and then decides by the signing KEY
// (chief / operator) and the SAC function.  The example's own four entry points (`assign_operator`, ...)
// require `current_contract_address().require_auth()`, i.e. the same `__check_auth`; for a context whose
// contract is not the SAC `extract_sac_contract_context` panics (`SACAddressMismatch`), so those four are
// audited for safety only (`live == false`: counted as class `eg_exact_refused`, never demanded).

const SK_CHIEF: [u8; 32] = [11; 32];
const SK_OP: [u8; 32] = [12; 32];
const SK_OP2: [u8; 32] = [13; 32];
const SK_STRANGER: [u8; 32] = [14; 32];

fn pk(e: &Env, sk: &[u8; 32]) -> BytesN<32> {
    BytesN::from_array(e, &SigningKey::from_bytes(sk).verifying_key().to_bytes())
}

fn build_sag(e: &Env, k: &GCase) -> Result<Scn, Violation> {
    let (issuer, holder, to, newadm, outsider) = (envx::actor(e), envx::actor(e), envx::actor(e), envx::actor(e), envx::actor(e));
    let sac = new_sac(e, &issuer);
    let limit: i128 = 1_000_000;
    let g = e.register(sag::SacAdminExampleContract, (sac.clone(), pk(e, &SK_CHIEF), pk(e, &SK_OP), limit, 0i128));
    let bal: i128 = 1000 + k.b as i128;
    su(e, &sac, "mint", args![e; holder.clone(), bal])?;
    su(e, &sac, "set_admin", args![e; g.clone()])?;
    let by_operator = matches!(k.ep, Ep::SagSacMint | Ep::SagSacClawback | Ep::SagSacSetAuthorized);
    let mut op = SK_OP;
    let mut exh = None;
    if by_operator && wants_rotation(k) {
        // under mock_all_auths (set-up only) the example's own entry points are reachable
        su(e, &g, "assign_operator", args![e; pk(e, &SK_OP2)])?;
        su(e, &g, "set_minting_limit", args![e; pk(e, &SK_OP2), limit])?;
        su(e, &g, "remove_operator", args![e; pk(e, &SK_OP)])?;
        exh = Some(Who::Ed { account: g.clone(), secret: SK_OP });
        op = SK_OP2;
    }
    let (oe, os, og, oh, oto) = (e.clone(), sac.clone(), g.clone(), holder.clone(), to.clone());
    let obs = Box::new(move || {
        let e = &oe;
        let inst = e.as_contract(&og, || {
            let mut out = String::new();
            for sk in [&SK_OP, &SK_OP2, &SK_STRANGER] {
                let o: Option<bool> = e.storage().instance().get(&sag::SacDataKey::Operator(pk(e, sk)));
                let l: Option<(i128, i128)> = e.storage().instance().get(&sag::SacDataKey::MintingLimit(pk(e, sk)));
                out.push_str(&format!("{o:?}/{l:?};"));
            }
            out
        });
        vec![
            inst,
            gv(e, &os, "admin", args![e]),
            gv(e, &os, "authorized", args![e; oh.clone()]),
            gv(e, &os, "balance", args![e; oh.clone()]),
            gv(e, &os, "balance", args![e; oto.clone()]),
        ]
    });
    let me = e.clone();
    let on_sac = matches!(k.ep, Ep::SagSacMint | Ep::SagSacClawback | Ep::SagSacSetAuthorized | Ep::SagSacSetAdmin);
    let (func, other_fn, mk): (&'static str, &'static str, Box<dyn Fn(&Address) -> Vec<Val>>) = match k.ep {
        Ep::SagSacMint => {
            let amt: i128 = 1 + pick(k.a, limit as usize) as i128;
            let t = to.clone();
            ("mint", "clawback", Box::new(move |_| vec![v(&me, t.clone()), v(&me, amt)]))
        }
        Ep::SagSacClawback => {
            let amt: i128 = 1 + pick(k.a, bal as usize) as i128;
            let h = holder.clone();
            ("clawback", "mint", Box::new(move |_| vec![v(&me, h.clone()), v(&me, amt)]))
        }
        Ep::SagSacSetAuthorized => {
            let authorize = k.c & 1 == 1;
            if authorize {
                su(e, &sac, "set_authorized", args![e; holder.clone(), false])?;
            }
            let h = holder.clone();
            ("set_authorized", "mint", Box::new(move |_| vec![v(&me, h.clone()), v(&me, authorize)]))
        }
        Ep::SagSacSetAdmin => {
            let n = newadm.clone();
            ("set_admin", "mint", Box::new(move |_| vec![v(&me, n.clone())]))
        }
        Ep::SagAssignOperator => ("assign_operator", "remove_operator", Box::new(move |_| vec![v(&me, pk(&me, &SK_STRANGER))])),
        Ep::SagRemoveOperator => ("remove_operator", "assign_operator", Box::new(move |_| vec![v(&me, pk(&me, &SK_OP))])),
        Ep::SagSetMintingLimit => {
            let l: i128 = 5 + k.a as i128;
            ("set_minting_limit", "update_minting_limit", Box::new(move |_| vec![v(&me, pk(&me, &SK_OP)), v(&me, l)]))
        }
        _ => {
            let l: i128 = 5 + k.a as i128;
            ("update_minting_limit", "set_minting_limit", Box::new(move |_| vec![v(&me, pk(&me, &SK_OP)), v(&me, l)]))
        }
    };
    let ed = |sk: [u8; 32]| Who::Ed { account: g.clone(), secret: sk };
    let principal = if by_operator { ed(op) } else { ed(SK_CHIEF) };
    let invoked = if on_sac { sac.clone() } else { g.clone() };
    let mut sc = scn(&invoked, func, other_fn, false, principal, ed(SK_STRANGER), mk, obs);
    // a different privilege: the chief for operator functions, an operator for chief functions; and a plain
    // address that is nobody's key
    sc.other_priv = if by_operator { vec![ed(SK_CHIEF), Who::Plain(issuer.clone())] } else { vec![ed(SK_OP), Who::Plain(issuer.clone())] };
    sc.ex_holder = exh;
    sc.pool = vec![outsider, to, holder, newadm];
    // `mint` / `clawback`: the library reads the amount at argument index 2 (MINT_AMOUNT_INDEX / CLAWBACK_AMOUNT_INDEX)
    // while the SAC's `mint(to, amount)` / `clawback(from, amount)` carry it at index 1, so `__check_auth` fails with
    // SACMissingFnParam for every signer: not authorizable on the pinned tree either (liveness, not C06's safety clause)
    sc.live = !never_authorizable(k.ep);
    Ok(sc)
}

// ---------------------------------------------------------------- single-owner token examples

fn build_owner_mints(e: &Env, k: &GCase) -> Result<Scn, Violation> {
    let (owner0, to, outsider) = (envx::actor(e), envx::actor(e), envx::actor(e));
    let mut owner = owner0.clone();
    let mut exh = None;
    let nft_args = (s(e, "uri"), s(e, "N"), s(e, "N"), owner0.clone());
    let c = match k.ep {
        Ep::VotesMint => {
            let c = e.register(examples::fungible_votes::contract::ExampleContract, (owner0.clone(),));
            if wants_rotation(k) {
                owner = rotate_owner(e, &c)?;
                exh = Some(Who::Plain(owner0.clone()));
            }
            c
        }
        Ep::SeqMint => e.register(examples::nft_sequential_minting::contract::ExampleContract, nft_args),
        Ep::EnumMint => e.register(examples::nft_enumerable::contract::ExampleContract, nft_args),
        Ep::ConsBatchMint => e.register(examples::nft_consecutive::contract::ExampleContract, nft_args),
        _ => e.register(examples::fungible_pausable::contract::ExampleContract, (s(e, "N"), s(e, "N"), owner0.clone(), 1000i128)),
    };
    let (oe, oc, oto) = (e.clone(), c.clone(), to.clone());
    let fungible = matches!(k.ep, Ep::VotesMint | Ep::FpMint);
    let obs = Box::new(move || {
        let e = &oe;
        let mut o = vec![gv(e, &oc, "balance", args![e; oto.clone()])];
        if fungible {
            o.push(gv(e, &oc, "total_supply", args![e]));
        } else {
            o.push(gv(e, &oc, "owner_of", args![e; 0u32]));
        }
        o
    });
    let me = e.clone();
    let t = to.clone();
    let (func, other_fn, mk): (&'static str, &'static str, Box<dyn Fn(&Address) -> Vec<Val>>) = match k.ep {
        Ep::VotesMint | Ep::FpMint => {
            let amt: i128 = 1 + k.a as i128 * 31;
            ("mint", "transfer", Box::new(move |_| vec![v(&me, t.clone()), v(&me, amt)]))
        }
        Ep::ConsBatchMint => {
            let n: u32 = 1 + pick(k.a, 5) as u32;
            ("batch_mint", "transfer", Box::new(move |_| vec![v(&me, t.clone()), v(&me, n)]))
        }
        _ => ("mint", "transfer", Box::new(move |_| vec![v(&me, t.clone())])),
    };
    let mut sc = scn(&c, func, other_fn, false, Who::Plain(owner), Who::Plain(outsider.clone()), mk, obs);
    // the receiver of the mint is the only other party of these contracts
    sc.other_priv = plains(&[&to]);
    sc.ex_holder = exh;
    sc.pool = vec![outsider, to];
    Ok(sc)
}

// ---------------------------------------------------------------- pause / unpause of the two pausable examples

fn build_pause(e: &Env, k: &GCase) -> Result<Scn, Violation> {
    let (owner, to, outsider) = (envx::actor(e), envx::actor(e), envx::actor(e));
    let fp = matches!(k.ep, Ep::FpPause | Ep::FpUnpause);
    let c = if fp {
        e.register(examples::fungible_pausable::contract::ExampleContract, (s(e, "N"), s(e, "N"), owner.clone(), 1000i128))
    } else {
        e.register(examples::pausable::contract::ExampleContract, (owner.clone(),))
    };
    let unpause = matches!(k.ep, Ep::FpUnpause | Ep::PausUnpause);
    if unpause {
        su(e, &c, "pause", args![e; owner.clone()])?;
    }
    let (oe, oc) = (e.clone(), c.clone());
    let obs = Box::new(move || vec![gv(&oe, &oc, "paused", args![&oe])]);
    let me = e.clone();
    let mk: Box<dyn Fn(&Address) -> Vec<Val>> = Box::new(move |p| vec![v(&me, p.clone())]);
    let (func, other_fn) = if unpause { ("unpause", "pause") } else { ("pause", "unpause") };
    let mut sc = scn(&c, func, other_fn, true, Who::Plain(owner), Who::Plain(outsider.clone()), mk, obs);
    sc.other_priv = plains(&[&to]);
    sc.pool = vec![outsider, to];
    Ok(sc)
}

// ---------------------------------------------------------------- fungible-allowlist / fungible-blocklist

fn build_lists(e: &Env, k: &GCase) -> Result<Scn, Violation> {
    let (admin, m1, user, outsider) = (envx::actor(e), envx::actor(e), envx::actor(e), envx::actor(e));
    let allow = matches!(k.ep, Ep::AlAllow | Ep::AlDisallow);
    let cargs = (s(e, "N"), s(e, "N"), admin.clone(), m1.clone(), 1000i128);
    let c = if allow { e.register(examples::fungible_allowlist::contract::ExampleContract, cargs) } else { e.register(examples::fungible_blocklist::contract::ExampleContract, cargs) };
    let mut mgr = m1.clone();
    let mut exh = None;
    if wants_rotation(k) {
        mgr = rotate_role(e, &c, "manager", &admin, &m1)?;
        exh = Some(Who::Plain(m1.clone()));
    }
    let (func, other_fn, getter): (&'static str, &'static str, &'static str) = match k.ep {
        Ep::AlAllow => ("allow_user", "disallow_user", "allowed"),
        Ep::AlDisallow => ("disallow_user", "allow_user", "allowed"),
        Ep::BlBlock => ("block_user", "unblock_user", "blocked"),
        _ => ("unblock_user", "block_user", "blocked"),
    };
    if matches!(k.ep, Ep::AlDisallow | Ep::BlUnblock) {
        su(e, &c, other_fn, args![e; user.clone(), mgr.clone()])?;
    }
    let (oe, oc, ou) = (e.clone(), c.clone(), user.clone());
    let obs = Box::new(move || vec![gv(&oe, &oc, getter, args![&oe; ou.clone()])]);
    let (me, u) = (e.clone(), user.clone());
    let mk: Box<dyn Fn(&Address) -> Vec<Val>> = Box::new(move |p| vec![v(&me, u.clone()), v(&me, p.clone())]);
    let mut sc = scn(&c, func, other_fn, true, Who::Plain(mgr), Who::Plain(outsider.clone()), mk, obs);
    sc.other_priv = plains(&[&admin, &user]);
    sc.ex_holder = exh;
    sc.pool = vec![outsider, user, admin];
    Ok(sc)
}

// ---------------------------------------------------------------- upgradeable examples

const V2_WASM: &[u8] = include_bytes!("/repo/examples/upgradeable/testdata/upgradeable_v2_example.wasm");

fn build_upg(e: &Env, k: &GCase) -> Result<Scn, Violation> {
    use examples::upgradeable_upgrader::contract::Upgrader;
    use examples::upgradeable_v1::contract::ExampleContract as V1;
    use examples::upgradeable_v2::contract::{Data, ExampleContract as V2, DATA_KEY, OWNER};
    let (owner, other, outsider) = (envx::actor(e), envx::actor(e), envx::actor(e));
    let hash: BytesN<32> = e.deployer().upload_contract_wasm(V2_WASM);
    let data = Data { num1: k.a as u32, num2: k.b as u32 };
    let me = e.clone();
    match k.ep {
        Ep::UpV1Upgrade | Ep::UpV2Upgrade | Ep::UpV2Migrate => {
            let c = if k.ep == Ep::UpV1Upgrade {
                e.register(V1, (owner.clone(),))
            } else {
                let c = e.register(V2, ());
                e.as_contract(&c, || e.storage().instance().set(&OWNER, &owner));
                c
            };
            if k.ep == Ep::UpV2Migrate {
                // a migration is pending only after an upgrade; afterwards the native code of the tree is
                // re-installed at the same address (instance storage is kept), as in C16's migration sub-check
                su(e, &c, "upgrade", args![e; hash.clone(), owner.clone()])?;
                e.register_at(&c, V2, ());
            }
            let (oe, oc) = (e.clone(), c.clone());
            let obs = Box::new(move || {
                let e = &oe;
                let d: Option<(u32, u32)> = e.as_contract(&oc, || e.storage().instance().get::<_, Data>(&DATA_KEY).map(|d| (d.num1, d.num2)));
                let pending = e.as_contract(&oc, || stellar_contract_utils::upgradeable::can_complete_migration(e));
                vec![format!("{d:?} {pending}")]
            });
            let (func, other_fn, mk): (&'static str, &'static str, Box<dyn Fn(&Address) -> Vec<Val>>) = if k.ep == Ep::UpV2Migrate {
                ("migrate", "upgrade", Box::new(move |p| vec![v(&me, Data { num1: data.num1, num2: data.num2 }), v(&me, p.clone())]))
            } else {
                let h = hash.clone();
                ("upgrade", "migrate", Box::new(move |p| vec![v(&me, h.clone()), v(&me, p.clone())]))
            };
            let mut sc = scn(&c, func, other_fn, true, Who::Plain(owner), Who::Plain(outsider.clone()), mk, obs);
            sc.other_priv = plains(&[&other]);
            sc.pool = vec![outsider, other];
            Ok(sc)
        }
        _ => {
            // the upgrader owns the target (it is the target's stored owner AND the operator it passes on),
            // so the only authorization the whole call needs is the one of the upgrader's owner
            let up = e.register(Upgrader, (owner.clone(),));
            let tgt = e.register(V1, (up.clone(),));
            let (oe, oc) = (e.clone(), tgt.clone());
            let obs = Box::new(move || {
                let e = &oe;
                let d: Option<(u32, u32)> = e.as_contract(&oc, || e.storage().instance().get::<_, Data>(&DATA_KEY).map(|d| (d.num1, d.num2)));
                let pending = e.as_contract(&oc, || stellar_contract_utils::upgradeable::can_complete_migration(e));
                vec![format!("{d:?} {pending}")]
            });
            let (t, u, h) = (tgt.clone(), up.clone(), hash.clone());
            let (func, other_fn, mk): (&'static str, &'static str, Box<dyn Fn(&Address) -> Vec<Val>>) = if k.ep == Ep::UpgraderUpgrade {
                ("upgrade", "upgrade_and_migrate", Box::new(move |_| vec![v(&me, t.clone()), v(&me, u.clone()), v(&me, h.clone())]))
            } else {
                (
                    "upgrade_and_migrate",
                    "upgrade",
                    Box::new(move |_| {
                        let md: SVec<Val> = args![&me; Data { num1: data.num1, num2: data.num2 }, u.clone()];
                        vec![v(&me, t.clone()), v(&me, u.clone()), v(&me, h.clone()), v(&me, md)]
                    }),
                )
            };
            let mut sc = scn(&up, func, other_fn, false, Who::Plain(owner), Who::Plain(outsider.clone()), mk, obs);
            sc.other_priv = plains(&[&other]);
            sc.pool = vec![outsider, other, tgt];
            Ok(sc)
        }
    }
}

// ---------------------------------------------------------------- ownable

fn build_ownable(e: &Env, k: &GCase) -> Result<Scn, Violation> {
    let (owner0, other, outsider) = (envx::actor(e), envx::actor(e), envx::actor(e));
    let c = e.register(examples::ownable::contract::ExampleContract, (owner0.clone(),));
    for _ in 0..pick(k.a, 3) {
        su(e, &c, "increment", args![e])?;
    }
    let mut owner = owner0.clone();
    let mut exh = None;
    if wants_rotation(k) {
        owner = rotate_owner(e, &c)?;
        exh = Some(Who::Plain(owner0));
    }
    let (oe, oc) = (e.clone(), c.clone());
    let obs = Box::new(move || {
        let e = &oe;
        let n: Option<i32> = e.as_contract(&oc, || e.storage().instance().get(&examples::ownable::contract::DataKey::Counter));
        vec![format!("{n:?}")]
    });
    let mut sc = scn(&c, "increment", "transfer_ownership", false, Who::Plain(owner), Who::Plain(outsider.clone()), Box::new(|_| vec![]), obs);
    sc.other_priv = plains(&[&other]);
    sc.ex_holder = exh;
    sc.pool = vec![outsider, other];
    Ok(sc)
}

// ---------------------------------------------------------------- nft-access-control

fn build_nac(e: &Env, k: &GCase) -> Result<Scn, Violation> {
    let (admin0, minter0, burner0, holder, to, outsider) = (envx::actor(e), envx::actor(e), envx::actor(e), envx::actor(e), envx::actor(e), envx::actor(e));
    let c = e.register(examples::nft_access_control::contract::ExampleContract, (s(e, "uri"), s(e, "N"), s(e, "N"), admin0.clone()));
    su(e, &c, "grant_role", args![e; minter0.clone(), sym(e, "minter"), admin0.clone()])?;
    su(e, &c, "grant_role", args![e; burner0.clone(), sym(e, "burner"), admin0.clone()])?;
    let (mut admin, mut minter, mut burner) = (admin0.clone(), minter0.clone(), burner0.clone());
    let by_minter = k.ep == Ep::NacMint || (matches!(k.ep, Ep::NacMultiRole | Ep::NacMultiRoleAuth) && k.c & 1 == 0);
    let by_admin = k.ep == Ep::NacAdminFn;
    let mut exh = None;
    if wants_rotation(k) {
        if by_admin {
            admin = rotate_admin(e, &c)?;
            exh = Some(Who::Plain(admin0.clone()));
        } else if by_minter {
            minter = rotate_role(e, &c, "minter", &admin, &minter0)?;
            exh = Some(Who::Plain(minter0.clone()));
        } else {
            burner = rotate_role(e, &c, "burner", &admin, &burner0)?;
            exh = Some(Who::Plain(burner0.clone()));
        }
    }
    let tid: u32 = 1 + pick(k.a, 1000) as u32;
    match k.ep {
        Ep::NacBurn => {
            // the burner owns the token it burns
            su(e, &c, "mint", args![e; burner.clone(), tid, minter.clone()])?;
        }
        Ep::NacBurnFrom => {
            su(e, &c, "mint", args![e; holder.clone(), tid, minter.clone()])?;
            su(e, &c, "approve", args![e; holder.clone(), burner.clone(), tid, envx::seq(e) + 100])?;
        }
        _ => {}
    }
    let (oe, oc, oto) = (e.clone(), c.clone(), to.clone());
    let obs = Box::new(move || {
        let e = &oe;
        vec![gv(e, &oc, "owner_of", args![e; tid]), gv(e, &oc, "balance", args![e; oto.clone()])]
    });
    let me = e.clone();
    let (func, other_fn, names, principal, mk): (&'static str, &'static str, bool, Address, Box<dyn Fn(&Address) -> Vec<Val>>) = match k.ep {
        Ep::NacAdminFn => ("admin_restricted_function", "mint", false, admin.clone(), Box::new(|_| vec![])),
        Ep::NacMint => {
            let t = to.clone();
            ("mint", "burn", true, minter.clone(), Box::new(move |p| vec![v(&me, t.clone()), v(&me, tid), v(&me, p.clone())]))
        }
        Ep::NacMultiRole => {
            ("multi_role_action", "multi_role_auth_action", true, if by_minter { minter.clone() } else { burner.clone() }, Box::new(move |p| vec![v(&me, p.clone())]))
        }
        Ep::NacMultiRoleAuth => {
            ("multi_role_auth_action", "multi_role_action", true, if by_minter { minter.clone() } else { burner.clone() }, Box::new(move |p| vec![v(&me, p.clone())]))
        }
        Ep::NacBurn => ("burn", "burn_from", true, burner.clone(), Box::new(move |p| vec![v(&me, p.clone()), v(&me, tid)])),
        _ => {
            let h = holder.clone();
            ("burn_from", "burn", true, burner.clone(), Box::new(move |p| vec![v(&me, p.clone()), v(&me, h.clone()), v(&me, tid)]))
        }
    };
    let mut sc = scn(&c, func, other_fn, names, Who::Plain(principal), Who::Plain(outsider.clone()), mk, obs);
    sc.other_priv = match k.ep {
        Ep::NacAdminFn => plains(&[&minter, &burner]),
        Ep::NacMint => plains(&[&admin, &burner]),
        Ep::NacMultiRole | Ep::NacMultiRoleAuth => plains(&[&admin, &holder]),
        // the owner of the token who approved the burner is not a burner
        _ => plains(&[&admin, &minter, &holder]),
    };
    sc.ex_holder = exh;
    sc.pool = vec![outsider, to, holder];
    Ok(sc)
}

// ---------------------------------------------------------------- timelock-controller (external admin)

fn build_tl(e: &Env, k: &GCase) -> Result<Scn, Violation> {
    use examples::timelock_controller::contract::TimelockController;
    let (admin0, prop0, exec0, outsider) = (envx::actor(e), envx::actor(e), envx::actor(e), envx::actor(e));
    let min_delay: u32 = 3 + pick(k.c, 20) as u32;
    let mut ps = SVec::new(e);
    ps.push_back(prop0.clone());
    let mut xs = SVec::new(e);
    xs.push_back(exec0.clone());
    let c = e.register(TimelockController, (min_delay, ps, xs, Some(admin0.clone())));
    let target = e.register(Target, ());
    let (mut admin, mut proposer, mut canceller, mut executor) = (admin0.clone(), prop0.clone(), prop0.clone(), exec0.clone());
    let mut exh = None;
    if wants_rotation(k) {
        match k.ep {
            Ep::TlSchedule => {
                proposer = rotate_role(e, &c, "proposer", &admin, &prop0)?;
                exh = Some(Who::Plain(prop0.clone()));
            }
            Ep::TlCancel => {
                canceller = rotate_role(e, &c, "canceller", &admin, &prop0)?;
                exh = Some(Who::Plain(prop0.clone()));
            }
            Ep::TlExecute => {
                executor = rotate_role(e, &c, "executor", &admin, &exec0)?;
                exh = Some(Who::Plain(exec0.clone()));
            }
            _ => {
                admin = rotate_admin(e, &c)?;
                exh = Some(Who::Plain(admin0.clone()));
            }
        }
    }
    let targs: SVec<Val> = args![e; k.a as i128, k.b as u32];
    let zero = BytesN::from_array(e, &[0u8; 32]);
    let salt = b32(e, 7, k.a);
    let delay = min_delay + pick(k.b, 5) as u32;
    let id: BytesN<32> = {
        let r = su(e, &c, "hash_operation", args![e; target.clone(), sym(e, "ping"), targs.clone(), zero.clone(), salt.clone()])?;
        BytesN::try_from_val(e, &r).map_err(|_| harness_err("hash_operation result"))?
    };
    if matches!(k.ep, Ep::TlCancel | Ep::TlExecute) {
        // whoever holds the proposer role right now schedules (set-up)
        let sched_by = if k.ep == Ep::TlCancel { prop0.clone() } else { proposer.clone() };
        // after a canceller rotation prop0 still is a proposer (only its canceller role moved)
        su(e, &c, "schedule_op", args![e; target.clone(), sym(e, "ping"), targs.clone(), zero.clone(), salt.clone(), delay, sched_by])?;
        if k.ep == Ep::TlExecute {
            envx::advance(e, delay);
        }
    }
    let (oe, oc, og, oid) = (e.clone(), c.clone(), target.clone(), id.clone());
    let obs = Box::new(move || {
        let e = &oe;
        vec![gv(e, &oc, "get_operation_state", args![e; oid.clone()]), gv(e, &oc, "get_min_delay", args![e]), gv(e, &og, "log", args![e])]
    });
    let me = e.clone();
    let (func, other_fn, names, principal, mk): (&'static str, &'static str, bool, Address, Box<dyn Fn(&Address) -> Vec<Val>>) = match k.ep {
        Ep::TlSchedule => {
            let (t, ta, z, sa) = (target.clone(), targs.clone(), zero.clone(), salt.clone());
            (
                "schedule_op",
                "cancel_op",
                true,
                proposer.clone(),
                Box::new(move |p| vec![v(&me, t.clone()), v(&me, sym(&me, "ping")), v(&me, ta.clone()), v(&me, z.clone()), v(&me, sa.clone()), v(&me, delay), v(&me, p.clone())]),
            )
        }
        Ep::TlCancel => {
            let i = id.clone();
            ("cancel_op", "schedule_op", true, canceller.clone(), Box::new(move |p| vec![v(&me, i.clone()), v(&me, p.clone())]))
        }
        Ep::TlExecute => {
            let (t, ta, z, sa) = (target.clone(), targs.clone(), zero.clone(), salt.clone());
            (
                "execute_op",
                "cancel_op",
                true,
                executor.clone(),
                Box::new(move |p| vec![v(&me, t.clone()), v(&me, sym(&me, "ping")), v(&me, ta.clone()), v(&me, z.clone()), v(&me, sa.clone()), v(&me, Some(p.clone()))]),
            )
        }
        _ => {
            let nd: u32 = min_delay + 1 + pick(k.a, 50) as u32;
            ("update_delay", "schedule_op", false, admin.clone(), Box::new(move |_| vec![v(&me, nd)]))
        }
    };
    let mut sc = scn(&c, func, other_fn, names, Who::Plain(principal), Who::Plain(outsider.clone()), mk, obs);
    sc.other_priv = match k.ep {
        Ep::TlSchedule | Ep::TlCancel => plains(&[&admin, &executor]),
        Ep::TlExecute => plains(&[&admin, &proposer]),
        _ => plains(&[&proposer, &executor]),
    };
    sc.ex_holder = exh;
    sc.pool = vec![outsider, target];
    Ok(sc)
}

// ---------------------------------------------------------------- multisig smart account
//
// Every administrative entry point requires the account's own authorization, which its `__check_auth`
// grants to the signers of a matching context rule.  Rule 0 (Default) has one delegated signer: the
// principal.  Rule 1 is bound to calls of ANOTHER contract and has its own signer, who therefore holds a
// "different privilege": it cannot authorize calls of the account itself.

fn build_ms(e: &Env, k: &GCase) -> Result<Scn, Violation> {
    use examples::multisig_account::contract::MultisigContract;
    let (d0, d2, d3, outsider) = (envx::actor(e), envx::actor(e), envx::actor(e), envx::actor(e));
    let target = e.register(Target, ());
    let other_contract = e.register(Target, ());
    let policy = e.register(MockPolicy, ());
    let sigv = |a: &Address| {
        let mut sv: SVec<Signer> = SVec::new(e);
        sv.push_back(Signer::Delegated(a.clone()));
        sv
    };
    let nopol = || -> Map<Address, Val> { Map::new(e) };
    let acct = e.register(MultisigContract, (sigv(&d0), nopol()));
    su(e, &acct, "add_context_rule", args![e; ContextRuleType::CallContract(target.clone()), s(e, "target-only"), Option::<u32>::None, sigv(&d3), nopol()])?;
    let mut d = d0.clone();
    let mut exh = None;
    if wants_rotation(k) {
        let n = envx::actor(e);
        su(e, &acct, "add_signer", args![e; 0u32, Signer::Delegated(n.clone())])?;
        su(e, &acct, "remove_signer", args![e; 0u32, Signer::Delegated(d0.clone())])?;
        exh = Some(Who::Deleg { account: acct.clone(), signer: d0.clone() });
        d = n;
    }
    let unit: Val = ().into_val(e);
    match k.ep {
        Ep::MsRemoveSigner => {
            su(e, &acct, "add_signer", args![e; 1u32, Signer::Delegated(d2.clone())])?;
        }
        Ep::MsRemovePolicy => {
            su(e, &acct, "add_policy", args![e; 1u32, policy.clone(), unit])?;
        }
        _ => {}
    }
    let (oe, oc, og) = (e.clone(), acct.clone(), target.clone());
    let obs = Box::new(move || {
        let e = &oe;
        vec![
            gv(e, &oc, "get_context_rules_count", args![e]),
            gv(e, &oc, "get_context_rule", args![e; 0u32]),
            gv(e, &oc, "get_context_rule", args![e; 1u32]),
            gv(e, &oc, "get_context_rule", args![e; 2u32]),
            gv(e, &og, "log", args![e]),
        ]
    });
    let me = e.clone();
    let (func, other_fn, mk): (&'static str, &'static str, Box<dyn Fn(&Address) -> Vec<Val>>) = match k.ep {
        Ep::MsAddRule => {
            let (oc2, dd) = (other_contract.clone(), d2.clone());
            (
                "add_context_rule",
                "remove_context_rule",
                Box::new(move |_| {
                    let mut sv: SVec<Signer> = SVec::new(&me);
                    sv.push_back(Signer::Delegated(dd.clone()));
                    let m: Map<Address, Val> = Map::new(&me);
                    vec![v(&me, ContextRuleType::CallContract(oc2.clone())), v(&me, s(&me, "new")), v(&me, Option::<u32>::None), v(&me, sv), v(&me, m)]
                }),
            )
        }
        Ep::MsRename => ("update_context_rule_name", "remove_context_rule", Box::new(move |_| vec![v(&me, 1u32), v(&me, s(&me, "renamed"))])),
        Ep::MsValidUntil => {
            let until = envx::seq(e) + 1 + pick(k.a, 500) as u32;
            ("update_context_rule_valid_until", "remove_context_rule", Box::new(move |_| vec![v(&me, 1u32), v(&me, Some(until))]))
        }
        Ep::MsRemoveRule => ("remove_context_rule", "update_context_rule_name", Box::new(move |_| vec![v(&me, 1u32)])),
        Ep::MsAddSigner => {
            let dd = d2.clone();
            ("add_signer", "remove_signer", Box::new(move |_| vec![v(&me, 1u32), v(&me, Signer::Delegated(dd.clone()))]))
        }
        Ep::MsRemoveSigner => {
            let dd = d2.clone();
            ("remove_signer", "add_signer", Box::new(move |_| vec![v(&me, 1u32), v(&me, Signer::Delegated(dd.clone()))]))
        }
        Ep::MsAddPolicy => {
            let p = policy.clone();
            ("add_policy", "remove_policy", Box::new(move |_| vec![v(&me, 1u32), v(&me, p.clone()), unit]))
        }
        Ep::MsRemovePolicy => {
            let p = policy.clone();
            ("remove_policy", "add_policy", Box::new(move |_| vec![v(&me, 1u32), v(&me, p.clone())]))
        }
        Ep::MsExecute => {
            let t = target.clone();
            let ta: SVec<Val> = args![e; k.a as i128, k.b as u32];
            ("execute", "upgrade", Box::new(move |_| vec![v(&me, t.clone()), v(&me, sym(&me, "ping")), v(&me, ta.clone())]))
        }
        _ => {
            let hash: BytesN<32> = e.deployer().upload_contract_wasm(V2_WASM);
            let op = outsider.clone();
            ("upgrade", "execute", Box::new(move |_| vec![v(&me, hash.clone()), v(&me, op.clone())]))
        }
    };
    let dl = |a: &Address| Who::Deleg { account: acct.clone(), signer: a.clone() };
    let mut sc = scn(&acct, func, other_fn, false, dl(&d), dl(&outsider), mk, obs);
    // the signer of the rule bound to another contract; a plain entry of somebody who is no signer at all
    sc.other_priv = vec![dl(&d3), Who::Plain(d3.clone()), Who::Plain(outsider.clone())];
    sc.ex_holder = exh;
    sc.pool = vec![outsider, d2, other_contract];
    Ok(sc)
}

fn build(e: &Env, k: &GCase) -> Result<Scn, Violation> {
    // set-up calls only: mocked authorization, switched off by the caller before the audited call
    e.mock_all_auths();
    match k.ep {
        Ep::FfForward | Ep::FfEnable | Ep::FfDisable | Ep::FfSweep => build_ff(e, k),
        Ep::RoyMint | Ep::RoyMintWithRoyalty | Ep::RoySetDefault | Ep::RoySetToken | Ep::RoyRemoveToken => build_roy(e, k),
        Ep::SawSetAdmin | Ep::SawSetAuthorized | Ep::SawMint | Ep::SawClawback => build_saw(e, k),
        Ep::SagSacMint
        | Ep::SagSacClawback
        | Ep::SagSacSetAuthorized
        | Ep::SagSacSetAdmin
        | Ep::SagAssignOperator
        | Ep::SagRemoveOperator
        | Ep::SagSetMintingLimit
        | Ep::SagUpdateMintingLimit => build_sag(e, k),
        Ep::VotesMint | Ep::SeqMint | Ep::EnumMint | Ep::ConsBatchMint | Ep::FpMint => build_owner_mints(e, k),
        Ep::FpPause | Ep::FpUnpause | Ep::PausPause | Ep::PausUnpause => build_pause(e, k),
        Ep::AlAllow | Ep::AlDisallow | Ep::BlBlock | Ep::BlUnblock => build_lists(e, k),
        Ep::UpV1Upgrade | Ep::UpV2Upgrade | Ep::UpV2Migrate | Ep::UpgraderUpgrade | Ep::UpgraderUpgradeAndMigrate => build_upg(e, k),
        Ep::OwnIncrement => build_ownable(e, k),
        Ep::NacAdminFn | Ep::NacMint | Ep::NacMultiRole | Ep::NacMultiRoleAuth | Ep::NacBurn | Ep::NacBurnFrom => build_nac(e, k),
        Ep::TlSchedule | Ep::TlCancel | Ep::TlExecute | Ep::TlUpdateDelay => build_tl(e, k),
        _ => build_ms(e, k),
    }
}

// ------------------------------------------------------------------ tampering one argument of a signed invocation

fn tamper_val(e: &Env, x: &Val, pool: &[Address]) -> Option<Val> {
    if let Ok(a) = Address::try_from_val(e, x) {
        return pool.iter().find(|p| **p != a).map(|o| o.clone().into_val(e));
    }
    if let Ok(b) = bool::try_from_val(e, x) {
        return Some((!b).into_val(e));
    }
    if let Ok(n) = u32::try_from_val(e, x) {
        return Some(n.wrapping_add(1).into_val(e));
    }
    if let Ok(n) = i128::try_from_val(e, x) {
        return Some(n.wrapping_add(1).into_val(e));
    }
    if let Ok(sy) = Symbol::try_from_val(e, x) {
        let z = Symbol::new(e, "zz");
        return Some(if sy == z { Symbol::new(e, "zy").into_val(e) } else { z.into_val(e) });
    }
    if let Ok(b) = BytesN::<32>::try_from_val(e, x) {
        let mut a = b.to_array();
        a[31] ^= 1;
        return Some(BytesN::from_array(e, &a).into_val(e));
    }
    None
}

/// one argument changed (the first tamperable one at or after the selected position); a function without a
/// tamperable argument gets a surplus argument instead
fn tamper(e: &Env, args: &[Val], sel: u16, pool: &[Address]) -> Vec<Val> {
    let mut out = args.to_vec();
    let n = args.len();
    let start = pick(sel, n);
    for d in 0..n {
        let i = if start + d < n { start + d } else { start + d - n };
        if let Some(t) = tamper_val(e, &args[i], pool) {
            out[i] = t;
            return out;
        }
    }
    out.push(1u32.into_val(e));
    out
}

// ------------------------------------------------------------------ interpreter

fn invoke(e: &Env, sc: &Scn, args: &[Val], entries: &[SorobanAuthorizationEntry]) -> Result<Val, String> {
    let mut a = SVec::new(e);
    for x in args {
        a.push_back(*x);
    }
    envx::set_entries(e, entries);
    let r = call(e, &sc.c, sc.func, a);
    envx::no_auth(e);
    r
}

fn extra_entries(e: &Env, sc: &Scn) -> Vec<SorobanAuthorizationEntry> {
    sc.extra.iter().map(|(a, i)| envx::entry(e, a, i)).collect()
}

pub fn run(case: &GCase, ctx: &mut Ctx) -> R {
    let Some((_, ex, f, _)) = EPS.iter().find(|t| t.0 == case.ep) else { bail!("C06/example-guards/harness", "entry point not in the table") };
    let name = format!("{ex}.{f}");
    let e = envx::new_env(case.seq, envx::BIG_TTL);
    let e = &e;
    let sc = build(e, case)?;
    envx::no_auth(e);

    let p_addr = who_addr(&sc.principal);
    let mkinv = |func: &str, args: &[Val]| Inv { contract: sc.c.clone(), func: func.to_string(), args: args.to_vec(), subs: vec![] };

    // ---- the stranger of this case
    let (stranger, skind): (Who, &str) = match case.stranger {
        StrangerKind::ExHolder if sc.ex_holder.is_some() => (sc.ex_holder.clone().unwrap_or(sc.outsider.clone()), "ex-holder"),
        StrangerKind::OtherPrivileged if !sc.other_priv.is_empty() => (sc.other_priv[pick(case.b, sc.other_priv.len())].clone(), "other-privileged"),
        _ => (sc.outsider.clone(), "outsider"),
    };

    // ---- the audited call under a defective authorization
    if case.variant != Variant::Exact {
        let args: Vec<Val> = match case.variant {
            Variant::StrangerAsPrincipal if sc.names_principal => (sc.mk)(&who_addr(&stranger)),
            _ => (sc.mk)(&p_addr),
        };
        let mut entries = extra_entries(e, &sc);
        match case.variant {
            Variant::NoEntries => {}
            Variant::StrangerSigns => entries.extend(entries_for(e, &stranger, &mkinv(sc.func, &args))?),
            Variant::StrangerAsPrincipal => {
                // a function that names nobody: the stranger "is" the caller by signing as a plain address
                let who = if sc.names_principal { stranger.clone() } else { Who::Plain(who_addr(&stranger)) };
                entries.extend(entries_for(e, &who, &mkinv(sc.func, &args))?)
            }
            Variant::PrincipalTampered => entries.extend(entries_for(e, &sc.principal, &mkinv(sc.func, &tamper(e, &args, case.c, &sc.pool)))?),
            Variant::PrincipalOtherFn => entries.extend(entries_for(e, &sc.principal, &mkinv(sc.other_fn, &args))?),
            Variant::Exact => {}
        }
        let before = (sc.obs)();
        let r = invoke(e, &sc, &args, &entries);
        ctx.op(r.is_ok());
        ensure!(
            r.is_err(),
            format!("C06/example-guards/{name}/ran-without-principal-auth"),
            "{name} executed under authorization variant {} (stranger: {skind}, privilege changed hands before: {}); only the exact entry of the rightful principal may pass. guard: {}",
            case.variant.name(),
            sc.ex_holder.is_some(),
            EPS.iter().find(|t| t.0 == case.ep).map(|t| t.3).unwrap_or("")
        );
        let after = (sc.obs)();
        ensure!(
            before == after,
            format!("C06/example-guards/{name}/refused-but-state-changed"),
            "{name} refused under variant {}, yet the observed state changed: {:?} -> {:?}",
            case.variant.name(),
            before,
            after
        );
        ctx.class(&format!("eg:{name}:{}", case.variant.name()));
        ctx.class(&format!("eg_variant:{}", case.variant.name()));
        if case.variant == Variant::StrangerSigns || case.variant == Variant::StrangerAsPrincipal {
            ctx.class(&format!("eg_stranger:{skind}"));
        }
    }

    // ---- the same scenario under the exact entry of the rightful principal
    let args = (sc.mk)(&p_addr);
    let mut entries = extra_entries(e, &sc);
    entries.extend(entries_for(e, &sc.principal, &mkinv(sc.func, &args))?);
    let before = (sc.obs)();
    let r = invoke(e, &sc, &args, &entries);
    ctx.op(r.is_ok());
    let after = (sc.obs)();
    if sc.live {
        ensure!(
            r.is_ok(),
            format!("C06/example-guards/{name}/exact-entry-refused"),
            "{name} refused although the rightful principal attached the exact entry and the scenario's preconditions hold (privilege changed hands before: {}): {:?}",
            sc.ex_holder.is_some(),
            r
        );
        ctx.class(&format!("eg_exact_ok:{name}"));
        ctx.class("eg_exact_ok");
        if before != after {
            ctx.class("eg_effect_observed");
        } else {
            ctx.class(&format!("eg_no_effect_observed:{name}"));
        }
        if sc.ex_holder.is_some() {
            ctx.class("eg_privilege_changed_hands");
        }
    } else if r.is_ok() {
        ctx.class(&format!("eg_exact_ok:{name}"));
    } else {
        ensure!(before == after, format!("C06/example-guards/{name}/refused-but-state-changed"), "{name} refused under the exact entry, yet the observed state changed");
        ctx.class("eg_exact_refused");
    }
    if case.variant == Variant::Exact {
        ctx.class(&format!("eg:{name}:exact"));
        ctx.class("eg_variant:exact");
        // the guard is still there after the privileged effect: the same call without any entry
        let before = (sc.obs)();
        let r2 = invoke(e, &sc, &args, &extra_entries(e, &sc));
        ctx.op(r2.is_ok());
        ensure!(r2.is_err(), format!("C06/example-guards/{name}/ran-without-principal-auth"), "{name} executed without any entry of the principal right after an authorized call");
        let after = (sc.obs)();
        ensure!(before == after, format!("C06/example-guards/{name}/refused-but-state-changed"), "{name} refused without entries, yet the observed state changed");
    } else if sc.live {
        // non-trivial: a defective authorization refused AND the exact one accepted on the same scenario
        ctx.nontrivial = true;
        ctx.class("eg_nontrivial");
    }
    Ok(())
}

// ------------------------------------------------------------------ floors

/// Entry points of sac-admin-generic that no authorization can open on the pinned tree (see `build_sag`): audited for
/// safety only.
pub fn never_authorizable(ep: Ep) -> bool {
    matches!(ep, Ep::SagSacMint | Ep::SagSacClawback | Ep::SagAssignOperator | Ep::SagRemoveOperator | Ep::SagSetMintingLimit | Ep::SagUpdateMintingLimit)
}

/// sentence for `Property.rule`
pub const RULE: &str = "example-guards: case = (guarded entry point of an example contract x authorization variant, enumerated uniformly; stranger kind outsider / \
                        holder of a different privilege / former holder; privilege rotated through the public entry points or not; random amounts, ids, ledger); the scenario makes \
                        the call succeed if the guard were absent; non-trivial = the call refused under a defective authorization AND accepted under the exact entry of the rightful \
                        principal on the same scenario";

/// One floor per (entry point, variant) cell, one per entry point for the liveness class, and the aggregate classes.
/// Measured over seeds 0..3 (quick, 10 800 cases): cells 10..47, exact_ok per entry point 140..210.
pub fn floors() -> Vec<(&'static str, u64, u64)> {
    static F: OnceLock<Vec<(&'static str, u64, u64)>> = OnceLock::new();
    F.get_or_init(|| {
        let leak = |s: String| -> &'static str { Box::leak(s.into_boxed_str()) };
        let mut out = vec![
            ("eg_nontrivial", 700, 6000),
            ("eg_exact_ok", 900, 8000),
            ("eg_privilege_changed_hands", 300, 2500),
            ("eg_stranger:ex-holder", 50, 450),
            ("eg_stranger:other-privileged", 100, 900),
            ("eg_stranger:outsider", 120, 1000),
        ];
        for (ep, ex, f, _) in EPS {
            for va in VARIANTS {
                out.push((leak(format!("eg:{ex}.{f}:{}", va.name())), 1, 15));
            }
            if !never_authorizable(*ep) {
                out.push((leak(format!("eg_exact_ok:{ex}.{f}")), 12, 110));
            }
        }
        out
    })
    .clone()
}

//! C10 — Every NFT has exactly one owner; enumerations mirror ownership.
//!
//! Oracle: a plain `BTreeMap<id, owner>` plus the set of ever-issued ids.  After EVERY step
//! `owner_of(id)` (library getter of the right flavour, bulk-read inside contract frames of
//! FRAME_CHUNK ids, every getter call individually guarded) equals the map for every existing id,
//! fails (entry point `try` call) for burned ids, for the margin beyond the id counter and for
//! sampled unissued ids; `balance(a)` equals the number of a's tokens; only the touched token
//! changed; sequential/batch ids strictly increase and are never reused; `token_uri` exists
//! exactly for existing ids; the enumerable lists hold each existing token exactly once (order is
//! never asserted).
//!
//! Scan policy (cost: the test host charges O(#keys already read) for the first read of a key):
//! full scan after every step while <= 700 (thorough 1500) tokens exist; beyond that windows
//! (+-40 around the recently touched ids, batch edges, bucket edges, narrow windows around older
//! touched ids, ids spread over the range) after every step and EVERYTHING at the end of the
//! history.  Full scans of > 1200 ids are sharded over fresh Envs in which the logged successful
//! calls are re-run (deterministic host).  Thorough: the `giant` sub scans everything after every
//! step, bucket-sized histories after every 4th step.
//!
//! The first half of this file is the NFT driver shared with C11 (`pub` items).

use crate::engine::*;
use crate::envx::{self, Inv};
use crate::gen::pick;
use proptest::prelude::*;
use serde::{Deserialize, Serialize};
use soroban_sdk::{Address, Env, IntoVal, String as SString, TryFromVal, Val, Vec as SVec};
use std::collections::{BTreeMap, BTreeSet};
use std::panic::{catch_unwind, AssertUnwindSafe};
use stellar_tokens::non_fungible::{consecutive::Consecutive, enumerable::Enumerable, Base};

// ======================================================================== shared NFT driver

/// Documented constants of the consecutive extension (module docs: 100 items x 32 ids per
/// bucket, at most 32 000 tokens per batch).  Hard-coded on purpose: they are the oracle.
pub const BUCKET: u32 = 3_200;
pub const MAX_BATCH: u32 = 32_000;
/// explicit-id mints use ids from here upwards (disjoint from the sequential range, DESIGN §7)
pub const HIGH_BASE: u32 = 1 << 20;
/// ids read per `as_contract` frame.  DESIGN allows up to 4000, but the recording footprint of the
/// test host is rebuilt on every first access of a key inside a frame (O(keys in frame) each), so a
/// frame's cost is quadratic in its size: 64 ids per frame is ~8x cheaper than 4000.
pub const FRAME_CHUNK: usize = 64;

#[derive(Clone, Copy, Debug, Serialize, Deserialize, PartialEq, Eq, PartialOrd, Ord)]
pub enum Kind {
    Base,
    Enum,
    Cons,
}

#[derive(Clone, Copy, Debug, Serialize, Deserialize, PartialEq, Eq, PartialOrd, Ord)]
pub enum Target {
    /// examples/nft-sequential-minting
    ExBase,
    /// harness twin: sequential + explicit-id `Base::mint`
    XBase,
    /// examples/nft-enumerable
    ExEnum,
    /// harness twin: `Enumerable::sequential_mint` + `non_sequential_mint`
    XEnum,
    /// examples/nft-consecutive
    ExCons,
    /// harness twin with trait defaults
    XCons,
}
impl Target {
    pub fn kind(self) -> Kind {
        match self {
            Target::ExBase | Target::XBase => Kind::Base,
            Target::ExEnum | Target::XEnum => Kind::Enum,
            Target::ExCons | Target::XCons => Kind::Cons,
        }
    }
    pub fn explicit(self) -> bool {
        matches!(self, Target::XBase | Target::XEnum)
    }
    pub fn is_example(self) -> bool {
        matches!(self, Target::ExBase | Target::ExEnum | Target::ExCons)
    }
    pub fn kname(self) -> &'static str {
        match self.kind() {
            Kind::Base => "base",
            Kind::Enum => "enum",
            Kind::Cons => "cons",
        }
    }
}

pub struct Nft {
    pub e: Env,
    pub addr: Address,
    pub target: Target,
    /// mint authority (the examples' `owner`)
    pub admin: Address,
    pub accts: Vec<Address>,
}

fn s(e: &Env, x: &str) -> SString {
    SString::from_str(e, x)
}

pub fn svec(e: &Env, args: &[Val]) -> SVec<Val> {
    let mut v = SVec::new(e);
    for a in args {
        v.push_back(*a);
    }
    v
}

/// Observed enumerable lists (`None` = the getter failed for an index below the count).
#[derive(Clone, Debug, PartialEq, Eq)]
pub struct EnumDump {
    pub total: u32,
    pub global: Vec<Option<u32>>,
    pub per_owner: Vec<Vec<Option<u32>>>,
}

impl Nft {
    pub fn setup(target: Target, n_accts: usize, seq: u32, max_ttl: u32) -> Nft {
        use crate::contracts::c10::*;
        use crate::examples as ex;
        let e = envx::new_env(seq, max_ttl);
        // soroban-sdk 25 enforces the mainnet per-invocation resource limits in tests by default; the
        // bulk-read frames (thousands of getter calls) and 32 000-token batches are far beyond them and
        // resource limits are not what C10/C11 are about.
        e.cost_estimate().disable_resource_limits();
        let admin = envx::actor(&e);
        let accts = envx::actors(&e, n_accts);
        let ctor = (s(&e, "https://nft.example/t/"), s(&e, "Verif NFT"), s(&e, "VNFT"), admin.clone());
        let addr = match target {
            Target::ExBase => e.register(ex::nft_sequential_minting::contract::ExampleContract, ctor),
            Target::XBase => e.register(nft_base_x::NftBaseX, ctor),
            Target::ExEnum => e.register(ex::nft_enumerable::contract::ExampleContract, ctor),
            Target::XEnum => e.register(nft_enum_x::NftEnumX, ctor),
            Target::ExCons => e.register(ex::nft_consecutive::contract::ExampleContract, ctor),
            Target::XCons => e.register(nft_cons_x::NftConsX, ctor),
        };
        envx::no_auth(&e);
        Nft { e, addr, target, admin, accts }
    }

    pub fn inv(&self, func: &str, args: &[Val]) -> Inv {
        Inv { contract: self.addr.clone(), func: func.to_string(), args: args.to_vec(), subs: vec![] }
    }

    /// Invoke with exactly the given authorization entries attached.
    pub fn invoke_with(&self, func: &str, args: &[Val], entries: &[(Address, Inv)]) -> Result<Val, String> {
        let e = &self.e;
        let refs: Vec<(&Address, &Inv)> = entries.iter().map(|(a, i)| (a, i)).collect();
        envx::set_auth(e, &refs);
        let r = envx::call(e, &self.addr, func, svec(e, args));
        envx::no_auth(e);
        r
    }
    /// Invoke with the exact authorization of `signer` (or none).
    pub fn invoke(&self, func: &str, args: &[Val], signer: Option<&Address>) -> Result<Val, String> {
        match signer {
            Some(a) => self.invoke_with(func, args, &[(a.clone(), self.inv(func, args))]),
            None => self.invoke_with(func, args, &[]),
        }
    }
    /// Read-only entry-point call (no authorization attached).
    pub fn get<T: TryFromVal<Env, Val>>(&self, func: &str, args: &[Val]) -> Result<T, String> {
        envx::call_t::<T>(&self.e, &self.addr, func, svec(&self.e, args))
    }

    pub fn v<T: IntoVal<Env, Val>>(&self, x: &T) -> Val {
        x.into_val(&self.e)
    }

    // ---- mint entry points (admin's exact authorization)
    pub fn mint_seq(&self, to: &Address) -> Result<u32, String> {
        let args = [self.v(to)];
        let r = self.invoke("mint", &args, Some(&self.admin))?;
        u32::try_from_val(&self.e, &r).map_err(|_| "mint: unexpected return type".to_string())
    }
    pub fn mint_id(&self, to: &Address, id: u32) -> Result<(), String> {
        let args = [self.v(to), self.v(&id)];
        self.invoke("mint_id", &args, Some(&self.admin)).map(|_| ())
    }
    pub fn batch_mint(&self, to: &Address, n: u32) -> Result<u32, String> {
        let args = [self.v(to), self.v(&n)];
        let r = self.invoke("batch_mint", &args, Some(&self.admin))?;
        u32::try_from_val(&self.e, &r).map_err(|_| "batch_mint: unexpected return type".to_string())
    }

    // ---- entry-point getters
    pub fn api_owner_of(&self, id: u32) -> Result<Address, String> {
        self.get::<Address>("owner_of", &[self.v(&id)])
    }
    pub fn api_balance(&self, a: &Address) -> Result<u32, String> {
        self.get::<u32>("balance", &[self.v(a)])
    }
    pub fn api_token_uri(&self, id: u32) -> Result<SString, String> {
        self.get::<SString>("token_uri", &[self.v(&id)])
    }
    pub fn api_get_approved(&self, id: u32) -> Result<Option<Address>, String> {
        self.get::<Option<Address>>("get_approved", &[self.v(&id)])
    }
    pub fn api_is_approved_for_all(&self, o: &Address, op: &Address) -> Result<bool, String> {
        self.get::<bool>("is_approved_for_all", &[self.v(o), self.v(op)])
    }

    pub fn acct_index(&self, a: &Address) -> Option<usize> {
        self.accts.iter().position(|x| x == a)
    }

    // ---- bulk reads through the library getters inside ONE contract frame per chunk.
    // Each getter call is individually guarded, so a failing id is reported as `None`
    // and the frame stays intact.

    /// `owner_of` of the right flavour for every id, FRAME_CHUNK ids per contract frame.
    pub fn read_owners(&self, ids: &[u32]) -> Vec<Option<Address>> {
        let e = &self.e;
        let kind = self.target.kind();
        let mut out = Vec::with_capacity(ids.len());
        for chunk in ids.chunks(FRAME_CHUNK) {
            let part: Vec<Option<Address>> = e.as_contract(&self.addr, || {
                chunk
                    .iter()
                    .map(|id| {
                        catch_unwind(AssertUnwindSafe(|| match kind {
                            Kind::Cons => Consecutive::owner_of(e, *id),
                            _ => Base::owner_of(e, *id),
                        }))
                        .ok()
                    })
                    .collect()
            });
            out.extend(part);
        }
        out
    }
    /// does `token_uri` (right flavour) succeed for each id
    pub fn read_uri_exists(&self, ids: &[u32]) -> Vec<bool> {
        let e = &self.e;
        let kind = self.target.kind();
        let mut out = Vec::with_capacity(ids.len());
        for chunk in ids.chunks(FRAME_CHUNK) {
            let part: Vec<bool> = e.as_contract(&self.addr, || {
                chunk
                    .iter()
                    .map(|id| {
                        catch_unwind(AssertUnwindSafe(|| match kind {
                            Kind::Cons => Consecutive::token_uri(e, *id),
                            _ => Base::token_uri(e, *id),
                        }))
                        .is_ok()
                    })
                    .collect()
            });
            out.extend(part);
        }
        out
    }
    pub fn read_balances(&self) -> Vec<u32> {
        let e = &self.e;
        e.as_contract(&self.addr, || self.accts.iter().map(|a| Base::balance(e, a)).collect())
    }
    /// (get_approved per id, is_approved_for_all matrix [owner][operator]) — these getters cannot fail
    pub fn read_approvals(&self, ids: &[u32]) -> (Vec<Option<Address>>, Vec<Vec<bool>>) {
        let e = &self.e;
        e.as_contract(&self.addr, || {
            let ap = ids.iter().map(|id| Base::get_approved(e, *id)).collect();
            let ops = self
                .accts
                .iter()
                .map(|o| self.accts.iter().map(|op| Base::is_approved_for_all(e, o, op)).collect())
                .collect();
            (ap, ops)
        })
    }
    /// enumerable lists: `n_global` global indices and `counts[a]` indices per account
    pub fn read_enum(&self, n_global: u32, counts: &[u32]) -> EnumDump {
        let e = &self.e;
        let total = e.as_contract(&self.addr, || Enumerable::total_supply(e));
        let mut global = Vec::with_capacity(n_global as usize);
        let idx: Vec<u32> = (0..n_global).collect();
        for chunk in idx.chunks(FRAME_CHUNK) {
            let part: Vec<Option<u32>> = e.as_contract(&self.addr, || {
                chunk.iter().map(|i| catch_unwind(AssertUnwindSafe(|| Enumerable::get_token_id(e, *i))).ok()).collect()
            });
            global.extend(part);
        }
        let per_owner = e.as_contract(&self.addr, || {
            self.accts
                .iter()
                .zip(counts)
                .map(|(a, n)| (0..*n).map(|i| catch_unwind(AssertUnwindSafe(|| Enumerable::get_owner_token_id(e, a, i))).ok()).collect())
                .collect()
        });
        EnumDump { total, global, per_owner }
    }
}

// ======================================================================== C10 case

pub const N_ACCTS: usize = 4;

#[derive(Clone, Debug, Serialize, Deserialize)]
pub enum TokSel {
    /// i-th existing token (model order)
    Existing(u16),
    /// edge of the i-th batch: 0 first, 1 last, 2 first+1, 3 last-1
    BatchEdge(u16, u8),
    /// BUCKET * k + d  (k-th bucket boundary, selector over the issued range)
    BucketEdge(u16, i8),
    /// i-th burned id
    Burned(u16),
    /// unissued: next sequential id + d
    Fresh(u8),
    /// neighbour (+d) of the i-th most recently touched id
    Near(u16, i8),
}

#[derive(Clone, Debug, Serialize, Deserialize)]
pub enum FromSel {
    Owner,
    /// some account, possibly not the owner (then the call must fail)
    Acct(u16),
}

#[derive(Clone, Debug, Serialize, Deserialize)]
pub enum SpSel {
    Owner,
    /// an operator the owner approved for all (falls back to Acct)
    Operator(u16),
    /// the account approved for this token (falls back to Acct)
    Approved,
    Acct(u16),
}

#[derive(Clone, Debug, Serialize, Deserialize)]
pub enum IdSel {
    /// HIGH_BASE + k
    High(u8),
    /// u32::MAX - k
    Top(u8),
    /// 2^31 - 2 + k
    Mid(u8),
    /// a burned explicit id (re-mint of an id that is not in use)
    ReBurned(u16),
}

#[derive(Clone, Debug, Serialize, Deserialize)]
pub enum Op {
    Mint { to: u16 },
    MintId { to: u16, id: IdSel },
    Batch { to: u16, size: u32 },
    Transfer { tok: TokSel, from: FromSel, to: u16 },
    TransferFrom { tok: TokSel, spender: SpSel, from: FromSel, to: u16 },
    Burn { tok: TokSel, from: FromSel },
    BurnFrom { tok: TokSel, spender: SpSel, from: FromSel },
    Approve { tok: TokSel, approved: u16 },
    ApproveAll { owner: u16, operator: u16 },
}

#[derive(Clone, Debug, Serialize, Deserialize)]
pub struct Case {
    pub target: Target,
    pub seq: u32,
    pub ops: Vec<Op>,
}

fn tok_strategy(kind: Kind) -> BoxedStrategy<TokSel> {
    let d = prop_oneof![Just(-1i8), Just(0i8), Just(1i8)];
    let near = (any::<u16>(), prop_oneof![3 => Just(-1i8), 3 => Just(1i8), 1 => Just(-2i8), 1 => Just(2i8), 1 => Just(0i8)])
        .prop_map(|(i, d)| TokSel::Near(i, d));
    match kind {
        Kind::Cons => prop_oneof![
            3 => any::<u16>().prop_map(TokSel::Existing),
            4 => (any::<u16>(), 0u8..4).prop_map(|(b, w)| TokSel::BatchEdge(b, w)),
            3 => (any::<u16>(), d).prop_map(|(k, d)| TokSel::BucketEdge(k, d)),
            5 => near,
            1 => any::<u16>().prop_map(TokSel::Burned),
            1 => (0u8..4).prop_map(TokSel::Fresh),
        ]
        .boxed(),
        _ => prop_oneof![
            8 => any::<u16>().prop_map(TokSel::Existing),
            2 => near,
            1 => any::<u16>().prop_map(TokSel::Burned),
            1 => (0u8..4).prop_map(TokSel::Fresh),
        ]
        .boxed(),
    }
}

fn from_strategy() -> BoxedStrategy<FromSel> {
    prop_oneof![9 => Just(FromSel::Owner), 1 => any::<u16>().prop_map(FromSel::Acct)].boxed()
}
fn sp_strategy() -> BoxedStrategy<SpSel> {
    prop_oneof![
        3 => Just(SpSel::Owner),
        3 => any::<u16>().prop_map(SpSel::Operator),
        3 => Just(SpSel::Approved),
        1 => any::<u16>().prop_map(SpSel::Acct),
    ]
    .boxed()
}
fn idsel_strategy() -> BoxedStrategy<IdSel> {
    prop_oneof![
        6 => (0u8..24).prop_map(IdSel::High),
        2 => (0u8..3).prop_map(IdSel::Top),
        1 => (0u8..4).prop_map(IdSel::Mid),
        2 => any::<u16>().prop_map(IdSel::ReBurned),
    ]
    .boxed()
}

/// first batch of an ordinary consecutive history
fn size_first() -> BoxedStrategy<u32> {
    prop_oneof![
        10 => proptest::sample::select(vec![1u32, 2, 31, 32, 33, 99, 100]),
        2 => 3u32..70,
        4 => proptest::sample::select(vec![BUCKET - 1, BUCKET, BUCKET + 1, BUCKET - 2, BUCKET - 33]),
        1 => proptest::sample::select(vec![2 * BUCKET, 2 * BUCKET - 1]),
        1 => proptest::sample::select(vec![0u32, MAX_BATCH + 1]),
    ]
    .boxed()
}
/// later batches: mostly small (a small batch after a 3199-batch crosses the bucket edge)
fn size_later() -> BoxedStrategy<u32> {
    prop_oneof![
        24 => proptest::sample::select(vec![1u32, 2, 31, 32, 33, 99, 100]),
        6 => 3u32..70,
        1 => proptest::sample::select(vec![BUCKET - 1, BUCKET, BUCKET + 1]),
        2 => proptest::sample::select(vec![0u32, MAX_BATCH + 1, u32::MAX]),
    ]
    .boxed()
}

fn op_strategy(target: Target) -> BoxedStrategy<Op> {
    let kind = target.kind();
    let tok = tok_strategy(kind);
    let (w_mint, w_id, w_batch) = match (kind, target.explicit()) {
        (Kind::Cons, _) => (0, 0, 3),
        (_, true) => (4, 4, 0),
        (_, false) => (7, 0, 0),
    };
    prop_oneof![
        w_mint => any::<u16>().prop_map(|to| Op::Mint { to }),
        w_id => (any::<u16>(), idsel_strategy()).prop_map(|(to, id)| Op::MintId { to, id }),
        w_batch => (any::<u16>(), size_later()).prop_map(|(to, size)| Op::Batch { to, size }),
        6 => (tok.clone(), from_strategy(), any::<u16>()).prop_map(|(tok, from, to)| Op::Transfer { tok, from, to }),
        3 => (tok.clone(), sp_strategy(), from_strategy(), any::<u16>())
            .prop_map(|(tok, spender, from, to)| Op::TransferFrom { tok, spender, from, to }),
        4 => (tok.clone(), from_strategy()).prop_map(|(tok, from)| Op::Burn { tok, from }),
        2 => (tok.clone(), sp_strategy(), from_strategy()).prop_map(|(tok, spender, from)| Op::BurnFrom { tok, spender, from }),
        1 => (tok.clone(), any::<u16>()).prop_map(|(tok, approved)| Op::Approve { tok, approved }),
        1 => (any::<u16>(), any::<u16>()).prop_map(|(owner, operator)| Op::ApproveAll { owner, operator }),
    ]
    .boxed()
}

fn targets(kind: Kind) -> BoxedStrategy<Target> {
    match kind {
        // explicit-id minting exists only on the twins: half of the cases
        Kind::Base => prop_oneof![Just(Target::ExBase), Just(Target::XBase)].boxed(),
        Kind::Enum => prop_oneof![Just(Target::ExEnum), Just(Target::XEnum)].boxed(),
        // a third on the twin (DESIGN §4 C10)
        Kind::Cons => prop_oneof![2 => Just(Target::ExCons), 1 => Just(Target::XCons)].boxed(),
    }
}

fn strategy_kind(kind: Kind, tier: Tier) -> BoxedStrategy<Case> {
    let max_ops = tier.pick(40usize, if kind == Kind::Cons { 60usize } else { 80 });
    (targets(kind), 100u32..5000)
        .prop_flat_map(move |(target, seq)| {
            let first: BoxedStrategy<Vec<Op>> = match kind {
                // start every consecutive history with a batch so that there is something to move
                Kind::Cons => (any::<u16>(), size_first()).prop_map(|(to, size)| vec![Op::Batch { to, size }]).boxed(),
                _ => Just(vec![]).boxed(),
            };
            (first, proptest::collection::vec(op_strategy(target), 0..max_ops)).prop_map(move |(mut f, ops)| {
                f.extend(ops);
                Case { target, seq, ops: f }
            })
        })
        .boxed()
}

/// few, expensive cases: 0..2 small/bucket-sized batches, then one batch of (almost) the maximum
/// size, then a short tail of transfers/burns/small batches at the edges
fn strategy_giant(tier: Tier) -> BoxedStrategy<Case> {
    let tail = tier.pick(9usize, 13usize);
    (
        targets(Kind::Cons),
        100u32..5000,
        proptest::collection::vec((any::<u16>(), proptest::sample::select(vec![1u32, 31, 100, BUCKET - 1, BUCKET + 1])), 0..2),
        any::<u16>(),
        proptest::sample::select(vec![MAX_BATCH, MAX_BATCH - 1, MAX_BATCH, 9 * BUCKET + 1]),
    )
        .prop_flat_map(move |(target, seq, pre, to, giant)| {
            proptest::collection::vec(op_strategy(target), 3..tail).prop_map(move |ops| {
                let mut all: Vec<Op> = pre.iter().map(|(to, size)| Op::Batch { to: *to, size: *size }).collect();
                all.push(Op::Batch { to, size: giant });
                for o in &ops {
                    // keep later batches of a giant history small (cost), but keep the refused sizes
                    all.push(match o {
                        Op::Batch { to, size } if *size > 100 && *size <= MAX_BATCH => Op::Batch { to: *to, size: 1 + *size % 100 },
                        other => other.clone(),
                    });
                }
                Case { target, seq, ops: all }
            })
        })
        .boxed()
}

// ======================================================================== model

#[derive(Default)]
struct Model {
    owner: BTreeMap<u32, usize>,
    count: Vec<u32>,
    /// ids burned and not re-minted
    burned: BTreeSet<u32>,
    /// every id ever handed out by explicit mints
    explicit_issued: BTreeSet<u32>,
    /// sequential batches (first, last); single sequential mints are batches of one
    batches: Vec<(u32, u32)>,
    /// one past the last sequentially issued id
    next_id: u32,
    approved: BTreeMap<u32, usize>,
    operators: BTreeSet<(usize, usize)>,
    touched: Vec<u32>,
}

impl Model {
    fn exists(&self, id: u32) -> bool {
        self.owner.contains_key(&id)
    }
    fn touch(&mut self, id: u32) {
        if self.touched.last() != Some(&id) {
            self.touched.push(id);
        }
    }
    fn resolve_tok(&self, sel: &TokSel) -> u32 {
        match sel {
            TokSel::Existing(i) => {
                if self.owner.is_empty() {
                    self.next_id
                } else {
                    *self.owner.keys().nth(pick(*i, self.owner.len())).unwrap()
                }
            }
            TokSel::BatchEdge(b, w) => {
                if self.batches.is_empty() {
                    return self.resolve_tok(&TokSel::Existing(*b));
                }
                let (f, l) = self.batches[pick(*b, self.batches.len())];
                match w {
                    0 => f,
                    1 => l,
                    2 => (f + 1).min(l),
                    _ => l.saturating_sub(1).max(f),
                }
            }
            TokSel::BucketEdge(k, d) => {
                let nb = (self.next_id / BUCKET) as usize; // boundaries BUCKET*1 ..= BUCKET*nb lie in the issued range
                if nb == 0 {
                    return self.resolve_tok(&TokSel::Existing(*k));
                }
                let k = 1 + pick(*k, nb) as u32;
                (k * BUCKET).saturating_add_signed(*d as i32)
            }
            TokSel::Burned(i) => {
                if self.burned.is_empty() {
                    self.next_id.saturating_add(7)
                } else {
                    *self.burned.iter().nth(pick(*i, self.burned.len())).unwrap()
                }
            }
            TokSel::Fresh(d) => self.next_id.saturating_add(*d as u32),
            TokSel::Near(i, d) => {
                if self.touched.is_empty() {
                    return self.resolve_tok(&TokSel::Existing(*i));
                }
                let n = self.touched.len();
                // bias towards the most recent ones
                let id = self.touched[n - 1 - pick(*i, n.min(6))];
                id.saturating_add_signed(*d as i32)
            }
        }
    }
}

fn explicit_id(m: &Model, sel: &IdSel) -> u32 {
    match sel {
        IdSel::High(k) => HIGH_BASE + *k as u32,
        IdSel::Top(k) => u32::MAX - *k as u32,
        IdSel::Mid(k) => (1u32 << 31) - 2 + *k as u32,
        IdSel::ReBurned(i) => {
            let b: Vec<u32> = m.burned.iter().copied().filter(|x| *x >= HIGH_BASE).collect();
            if b.is_empty() {
                HIGH_BASE + 100 + (*i as u32 & 7)
            } else {
                b[pick(*i, b.len())]
            }
        }
    }
}

// ======================================================================== oracle

fn sig(op: &str, clause: &str, t: Target) -> String {
    format!("C10/{op}/{clause}/{}", t.kname())
}

/// A fully resolved state-changing call (plain data, account indices) — executed against the
/// contract and, when it succeeded, logged so that the history can be re-run in a fresh Env.
#[derive(Clone, Debug)]
enum Rec {
    Mint { to: usize },
    MintId { to: usize, id: u32 },
    Batch { to: usize, size: u32 },
    Transfer { from: usize, to: usize, id: u32 },
    TransferFrom { sp: usize, from: usize, to: usize, id: u32 },
    Burn { from: usize, id: u32 },
    BurnFrom { sp: usize, from: usize, id: u32 },
    Approve { owner: usize, approved: usize, id: u32 },
    ApproveAll { owner: usize, operator: usize },
}

/// approvals in C10 never expire (the ledger does not move)
const FAR: u32 = 100_000;

fn exec_rec(t: &Nft, r: &Rec, seq0: u32) -> Result<Val, String> {
    let a = |i: &usize| t.v(&t.accts[*i]);
    match r {
        Rec::Mint { to } => t.invoke("mint", &[a(to)], Some(&t.admin)),
        Rec::MintId { to, id } => t.invoke("mint_id", &[a(to), t.v(id)], Some(&t.admin)),
        Rec::Batch { to, size } => t.invoke("batch_mint", &[a(to), t.v(size)], Some(&t.admin)),
        Rec::Transfer { from, to, id } => t.invoke("transfer", &[a(from), a(to), t.v(id)], Some(&t.accts[*from])),
        Rec::TransferFrom { sp, from, to, id } => t.invoke("transfer_from", &[a(sp), a(from), a(to), t.v(id)], Some(&t.accts[*sp])),
        Rec::Burn { from, id } => t.invoke("burn", &[a(from), t.v(id)], Some(&t.accts[*from])),
        Rec::BurnFrom { sp, from, id } => t.invoke("burn_from", &[a(sp), a(from), t.v(id)], Some(&t.accts[*sp])),
        Rec::Approve { owner, approved, id } => {
            t.invoke("approve", &[a(owner), a(approved), t.v(id), t.v(&(seq0 + FAR))], Some(&t.accts[*owner]))
        }
        Rec::ApproveAll { owner, operator } => t.invoke("approve_for_all", &[a(owner), a(operator), t.v(&(seq0 + FAR))], Some(&t.accts[*owner])),
    }
}

/// quick tier: full scan after every step while at most this many tokens exist, windows beyond
const FULL_LIMIT_QUICK: usize = 700;
/// thorough tier: one bucket and a bit
const FULL_LIMIT_THOROUGH: usize = 1500;
/// A full scan of more than this many tokens is sharded over fresh Envs (history re-run per shard):
/// the test host's storage map costs O(#keys ever read in the Env) for the first read of each key,
/// so reading N distinct ids in one Env costs N^2/2 key comparisons.
const SHARD_ABOVE: usize = 1200;
const SHARD: usize = 500;

/// ids to scan in window mode (sorted, all existing per model)
fn window_ids(m: &Model, thorough: bool) -> Vec<u32> {
    let mut set: BTreeSet<u32> = BTreeSet::new();
    let mut around = |c: u32, r: u32| {
        let lo = c.saturating_sub(r);
        let hi = c.saturating_add(r);
        for (id, _) in m.owner.range(lo..=hi) {
            set.insert(*id);
        }
    };
    // +-40 around every touched id, every batch edge and every bucket edge (quick: the 4 most
    // recently touched ids / 3 newest batches get +-40, older ones a narrow window)
    let n = m.touched.len();
    for (i, t) in m.touched.iter().enumerate() {
        around(*t, if thorough || i + 4 >= n { 40 } else { 3 });
    }
    let nb = m.batches.len();
    for (i, (f, l)) in m.batches.iter().enumerate() {
        let r = if thorough || i + 3 >= nb { 40 } else { 3 };
        around(*f, r);
        around(*l, r);
    }
    let mut k = 1;
    while k * BUCKET <= m.next_id.saturating_add(BUCKET) {
        around(k * BUCKET, 40);
        k += 1;
    }
    // ids spread over the issued range (fixed positions: the host makes first reads expensive)
    if m.next_id > 0 {
        let span = m.next_id as u64;
        let n_spread = if thorough { 500u64 } else { 100 };
        for j in 0..n_spread {
            let id = (j * span) / n_spread + (j * 37) % (span / n_spread + 1);
            if id < span && m.exists(id as u32) {
                set.insert(id as u32);
            }
        }
    }
    for (id, _) in m.owner.range(HIGH_BASE..) {
        set.insert(*id);
    }
    set.into_iter().collect()
}

struct Checker {
    /// owners observed by the previous scan (id -> account index), to tell "changed" from "wrong"
    prev: BTreeMap<u32, usize>,
}

impl Checker {
    /// Compare `owner_of` for `ids` (all existing per model) with the model.
    fn check_owners(&mut self, t: &Nft, m: &Model, ids: &[u32], op: &str, touched: Option<u32>, what: &str) -> R {
        let got = t.read_owners(ids);
        for (id, g) in ids.iter().zip(got.iter()) {
            let want = m.owner[id];
            let ok = matches!(g, Some(a) if *a == t.accts[want]);
            if !ok {
                let shown = match g {
                    None => "no owner (getter failed)".to_string(),
                    Some(a) => match t.acct_index(a) {
                        Some(i) => format!("account #{i}"),
                        None => "an unknown address".to_string(),
                    },
                };
                let clause = if Some(*id) == touched {
                    "touched-token-wrong-owner"
                } else if self.prev.get(id) == Some(&want) {
                    "other-token-changed-owner"
                } else if g.is_none() {
                    "existing-token-without-owner"
                } else {
                    "wrong-owner"
                };
                bail!(sig(op, clause, t.target), "{what}: owner_of({id}) reports {shown}, the ownership map says account #{want}");
            }
        }
        for id in ids {
            self.prev.insert(*id, m.owner[id]);
        }
        Ok(())
    }
}

fn check_balances(t: &Nft, m: &Model, op: &str, what: &str) -> R {
    let b = t.read_balances();
    for (i, (got, want)) in b.iter().zip(m.count.iter()).enumerate() {
        ensure!(got == want, sig(op, "balance-ne-owned-count", t.target), "{what}: balance(account #{i}) = {got}, but it owns {want} tokens");
    }
    Ok(())
}

/// ids that must NOT exist: entry-point `owner_of` (and `token_uri` for `uri_too`) must fail
fn check_absent(t: &Nft, m: &Model, ids: &[u32], uri_too: &[u32], op: &str, what: &str, ctx: &mut Ctx) -> R {
    for id in ids {
        if m.exists(*id) {
            continue;
        }
        ctx.class("absent_probe");
        let r = t.api_owner_of(*id);
        let cl = if m.burned.contains(id) { "burned-token-has-owner" } else { "unissued-token-has-owner" };
        ensure!(r.is_err(), sig(op, cl, t.target), "{what}: owner_of({id}) succeeded for an id that does not exist");
        if uri_too.contains(id) {
            let u = t.api_token_uri(*id);
            ensure!(u.is_err(), sig(op, "token_uri-for-nonexistent", t.target), "{what}: token_uri({id}) succeeded for an id that does not exist");
        }
    }
    Ok(())
}

fn check_uris(t: &Nft, ids: &[u32], op: &str, what: &str) -> R {
    let got = t.read_uri_exists(ids);
    for (id, ok) in ids.iter().zip(got) {
        ensure!(ok, sig(op, "token_uri-missing-for-existing", t.target), "{what}: token_uri({id}) failed for an existing token");
    }
    Ok(())
}

/// enumerable lists == model (as sets), no duplicates, index == count fails
fn check_enum(t: &Nft, m: &Model, op: &str, what: &str, probe_accts: &[usize]) -> Result<EnumDump, Violation> {
    let d = t.read_enum(m.owner.len() as u32, &m.count);
    ensure!(
        d.total as usize == m.owner.len(),
        sig(op, "total_supply-ne-existing", t.target),
        "{what}: total_supply() = {}, existing tokens = {}",
        d.total,
        m.owner.len()
    );
    let mut seen = BTreeSet::new();
    for (i, x) in d.global.iter().enumerate() {
        let Some(id) = x else { bail!(sig(op, "global-index-gap", t.target), "{what}: get_token_id({i}) failed below total_supply {}", d.total) };
        ensure!(m.exists(*id), sig(op, "global-list-nonexistent-token", t.target), "{what}: get_token_id({i}) = {id}, which does not exist");
        ensure!(seen.insert(*id), sig(op, "global-list-duplicate", t.target), "{what}: token {id} appears twice in the global list");
    }
    ensure!(seen.len() == m.owner.len(), sig(op, "global-list-incomplete", t.target), "{what}: global list has {} distinct tokens of {}", seen.len(), m.owner.len());
    for (a, list) in d.per_owner.iter().enumerate() {
        let mut seen = BTreeSet::new();
        for (i, x) in list.iter().enumerate() {
            let Some(id) = x else {
                bail!(sig(op, "owner-index-gap", t.target), "{what}: get_owner_token_id(#{a}, {i}) failed below balance {}", m.count[a])
            };
            ensure!(
                m.owner.get(id) == Some(&a),
                sig(op, "owner-list-foreign-token", t.target),
                "{what}: get_owner_token_id(#{a}, {i}) = {id}, owned by {:?}",
                m.owner.get(id)
            );
            ensure!(seen.insert(*id), sig(op, "owner-list-duplicate", t.target), "{what}: token {id} appears twice in the list of #{a}");
        }
        ensure!(seen.len() as u32 == m.count[a], sig(op, "owner-list-incomplete", t.target), "{what}: list of #{a} has {} tokens of {}", seen.len(), m.count[a]);
    }
    // index == count must fail (entry points)
    let n = m.owner.len() as u32;
    let r = t.get::<u32>("get_token_id", &[t.v(&n)]);
    ensure!(r.is_err(), sig(op, "global-index-past-end-readable", t.target), "{what}: get_token_id({n}) succeeded with total_supply {n}");
    for a in probe_accts {
        let c = m.count[*a];
        let r = t.get::<u32>("get_owner_token_id", &[t.v(&t.accts[*a]), t.v(&c)]);
        ensure!(r.is_err(), sig(op, "owner-index-past-end-readable", t.target), "{what}: get_owner_token_id(#{a}, {c}) succeeded with balance {c}");
    }
    // entry point agrees with the bulk read
    let ts = t.get::<u32>("total_supply", &[]).map_err(|er| violation(sig(op, "total_supply-failed", t.target), er))?;
    ensure!(ts == d.total, sig(op, "total_supply-entry-point-differs", t.target), "{what}: entry point {ts}, library getter {}", d.total);
    Ok(d)
}

/// Full scan of a large id space, sharded over fresh Envs in which the logged history is re-run
/// (deterministic host: identical state), so that no Env reads more than SHARD distinct ids.
#[allow(clippy::too_many_arguments)]
fn sharded_full_scan(case: &Case, log: &[Rec], m: &Model, ck: &mut Checker, op: &str, touched: Option<u32>, what: &str, uris: bool) -> R {
    let ids: Vec<u32> = m.owner.keys().copied().collect();
    for shard in ids.chunks(SHARD) {
        let t2 = Nft::setup(case.target, N_ACCTS, case.seq, envx::BIG_TTL);
        for r in log {
            if let Err(er) = exec_rec(&t2, r, case.seq) {
                bail!(sig("replay", "history-not-reproducible", case.target), "{what}: re-running {:?} in a fresh Env failed: {er}", r)
            }
        }
        ck.check_owners(&t2, m, shard, op, touched, what)?;
        if uris {
            check_uris(&t2, shard, op, what)?;
        }
    }
    Ok(())
}

#[derive(PartialEq, Clone, Copy)]
enum Eff {
    None,
    Mint,
    Move,
    Burn,
}

pub fn run(case: &Case, ctx: &mut Ctx) -> R {
    let target = case.target;
    let kind = target.kind();
    let thorough = ctx.tier() == Tier::Thorough;
    let t = Nft::setup(target, N_ACCTS, case.seq, envx::BIG_TTL);
    let mut m = Model { count: vec![0; N_ACCTS], ..Default::default() };
    let mut ck = Checker { prev: BTreeMap::new() };
    let full_limit = if thorough { FULL_LIMIT_THOROUGH } else { FULL_LIMIT_QUICK };
    let mut log: Vec<Rec> = vec![];

    // non-triviality bookkeeping
    let mut crossing_batch = false;
    let mut cons_moves: BTreeSet<u32> = BTreeSet::new();
    let mut cons_edge_move = false;
    let mut enum_nonlast_removal = false;
    let mut base_burned = false;
    let mut base_mint_after_burn = false;
    let mut last_enum: Option<EnumDump> = None;
    let mut windowed = false;

    let n_ops = case.ops.len();
    let giant_case = case.ops.iter().any(|o| matches!(o, Op::Batch { size, .. } if *size > 3 * BUCKET && *size <= MAX_BATCH));
    for (step, op) in case.ops.iter().enumerate() {
        let what_op: String = format!("step {step} {:?}", op);
        let mut touched: Option<u32> = None;
        let mut eff = Eff::None;
        let mut probe: Vec<u32> = vec![];
        let mut parties: Vec<usize> = vec![];
        let opname: &'static str;
        match op {
            Op::Mint { to } => {
                opname = "mint";
                if kind == Kind::Cons {
                    ctx.class("skipped_op");
                    continue;
                }
                let ti = pick(*to, N_ACCTS);
                let rec = Rec::Mint { to: ti };
                let r = exec_rec(&t, &rec, case.seq).and_then(|v| u32::try_from_val(&t.e, &v).map_err(|_| "unexpected return type".to_string()));
                ctx.op(r.is_ok());
                // documented: sequential mint by the admin succeeds
                let id = match r {
                    Ok(id) => id,
                    Err(er) => bail!(sig(opname, "refused", target), "{what_op}: sequential mint failed: {er}"),
                };
                log.push(rec);
                ensure!(
                    id >= m.next_id,
                    sig(opname, "sequential-id-not-increasing", target),
                    "{what_op}: returned id {id}, but ids below {} were already issued",
                    m.next_id
                );
                ensure!(!m.exists(id) && !m.burned.contains(&id), sig(opname, "id-reused", target), "{what_op}: id {id} was issued before");
                if !m.burned.is_empty() {
                    ctx.class("mint_after_burn");
                    if base_burned {
                        base_mint_after_burn = true;
                    }
                }
                m.owner.insert(id, ti);
                m.count[ti] += 1;
                m.batches.push((id, id));
                m.next_id = id + 1;
                m.touch(id);
                touched = Some(id);
                eff = Eff::Mint;
                parties.push(ti);
            }
            Op::MintId { to, id } => {
                opname = "mint_id";
                if !target.explicit() {
                    ctx.class("skipped_op");
                    continue;
                }
                let ti = pick(*to, N_ACCTS);
                let id = explicit_id(&m, id);
                if m.exists(id) {
                    // uniqueness is the caller's duty (Base::mint docs): never mint an id in use
                    ctx.class("explicit_id_in_use_skipped");
                    continue;
                }
                if m.burned.contains(&id) {
                    ctx.class("explicit_remint_of_burned");
                }
                let rec = Rec::MintId { to: ti, id };
                let r = exec_rec(&t, &rec, case.seq);
                ctx.op(r.is_ok());
                if let Err(er) = r {
                    bail!(sig(opname, "refused", target), "{what_op}: explicit mint of unused id {id} failed: {er}")
                }
                log.push(rec);
                ctx.class("explicit_mint");
                m.owner.insert(id, ti);
                m.count[ti] += 1;
                m.burned.remove(&id);
                m.explicit_issued.insert(id);
                m.touch(id);
                touched = Some(id);
                eff = Eff::Mint;
                parties.push(ti);
                if base_burned {
                    base_mint_after_burn = true;
                }
            }
            Op::Batch { to, size } => {
                opname = "batch_mint";
                if kind != Kind::Cons {
                    ctx.class("skipped_op");
                    continue;
                }
                let ti = pick(*to, N_ACCTS);
                let rec = Rec::Batch { to: ti, size: *size };
                let r = exec_rec(&t, &rec, case.seq).and_then(|v| u32::try_from_val(&t.e, &v).map_err(|_| "unexpected return type".to_string()));
                ctx.op(r.is_ok());
                if *size == 0 || *size > MAX_BATCH {
                    // documented: InvalidAmount
                    ctx.class("batch_invalid_size");
                    ensure!(r.is_err(), sig(opname, "invalid-amount-accepted", target), "{what_op}: batch of {size} tokens was accepted");
                } else {
                    let last = match r {
                        Ok(x) => x,
                        Err(er) => bail!(sig(opname, "refused", target), "{what_op}: batch of {size} failed: {er}"),
                    };
                    log.push(rec);
                    ensure!(
                        last >= m.next_id && last - m.next_id >= size - 1,
                        sig(opname, "batch-ids-not-increasing", target),
                        "{what_op}: returned last id {last} for {size} tokens, but ids below {} were already issued",
                        m.next_id
                    );
                    let first = last - (size - 1);
                    ctx.class(match *size {
                        1..=100 => "batch_small",
                        101..=7000 => "batch_bucket_sized",
                        _ => "batch_giant",
                    });
                    if *size == MAX_BATCH {
                        ctx.class("batch_max_size");
                    }
                    if first / BUCKET != last / BUCKET {
                        ctx.class("batch_crossing_bucket");
                        crossing_batch = true;
                    }
                    for id in first..=last {
                        m.owner.insert(id, ti);
                    }
                    m.count[ti] += size;
                    m.batches.push((first, last));
                    m.next_id = last + 1;
                    m.touch(first);
                    m.touch(last);
                    touched = Some(last);
                    eff = Eff::Mint;
                    parties.push(ti);
                }
            }
            Op::Transfer { tok, from, to } | Op::TransferFrom { tok, from, to, .. } => {
                let id = m.resolve_tok(tok);
                let owner = m.owner.get(&id).copied();
                let fi = match (from, owner) {
                    (FromSel::Owner, Some(o)) => o,
                    (FromSel::Owner, None) => 0,
                    (FromSel::Acct(a), _) => pick(*a, N_ACCTS),
                };
                let ti = pick(*to, N_ACCTS);
                let (rec, allowed);
                if let Op::TransferFrom { spender, .. } = op {
                    opname = "transfer_from";
                    let si = resolve_spender(&m, spender, id, owner);
                    allowed = owner == Some(fi) && spender_allowed(&m, si, fi, id);
                    rec = Rec::TransferFrom { sp: si, from: fi, to: ti, id };
                    if si != fi {
                        ctx.class("spender_not_owner");
                    }
                } else {
                    opname = "transfer";
                    allowed = owner == Some(fi);
                    rec = Rec::Transfer { from: fi, to: ti, id };
                }
                let r = exec_rec(&t, &rec, case.seq);
                ctx.op(r.is_ok());
                probe.push(id);
                match (&r, allowed) {
                    (Ok(_), false) => bail!(
                        sig(opname, "moved-without-ownership", target),
                        "{what_op}: token {id} (owner {:?}) was transferred from account #{fi}",
                        owner
                    ),
                    (Err(er), true) => bail!(sig(opname, "refused", target), "{what_op}: rightful transfer of token {id} failed: {er}"),
                    (Err(_), false) => {
                        ctx.class(if owner.is_none() { "op_on_nonexistent" } else { "op_wrong_from_or_spender" });
                    }
                    (Ok(_), true) => {
                        log.push(rec);
                        if fi == ti {
                            ctx.class("self_transfer");
                        }
                        if kind == Kind::Enum && fi != ti {
                            if let Some(d) = &last_enum {
                                if d.per_owner[fi].last() != Some(&Some(id)) {
                                    enum_nonlast_removal = true;
                                    ctx.class("enum_nonlast_owner_removal");
                                }
                            }
                        }
                        m.owner.insert(id, ti);
                        m.count[fi] -= 1;
                        m.count[ti] += 1;
                        m.approved.remove(&id);
                        m.touch(id);
                        touched = Some(id);
                        eff = Eff::Move;
                        parties.push(fi);
                        parties.push(ti);
                    }
                }
            }
            Op::Burn { tok, from } | Op::BurnFrom { tok, from, .. } => {
                let id = m.resolve_tok(tok);
                let owner = m.owner.get(&id).copied();
                let fi = match (from, owner) {
                    (FromSel::Owner, Some(o)) => o,
                    (FromSel::Owner, None) => 0,
                    (FromSel::Acct(a), _) => pick(*a, N_ACCTS),
                };
                let (rec, allowed);
                if let Op::BurnFrom { spender, .. } = op {
                    opname = "burn_from";
                    let si = resolve_spender(&m, spender, id, owner);
                    allowed = owner == Some(fi) && spender_allowed(&m, si, fi, id);
                    rec = Rec::BurnFrom { sp: si, from: fi, id };
                    if si != fi {
                        ctx.class("spender_not_owner");
                    }
                } else {
                    opname = "burn";
                    allowed = owner == Some(fi);
                    rec = Rec::Burn { from: fi, id };
                }
                let r = exec_rec(&t, &rec, case.seq);
                ctx.op(r.is_ok());
                probe.push(id);
                match (&r, allowed) {
                    (Ok(_), false) => bail!(
                        sig(opname, "burned-without-ownership", target),
                        "{what_op}: token {id} (owner {:?}) was burned from account #{fi}",
                        owner
                    ),
                    (Err(er), true) => bail!(sig(opname, "refused", target), "{what_op}: rightful burn of token {id} failed: {er}"),
                    (Err(_), false) => {
                        ctx.class(if owner.is_none() { "op_on_nonexistent" } else { "op_wrong_from_or_spender" });
                    }
                    (Ok(_), true) => {
                        log.push(rec);
                        if kind == Kind::Enum {
                            if let Some(d) = &last_enum {
                                if d.per_owner[fi].last() != Some(&Some(id)) {
                                    enum_nonlast_removal = true;
                                    ctx.class("enum_nonlast_owner_removal");
                                }
                                if d.global.last() != Some(&Some(id)) {
                                    enum_nonlast_removal = true;
                                    ctx.class("enum_nonlast_global_removal");
                                }
                            }
                        }
                        m.owner.remove(&id);
                        m.count[fi] -= 1;
                        m.approved.remove(&id);
                        m.burned.insert(id);
                        ck.prev.remove(&id);
                        m.touch(id);
                        touched = Some(id);
                        eff = Eff::Burn;
                        parties.push(fi);
                        base_burned = true;
                        ctx.class("burn_ok");
                    }
                }
            }
            Op::Approve { tok, approved } => {
                opname = "approve";
                let id = m.resolve_tok(tok);
                let Some(o) = m.owner.get(&id).copied() else {
                    ctx.class("skipped_op");
                    continue;
                };
                let ai = pick(*approved, N_ACCTS);
                let rec = Rec::Approve { owner: o, approved: ai, id };
                let r = exec_rec(&t, &rec, case.seq);
                ctx.op(r.is_ok());
                if let Err(er) = r {
                    bail!(sig(opname, "refused", target), "{what_op}: owner's approve of token {id} failed: {er}")
                }
                log.push(rec);
                m.approved.insert(id, ai);
            }
            Op::ApproveAll { owner, operator } => {
                opname = "approve_for_all";
                let o = pick(*owner, N_ACCTS);
                let p = pick(*operator, N_ACCTS);
                let rec = Rec::ApproveAll { owner: o, operator: p };
                let r = exec_rec(&t, &rec, case.seq);
                ctx.op(r.is_ok());
                if let Err(er) = r {
                    bail!(sig(opname, "refused", target), "{what_op}: approve_for_all failed: {er}")
                }
                log.push(rec);
                m.operators.insert((o, p));
            }
        }

        if kind == Kind::Cons && matches!(eff, Eff::Move | Eff::Burn) && crossing_batch {
            let id = touched.unwrap();
            cons_moves.insert(id);
            let bucket_edge = id % BUCKET == 0 || id % BUCKET == BUCKET - 1;
            let batch_edge = m.batches.iter().any(|(f, l)| *f == id || *l == id);
            if bucket_edge {
                ctx.class("cons_move_at_bucket_edge");
            }
            if batch_edge {
                ctx.class("cons_move_at_batch_edge");
            }
            if bucket_edge || batch_edge {
                cons_edge_move = true;
            }
        }

        // ------------------------------------------------ state oracle after the step
        let last_step = step + 1 == n_ops;
        let full = m.owner.len() <= full_limit;
        if full {
            let ids: Vec<u32> = m.owner.keys().copied().collect();
            ctx.class_n("owner_reads", ids.len() as u64);
            ck.check_owners(&t, &m, &ids, opname, touched, &what_op)?;
        } else if thorough && (giant_case || step % 4 == 0 || last_step) {
            // thorough: everything, always (giant sub) / every 4th step (bucket-sized histories)
            ctx.class("sharded_full_scan");
            ctx.class_n("owner_reads", m.owner.len() as u64);
            sharded_full_scan(case, &log, &m, &mut ck, opname, touched, &what_op, false)?;
        } else {
            windowed = true;
            ctx.class("window_scan");
            let ids = window_ids(&m, thorough);
            ctx.class_n("owner_reads", ids.len() as u64);
            ck.check_owners(&t, &m, &ids, opname, touched, &what_op)?;
        }
        check_balances(&t, &m, opname, &what_op)?;

        // absent ids: the probed id, neighbours of the touched id, margin beyond the counter, a
        // rotating sample of burned ids, unissued ids of the explicit range
        let mut absent = probe.clone();
        let mut uri_absent = probe.clone();
        if let Some(x) = touched {
            absent.extend([x, x.saturating_add(1), x.saturating_sub(1)]);
            uri_absent.push(x);
        }
        for d in 0..4u32 {
            absent.push(m.next_id.saturating_add(d));
        }
        uri_absent.push(m.next_id);
        if !m.burned.is_empty() {
            let n = m.burned.len();
            for j in 0..3usize.min(n) {
                absent.push(*m.burned.iter().nth((step * 3 + j) % n).unwrap());
            }
            uri_absent.push(*m.burned.iter().nth(step % n).unwrap());
        }
        absent.push(HIGH_BASE - 1 - (step as u32 % 5));
        if target.explicit() {
            absent.push(HIGH_BASE + 40 + (step as u32 % 7));
            absent.push(u32::MAX - 5 - (step as u32 % 3));
        }
        absent.sort();
        absent.dedup();
        check_absent(&t, &m, &absent, &uri_absent, opname, &what_op, ctx)?;

        // token_uri for a window of existing ids (all of them at the end)
        let mut uri_ids: Vec<u32> = vec![];
        if let Some(x) = touched {
            for d in -2i32..=2 {
                let y = x.saturating_add_signed(d);
                if m.exists(y) {
                    uri_ids.push(y);
                }
            }
        }
        let n_ex = m.owner.len();
        if n_ex > 0 {
            for j in 0..6usize {
                uri_ids.push(*m.owner.keys().nth((j * n_ex) / 6).unwrap());
            }
        }
        uri_ids.sort();
        uri_ids.dedup();
        check_uris(&t, &uri_ids, opname, &what_op)?;

        // entry points agree with the library getters for the touched token and its neighbours
        if let Some(x) = touched {
            for y in [x.saturating_sub(1), x, x.saturating_add(1)] {
                if let Some(o) = m.owner.get(&y) {
                    let r = t.api_owner_of(y);
                    ensure!(
                        matches!(&r, Ok(a) if *a == t.accts[*o]),
                        sig(opname, "entry-point-owner_of-differs", target),
                        "{what_op}: entry point owner_of({y}) = {:?}, ownership map says account #{o}",
                        r.map(|a| t.acct_index(&a))
                    );
                }
            }
        }
        for p in &parties {
            let r = t.api_balance(&t.accts[*p]);
            ensure!(
                r == Ok(m.count[*p]),
                sig(opname, "entry-point-balance-differs", target),
                "{what_op}: entry point balance(#{p}) = {:?}, owned tokens = {}",
                r,
                m.count[*p]
            );
        }

        if kind == Kind::Enum {
            let accts: Vec<usize> = if last_step { (0..N_ACCTS).collect() } else { parties.clone() };
            last_enum = Some(check_enum(&t, &m, opname, &what_op, &accts)?);
        }
    }

    // ---------------------------------------------------- end of history: everything
    let what = "final sweep";
    let ids: Vec<u32> = m.owner.keys().copied().collect();
    if ids.len() > SHARD_ABOVE {
        ctx.class("final_sharded_full_scan");
        ctx.class_n("owner_reads", ids.len() as u64);
        sharded_full_scan(case, &log, &m, &mut ck, "final", None, what, true)?;
    } else {
        if windowed {
            ctx.class("final_full_scan_after_windows");
            ctx.class_n("owner_reads", ids.len() as u64);
            ck.check_owners(&t, &m, &ids, "final", None, what)?;
        }
        check_uris(&t, &ids, "final", what)?;
    }
    // balance(a) == number of tokens owner_of reports for a (the full scan has just confirmed the map)
    check_balances(&t, &m, "final", what)?;
    let burned: Vec<u32> = m.burned.iter().copied().collect();
    check_absent(&t, &m, &burned, &burned, "final", what, ctx)?;
    if kind == Kind::Enum {
        check_enum(&t, &m, "final", what, &(0..N_ACCTS).collect::<Vec<_>>())?;
    }

    let nontrivial = match kind {
        Kind::Cons => crossing_batch && cons_moves.len() >= 2 && cons_edge_move,
        Kind::Enum => enum_nonlast_removal,
        Kind::Base => base_mint_after_burn,
    };
    if nontrivial {
        ctx.nontrivial = true;
        ctx.class("nontrivial");
        ctx.class(match kind {
            Kind::Cons => "nontrivial_cons",
            Kind::Enum => "nontrivial_enum",
            Kind::Base => "nontrivial_base",
        });
    }
    Ok(())
}

fn resolve_spender(m: &Model, sp: &SpSel, id: u32, owner: Option<usize>) -> usize {
    match sp {
        SpSel::Owner => owner.unwrap_or(0),
        SpSel::Operator(i) => {
            let ops: Vec<usize> = m.operators.iter().filter(|(o, _)| Some(*o) == owner).map(|(_, p)| *p).collect();
            if ops.is_empty() {
                pick(*i, N_ACCTS)
            } else {
                ops[pick(*i, ops.len())]
            }
        }
        SpSel::Approved => m.approved.get(&id).copied().unwrap_or(owner.map(|o| (o + 1) % N_ACCTS).unwrap_or(1)),
        SpSel::Acct(i) => pick(*i, N_ACCTS),
    }
}

/// spender may act on `owner`'s token `id` (approvals in C10 never expire: no ledger movement)
fn spender_allowed(m: &Model, sp: usize, owner: usize, id: u32) -> bool {
    sp == owner || m.approved.get(&id) == Some(&sp) || m.operators.contains(&(owner, sp))
}

fn strat_base(tier: Tier) -> BoxedStrategy<Case> {
    strategy_kind(Kind::Base, tier)
}
fn strat_enum(tier: Tier) -> BoxedStrategy<Case> {
    strategy_kind(Kind::Enum, tier)
}
fn strat_cons(tier: Tier) -> BoxedStrategy<Case> {
    strategy_kind(Kind::Cons, tier)
}

pub fn property() -> Property {
    Property {
        id: "C10",
        rule: "case = (target contract: example or harness twin of base/enumerable/consecutive, start ledger, history of <=40 (thorough 80) ops: \
               sequential/explicit/batch mint (batch sizes incl. bucket size +-1, 2x bucket, 0 and max+1; sub `giant`: max and max-1), transfer, \
               transfer_from, burn, burn_from with state-relative token selectors (existing, batch edge, bucket edge, neighbour of a touched id, \
               burned, fresh), 4 accounts, self-transfers); non-trivial = consecutive: a batch crossing a bucket boundary followed by >=2 successful \
               transfers/burns at distinct ids incl. a batch/bucket edge; enumerable: a successful removal of a non-last index; base: a burn \
               followed by a further mint; distinct = distinct serialised case",
        subs: vec![
            gen_sub::<Case>("base", 600, 10000, strat_base, run),
            gen_sub::<Case>("enumerable", 600, 10000, strat_enum, run),
            gen_sub::<Case>("consecutive", 600, 1800, strat_cons, run),
            gen_sub::<Case>("giant", 16, 48, strategy_giant, run),
        ],
        floors: vec![
            ("nontrivial", 60, 600),
            ("nontrivial_base", 30, 450),
            ("nontrivial_enum", 30, 450),
            ("nontrivial_cons", 10, 50),
            ("batch_crossing_bucket", 15, 75),
            ("cons_move_at_bucket_edge", 20, 100),
            ("cons_move_at_batch_edge", 25, 125),
            ("enum_nonlast_owner_removal", 50, 750),
            ("enum_nonlast_global_removal", 60, 900),
            ("explicit_mint", 150, 2200),
            ("explicit_remint_of_burned", 10, 150),
            ("self_transfer", 130, 1500),
            ("batch_invalid_size", 12, 60),
            ("batch_giant", 8, 24),
            ("batch_max_size", 1, 4),
            ("final_sharded_full_scan", 20, 100),
            ("burn_ok", 400, 5000),
            ("mint_after_burn", 250, 3500),
            ("absent_probe", 20000, 200000),
        ],
        assumptions: vec![
            "Soroban native test host (storage, rollback of failed invocations, auth matching) is trusted",
            "explicit-id mints only use ids that are not in use and never ids from the sequential range (documented caller duty)",
            "bulk owner_of/token_uri/enumeration reads go through the library getters inside a contract frame; entry points are cross-checked for touched ids",
            "full scans of more than 7000 ids are sharded over fresh Envs in which the logged successful calls are re-run (the host is deterministic)",
        ],
    }
}

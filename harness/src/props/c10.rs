//! C10 — not implemented yet.
use crate::engine::*;

pub fn property() -> Property {
    Property { id: "C10", rule: "", subs: vec![], floors: vec![], assumptions: vec![] }
}

//! C11 — An NFT moves only by its owner, its approved account or a live operator.
//!
//! Model: `owner[id]`, `approval[id] = (account, live_until)`, `operator[(owner, op)] = live_until`.
//! Every call carries explicit authorization entries (auth modes Exact / Drop / Swap / Tamper /
//! Surplus).  Safety: a call that succeeds must carry the exact entry of the documented authorizer
//! AND satisfy the model's precondition (owner; or owner / live approved account / live operator of
//! the CURRENT owner with `from` == current owner; approve only by owner or live operator).
//! Exactness (documented): exact authorization + precondition => success.  After every step
//! `owner_of`, `balance`, `get_approved` (every id) and `is_approved_for_all` (every pair) equal
//! the model, so a failed call changed nothing, a transfer/burn cleared the approval, approvals
//! never survive an ownership change and expire exactly after `live_until`.

use super::c10::{Kind, Nft, Target, HIGH_BASE};
use super::ftcore::{auth_strategy, live_strategy, AuthMode, Live};
use crate::engine::*;
use crate::envx::{self, Inv};
use crate::gen::pick;
use proptest::prelude::*;
use serde::{Deserialize, Serialize};
use soroban_sdk::{Address, TryFromVal, Val};
use std::collections::{BTreeMap, BTreeSet};

pub const N: usize = 5;

/// actor chosen by its relation to the token at execution time
#[derive(Clone, Debug, Serialize, Deserialize)]
pub enum Role {
    Owner,
    /// account in the token's approval slot of the model (live or expired)
    Approved,
    /// an operator (live or expired) of the current owner
    Operator(u16),
    /// an operator of some account other than the current owner
    ForeignOperator(u16),
    FormerOwner(u16),
    /// account whose approval for this token was cleared/replaced earlier
    FormerApproved(u16),
    /// none of the above
    Stranger(u16),
    Any(u16),
}

#[derive(Clone, Debug, Serialize, Deserialize)]
pub enum FromSel {
    Owner,
    /// an account that named the spender its operator
    PrincipalOfSpender(u16),
    Any(u16),
}

#[derive(Clone, Debug, Serialize, Deserialize)]
pub enum ToSel {
    Acct(u16),
    FormerOwner(u16),
    /// self-transfer
    Owner,
    Spender,
}

#[derive(Clone, Debug, Serialize, Deserialize)]
pub enum TokSel {
    Existing(u16),
    /// a token that currently has an approval entry in the model (falls back to Existing)
    WithApproval(u16),
    Burned(u16),
    Fresh,
}

#[derive(Clone, Debug, Serialize, Deserialize)]
pub enum Op {
    Approve { tok: TokSel, approver: Role, approved: u16, live: Live, auth: AuthMode },
    ApproveAll { owner: Role, tok: TokSel, operator: u16, live: Live, auth: AuthMode },
    Transfer { tok: TokSel, from: FromSel, to: ToSel, auth: AuthMode },
    TransferFrom { tok: TokSel, spender: Role, from: FromSel, to: ToSel, auth: AuthMode },
    Burn { tok: TokSel, from: FromSel, auth: AuthMode },
    BurnFrom { tok: TokSel, spender: Role, from: FromSel, auth: AuthMode },
    Advance { k: u32 },
    AdvanceToExpiry { which: u16, d: i8 },
    Mint { to: u16 },
    /// scripted probe: (approve if needed) -> owner sends the token to `via` -> `via` sends it back
    /// -> the formerly approved account tries `transfer_from`
    RoundTrip { tok: TokSel, via: u16, approved: u16 },
    /// scripted probe of the expiry boundary: the owner approves `who` (for the token, or as operator)
    /// until now+k, the ledger moves to live_until+d, then `who` tries transfer_from / burn_from
    ExpiryProbe { tok: TokSel, who: u16, k: u8, d: i8, operator: bool, burn: bool },
}

#[derive(Clone, Debug, Serialize, Deserialize)]
pub struct Case {
    pub target: Target,
    pub seq: u32,
    pub small_ttl: bool,
    /// initial mints: (recipient selector, count 1..=3)
    pub init: Vec<(u16, u8)>,
    pub ops: Vec<Op>,
}

fn role_strategy() -> BoxedStrategy<Role> {
    prop_oneof![
        4 => Just(Role::Owner),
        5 => Just(Role::Approved),
        5 => any::<u16>().prop_map(Role::Operator),
        2 => any::<u16>().prop_map(Role::ForeignOperator),
        2 => any::<u16>().prop_map(Role::FormerOwner),
        3 => any::<u16>().prop_map(Role::FormerApproved),
        2 => any::<u16>().prop_map(Role::Stranger),
        1 => any::<u16>().prop_map(Role::Any),
    ]
    .boxed()
}
fn from_strategy() -> BoxedStrategy<FromSel> {
    prop_oneof![
        12 => Just(FromSel::Owner),
        1 => any::<u16>().prop_map(FromSel::PrincipalOfSpender),
        1 => any::<u16>().prop_map(FromSel::Any),
    ]
    .boxed()
}
fn to_strategy() -> BoxedStrategy<ToSel> {
    prop_oneof![
        6 => any::<u16>().prop_map(ToSel::Acct),
        3 => any::<u16>().prop_map(ToSel::FormerOwner),
        1 => Just(ToSel::Owner),
        2 => Just(ToSel::Spender),
    ]
    .boxed()
}
fn tok_strategy() -> BoxedStrategy<TokSel> {
    prop_oneof![
        8 => any::<u16>().prop_map(TokSel::Existing),
        6 => any::<u16>().prop_map(TokSel::WithApproval),
        1 => any::<u16>().prop_map(TokSel::Burned),
        1 => Just(TokSel::Fresh),
    ]
    .boxed()
}

/// live_until lattice: mostly valid and short (so that expiry is reached), plus the invalid corners
fn live_strategy2() -> BoxedStrategy<Live> {
    prop_oneof![
        8 => prop_oneof![Just(0i32), Just(1), Just(2), 3i32..40, 40i32..400].prop_map(Live::Rel),
        3 => live_strategy(),
        2 => Just(Live::Abs(0)),
    ]
    .boxed()
}

fn op_strategy() -> BoxedStrategy<Op> {
    let a = auth_strategy(20);
    let live_strategy = live_strategy2;
    prop_oneof![
        7 => (tok_strategy(), prop_oneof![5 => Just(Role::Owner), 3 => any::<u16>().prop_map(Role::Operator), 2 => role_strategy()], any::<u16>(), live_strategy(), a.clone())
            .prop_map(|(tok, approver, approved, live, auth)| Op::Approve { tok, approver, approved, live, auth }),
        5 => (prop_oneof![4 => Just(Role::Owner), 1 => any::<u16>().prop_map(Role::Any)], tok_strategy(), any::<u16>(), live_strategy(), a.clone())
            .prop_map(|(owner, tok, operator, live, auth)| Op::ApproveAll { owner, tok, operator, live, auth }),
        3 => (tok_strategy(), from_strategy(), to_strategy(), a.clone()).prop_map(|(tok, from, to, auth)| Op::Transfer { tok, from, to, auth }),
        9 => (tok_strategy(), role_strategy(), from_strategy(), to_strategy(), a.clone())
            .prop_map(|(tok, spender, from, to, auth)| Op::TransferFrom { tok, spender, from, to, auth }),
        1 => (tok_strategy(), from_strategy(), a.clone()).prop_map(|(tok, from, auth)| Op::Burn { tok, from, auth }),
        3 => (tok_strategy(), role_strategy(), from_strategy(), a.clone()).prop_map(|(tok, spender, from, auth)| Op::BurnFrom { tok, spender, from, auth }),
        2 => prop_oneof![Just(0u32), Just(1), Just(2), 3u32..80, 500u32..700].prop_map(|k| Op::Advance { k }),
        4 => (any::<u16>(), -1i8..=1).prop_map(|(which, d)| Op::AdvanceToExpiry { which, d }),
        1 => any::<u16>().prop_map(|to| Op::Mint { to }),
        2 => (tok_strategy(), any::<u16>(), any::<u16>()).prop_map(|(tok, via, approved)| Op::RoundTrip { tok, via, approved }),
        2 => (tok_strategy(), any::<u16>(), 0u8..40, -1i8..=1, any::<bool>(), proptest::bool::weighted(0.25))
            .prop_map(|(tok, who, k, d, operator, burn)| Op::ExpiryProbe { tok, who, k, d, operator, burn }),
    ]
    .boxed()
}

fn strategy_kind(kind: Kind, tier: Tier) -> BoxedStrategy<Case> {
    let max_ops = tier.pick(35usize, 70usize);
    let targets: BoxedStrategy<Target> = match kind {
        Kind::Base => prop_oneof![2 => Just(Target::ExBase), 1 => Just(Target::XBase)].boxed(),
        Kind::Enum => prop_oneof![2 => Just(Target::ExEnum), 1 => Just(Target::XEnum)].boxed(),
        Kind::Cons => prop_oneof![2 => Just(Target::ExCons), 1 => Just(Target::XCons)].boxed(),
    };
    (
        targets,
        100u32..5000,
        proptest::bool::weighted(0.3),
        proptest::collection::vec((any::<u16>(), 1u8..=3), 1..4),
        proptest::collection::vec(op_strategy(), 1..max_ops),
    )
        .prop_map(|(target, seq, small_ttl, init, ops)| Case { target, seq, small_ttl, init, ops })
        .boxed()
}

// ======================================================================== model

#[derive(Default, Clone)]
struct M {
    owner: BTreeMap<u32, usize>,
    approval: BTreeMap<u32, (usize, u32)>,
    operator: BTreeMap<(usize, usize), u32>,
    burned: BTreeSet<u32>,
    former_owner: BTreeMap<u32, Vec<usize>>,
    former_approved: BTreeMap<u32, Vec<usize>>,
    count: Vec<u32>,
    /// every id ever seen (existing or burned), for the approval sweep
    ids: BTreeSet<u32>,
    next_seq: u32,
    next_explicit: u32,
    expiries: Vec<u32>,
}

impl M {
    fn approved_live(&self, id: u32, now: u32) -> Option<usize> {
        self.approval.get(&id).filter(|(_, u)| *u >= now).map(|(a, _)| *a)
    }
    fn operator_live(&self, o: usize, p: usize, now: u32) -> bool {
        self.operator.get(&(o, p)).is_some_and(|u| *u >= now)
    }
    fn resolve_tok(&self, s: &TokSel) -> u32 {
        match s {
            TokSel::Existing(i) => {
                if self.owner.is_empty() {
                    self.next_seq + 3
                } else {
                    *self.owner.keys().nth(pick(*i, self.owner.len())).unwrap()
                }
            }
            TokSel::WithApproval(i) => {
                let v: Vec<u32> = self.approval.keys().copied().filter(|k| self.owner.contains_key(k)).collect();
                if v.is_empty() {
                    self.resolve_tok(&TokSel::Existing(*i))
                } else {
                    v[pick(*i, v.len())]
                }
            }
            TokSel::Burned(i) => {
                if self.burned.is_empty() {
                    self.next_seq + 5
                } else {
                    *self.burned.iter().nth(pick(*i, self.burned.len())).unwrap()
                }
            }
            TokSel::Fresh => self.next_seq,
        }
    }
    /// (account, did the role exist)
    fn resolve_role(&self, r: &Role, id: u32) -> (usize, bool) {
        let owner = self.owner.get(&id).copied();
        let from_list = |v: Vec<usize>, i: &u16| -> (usize, bool) {
            if v.is_empty() {
                (pick(*i, N), false)
            } else {
                (v[pick(*i, v.len())], true)
            }
        };
        match r {
            Role::Owner => (owner.unwrap_or(0), owner.is_some()),
            Role::Approved => match self.approval.get(&id) {
                Some((a, _)) => (*a, true),
                None => (owner.map(|o| (o + 1) % N).unwrap_or(1), false),
            },
            Role::Operator(i) => from_list(self.operator.keys().filter(|(o, _)| Some(*o) == owner).map(|(_, p)| *p).collect(), i),
            Role::ForeignOperator(i) => from_list(
                self.operator.keys().filter(|(o, p)| Some(*o) != owner && !self.operator.contains_key(&(owner.unwrap_or(N), *p))).map(|(_, p)| *p).collect(),
                i,
            ),
            Role::FormerOwner(i) => from_list(self.former_owner.get(&id).cloned().unwrap_or_default().into_iter().filter(|a| Some(*a) != owner).collect(), i),
            Role::FormerApproved(i) => from_list(
                self.former_approved.get(&id).cloned().unwrap_or_default().into_iter().filter(|a| Some(*a) != owner && self.approval.get(&id).map(|x| x.0) != Some(*a)).collect(),
                i,
            ),
            Role::Stranger(i) => from_list(
                (0..N)
                    .filter(|a| {
                        Some(*a) != owner
                            && self.approval.get(&id).map(|x| x.0) != Some(*a)
                            && !self.operator.keys().any(|(_, p)| p == a)
                            && !self.former_owner.get(&id).is_some_and(|v| v.contains(a))
                            && !self.former_approved.get(&id).is_some_and(|v| v.contains(a))
                    })
                    .collect(),
                i,
            ),
            Role::Any(i) => (pick(*i, N), true),
        }
    }
}

fn resolve_live(e: &soroban_sdk::Env, l: &Live) -> u32 {
    let seq = e.ledger().sequence();
    match l {
        Live::Rel(d) => (seq as i64 + *d as i64).clamp(0, u32::MAX as i64) as u32,
        Live::MaxPlus(d) => (e.ledger().max_live_until_ledger() as i64 + *d as i64).clamp(0, u32::MAX as i64) as u32,
        Live::Abs(x) => *x,
    }
}

// ======================================================================== calls

#[derive(Clone, Debug)]
enum Call {
    Transfer { from: usize, to: usize, id: u32 },
    TransferFrom { sp: usize, from: usize, to: usize, id: u32 },
    Burn { from: usize, id: u32 },
    BurnFrom { sp: usize, from: usize, id: u32 },
    Approve { approver: usize, approved: usize, id: u32, live: u32 },
    ApproveAll { owner: usize, operator: usize, live: u32 },
}

impl Call {
    fn func(&self) -> &'static str {
        match self {
            Call::Transfer { .. } => "transfer",
            Call::TransferFrom { .. } => "transfer_from",
            Call::Burn { .. } => "burn",
            Call::BurnFrom { .. } => "burn_from",
            Call::Approve { .. } => "approve",
            Call::ApproveAll { .. } => "approve_for_all",
        }
    }
    /// the documented authorizer
    fn signer(&self) -> usize {
        match self {
            Call::Transfer { from, .. } | Call::Burn { from, .. } => *from,
            Call::TransferFrom { sp, .. } | Call::BurnFrom { sp, .. } => *sp,
            Call::Approve { approver, .. } => *approver,
            Call::ApproveAll { owner, .. } => *owner,
        }
    }
    fn args(&self, t: &Nft) -> Vec<Val> {
        let a = |i: &usize| t.v(&t.accts[*i]);
        match self {
            Call::Transfer { from, to, id } => vec![a(from), a(to), t.v(id)],
            Call::TransferFrom { sp, from, to, id } => vec![a(sp), a(from), a(to), t.v(id)],
            Call::Burn { from, id } => vec![a(from), t.v(id)],
            Call::BurnFrom { sp, from, id } => vec![a(sp), a(from), t.v(id)],
            Call::Approve { approver, approved, id, live } => vec![a(approver), a(approved), t.v(id), t.v(live)],
            Call::ApproveAll { owner, operator, live } => vec![a(owner), a(operator), t.v(live)],
        }
    }
    /// index of the token-id argument
    fn id_arg(&self) -> Option<usize> {
        match self {
            Call::Transfer { .. } => Some(2),
            Call::TransferFrom { .. } => Some(3),
            Call::Burn { .. } => Some(1),
            Call::BurnFrom { .. } | Call::Approve { .. } => Some(2),
            Call::ApproveAll { .. } => None,
        }
    }
    fn token(&self) -> Option<u32> {
        match self {
            Call::Transfer { id, .. } | Call::TransferFrom { id, .. } | Call::Burn { id, .. } | Call::BurnFrom { id, .. } | Call::Approve { id, .. } => Some(*id),
            Call::ApproveAll { .. } => None,
        }
    }
}

/// authorization entries for `mode`; `exact` = the documented authorizer's exact entry is attached
fn build_auth(t: &Nft, c: &Call, mode: &AuthMode) -> (Vec<(Address, Inv)>, bool) {
    let e = &t.e;
    let args = c.args(t);
    let func = c.func();
    let si = c.signer();
    let signer = t.accts[si].clone();
    let inv = t.inv(func, &args);
    match mode {
        AuthMode::Exact => (vec![(signer, inv)], true),
        AuthMode::Drop(_) => (vec![], false),
        AuthMode::Swap(_, o) => {
            // somebody else signs the very same invocation
            let pool: Vec<Address> = t.accts.iter().enumerate().filter(|(i, _)| *i != si).map(|(_, a)| a.clone()).chain([t.admin.clone()]).collect();
            (vec![(pool[pick(*o, pool.len())].clone(), inv)], false)
        }
        AuthMode::Tamper(_, k) => {
            let mut a2 = args.clone();
            let mut changed = false;
            if let (Some(ix), true) = (c.id_arg(), *k % 2 == 0) {
                if let Ok(x) = u32::try_from_val(e, &a2[ix]) {
                    a2[ix] = t.v(&(if *k == 0 { x.wrapping_add(1) } else { x.wrapping_sub(1) }));
                    changed = true;
                }
            }
            if !changed {
                // last address argument (recipient / approved / operator, else the only party) -> admin
                for v in a2.iter_mut().rev() {
                    if Address::try_from_val(e, v).is_ok() {
                        *v = t.v(&t.admin);
                        changed = true;
                        break;
                    }
                }
            }
            (vec![(signer, t.inv(func, &a2))], !changed)
        }
        AuthMode::Surplus(o) => {
            let mut v = vec![(signer.clone(), inv)];
            let other = pick(*o, N);
            if other != si {
                let who = t.accts[other].clone();
                let junk = t.inv("approve_for_all", &[t.v(&who), t.v(&signer), t.v(&0u32)]);
                v.push((who, junk));
            }
            (v, true)
        }
    }
}

/// Why the model forbids a call (used as class name and in the signature).
type Deny = &'static str;

fn precondition(m: &M, c: &Call, now: u32, max_live: u32) -> Result<(), Deny> {
    let spender_ok = |sp: usize, owner: usize, id: u32| -> Result<(), Deny> {
        if sp == owner || m.approved_live(id, now) == Some(sp) || m.operator_live(owner, sp, now) {
            return Ok(());
        }
        // classify the stale claim, if any
        if m.approval.get(&id).is_some_and(|(a, _)| *a == sp) {
            return Err("expired-approval");
        }
        if m.operator.contains_key(&(owner, sp)) {
            return Err("expired-operator");
        }
        if m.former_approved.get(&id).is_some_and(|v| v.contains(&sp)) {
            return Err("cleared-approval");
        }
        if m.former_owner.get(&id).is_some_and(|v| v.contains(&sp)) {
            return Err("former-owner");
        }
        if m.operator.iter().any(|((o, p), u)| *p == sp && *o != owner && *u >= now) {
            return Err("operator-of-another-owner");
        }
        Err("no-approval")
    };
    let live_ok = |live: u32| -> Result<(), Deny> {
        if live == 0 {
            Ok(())
        } else if live < now {
            Err("live-until-in-the-past")
        } else if live > max_live {
            Err("live-until-beyond-max-ttl")
        } else {
            Ok(())
        }
    };
    match c {
        Call::Transfer { from, id, .. } | Call::Burn { from, id } => match m.owner.get(id) {
            None => Err("nonexistent-token"),
            Some(o) if o != from => Err(if m.former_owner.get(id).is_some_and(|v| v.contains(from)) { "former-owner" } else { "not-owner" }),
            Some(_) => Ok(()),
        },
        Call::TransferFrom { sp, from, id, .. } | Call::BurnFrom { sp, from, id } => match m.owner.get(id) {
            None => Err("nonexistent-token"),
            Some(o) if o != from => Err("from-not-owner"),
            Some(o) => spender_ok(*sp, *o, *id),
        },
        Call::Approve { approver, id, live, .. } => match m.owner.get(id) {
            None => Err("nonexistent-token"),
            Some(o) => {
                if approver != o && !m.operator_live(*o, *approver, now) {
                    if m.operator.contains_key(&(*o, *approver)) {
                        return Err("expired-operator");
                    }
                    if m.former_owner.get(id).is_some_and(|v| v.contains(approver)) {
                        return Err("former-owner");
                    }
                    return Err("approver-not-owner-nor-operator");
                }
                live_ok(*live)
            }
        },
        Call::ApproveAll { live, .. } => live_ok(*live),
    }
}

fn is_stale(d: Deny) -> bool {
    matches!(d, "expired-approval" | "expired-operator" | "cleared-approval" | "former-owner" | "operator-of-another-owner")
}

struct St<'a> {
    t: &'a Nft,
    m: M,
    stale_rejected: bool,
    live_accepted: bool,
}

impl<'a> St<'a> {
    fn sig(&self, func: &str, clause: &str) -> String {
        format!("C11/{func}/{clause}/{}", self.t.target.kname())
    }

    fn now(&self) -> u32 {
        envx::seq(&self.t.e)
    }

    /// the whole observable state equals the model
    fn check_state(&self, what: &str, func: &str) -> R {
        let t = self.t;
        let m = &self.m;
        let now = self.now();
        let ids: Vec<u32> = m.owner.keys().copied().collect();
        let owners = t.read_owners(&ids);
        for (id, g) in ids.iter().zip(owners.iter()) {
            let want = m.owner[id];
            ensure!(
                matches!(g, Some(a) if *a == t.accts[want]),
                self.sig(func, "owner-mismatch"),
                "{what}: owner_of({id}) = {:?}, model says account #{want}",
                g.as_ref().map(|a| t.acct_index(a))
            );
        }
        let bal = t.read_balances();
        for (i, b) in bal.iter().enumerate() {
            ensure!(*b == m.count[i], self.sig(func, "balance-mismatch"), "{what}: balance(#{i}) = {b}, model {}", m.count[i]);
        }
        let all: Vec<u32> = m.ids.iter().copied().collect();
        let (ap, ops) = t.read_approvals(&all);
        for (id, g) in all.iter().zip(ap.iter()) {
            let want = if m.owner.contains_key(id) { m.approved_live(*id, now) } else { None };
            let got = g.as_ref().map(|a| t.acct_index(a));
            let clause = match (want, &got) {
                (None, Some(_)) if !m.owner.contains_key(id) => "approval-on-burned-token",
                (None, Some(_)) if m.approval.contains_key(id) => "expired-approval-still-reported",
                (None, Some(_)) => "approval-not-cleared",
                (Some(_), None) => "live-approval-not-reported",
                _ => "approval-mismatch",
            };
            ensure!(
                got == want.map(Some),
                self.sig("get_approved", clause),
                "{what}: at ledger {now} get_approved({id}) = {:?}, model {:?} (stored {:?})",
                got,
                want,
                m.approval.get(id)
            );
        }
        for o in 0..N {
            for p in 0..N {
                let want = m.operator_live(o, p, now);
                ensure!(
                    ops[o][p] == want,
                    self.sig("is_approved_for_all", if want { "live-operator-not-reported" } else { "dead-operator-reported" }),
                    "{what}: at ledger {now} is_approved_for_all(#{o}, #{p}) = {}, model {want} (stored {:?})",
                    ops[o][p],
                    m.operator.get(&(o, p))
                );
            }
        }
        Ok(())
    }

    /// entry points agree with the library getters for the touched token / pair
    fn check_api(&self, c: &Call, what: &str) -> R {
        let t = self.t;
        let m = &self.m;
        let now = self.now();
        if let Some(id) = c.token() {
            let want = if m.owner.contains_key(&id) { m.approved_live(id, now) } else { None };
            let r = t.api_get_approved(id);
            ensure!(
                matches!(&r, Ok(g) if g.as_ref().map(|a| t.acct_index(a)) == want.map(Some)),
                self.sig("get_approved", "entry-point-mismatch"),
                "{what}: entry point get_approved({id}) = {:?}, model {:?}",
                r.map(|g| g.map(|a| t.acct_index(&a))),
                want
            );
            let r = t.api_owner_of(id);
            match m.owner.get(&id) {
                Some(o) => ensure!(
                    matches!(&r, Ok(a) if *a == t.accts[*o]),
                    self.sig("owner_of", "entry-point-mismatch"),
                    "{what}: entry point owner_of({id}) differs from model #{o}"
                ),
                None => ensure!(r.is_err(), self.sig("owner_of", "nonexistent-token-has-owner"), "{what}: owner_of({id}) succeeded for a token that does not exist"),
            }
        }
        if let Call::ApproveAll { owner, operator, .. } = c {
            let r = t.api_is_approved_for_all(&t.accts[*owner], &t.accts[*operator]);
            let want = m.operator_live(*owner, *operator, now);
            ensure!(r == Ok(want), self.sig("is_approved_for_all", "entry-point-mismatch"), "{what}: entry point says {:?}, model {want}", r);
        }
        Ok(())
    }

    /// one call: authorization per `mode`, outcome vs model, effect, full state comparison
    fn call(&mut self, c: &Call, mode: &AuthMode, ctx: &mut Ctx, what: &str) -> R {
        let t = self.t;
        let func = c.func();
        let now = self.now();
        let max_live = t.e.ledger().max_live_until_ledger();
        let (entries, exact) = build_auth(t, c, mode);
        let pre = precondition(&self.m, c, now, max_live);
        let r = t.invoke_with(func, &c.args(t), &entries);
        ctx.op(r.is_ok());
        ctx.class(match mode {
            AuthMode::Exact => "auth_exact",
            AuthMode::Drop(_) => "auth_drop",
            AuthMode::Swap(..) => "auth_swap",
            AuthMode::Tamper(..) => "auth_tamper",
            AuthMode::Surplus(_) => "auth_surplus",
        });
        match (r.is_ok(), exact, &pre) {
            (true, false, _) => bail!(
                self.sig(func, "succeeded-without-required-authorization"),
                "{what}: {:?} succeeded under auth mode {:?} although account #{} did not authorize exactly this call",
                c,
                mode,
                c.signer()
            ),
            (true, true, Err(d)) => bail!(
                self.sig(func, &format!("unauthorized:{d}")),
                "{what}: at ledger {now} {:?} succeeded although the model forbids it ({d}); owner {:?}, approval {:?}, operators {:?}",
                c,
                c.token().and_then(|id| self.m.owner.get(&id)),
                c.token().and_then(|id| self.m.approval.get(&id)),
                self.m.operator
            ),
            (false, true, Ok(())) => bail!(
                self.sig(func, "refused-although-authorized"),
                "{what}: at ledger {now} {:?} failed ({}) although the documented preconditions hold; owner {:?}, approval {:?}, operators {:?}",
                c,
                r.as_ref().err().map(|s| s.chars().take(80).collect::<String>()).unwrap_or_default(),
                c.token().and_then(|id| self.m.owner.get(&id)),
                c.token().and_then(|id| self.m.approval.get(&id)),
                self.m.operator
            ),
            (false, true, Err(d)) => {
                ctx.class(&format!("rejected:{d}"));
                if is_stale(d) {
                    self.stale_rejected = true;
                    ctx.class("stale_claim_rejected");
                }
            }
            (false, false, _) => {
                ctx.class("rejected:missing-authorization");
                if pre.is_ok() {
                    ctx.class("rejected_only_for_missing_authorization");
                }
            }
            (true, true, Ok(())) => self.apply(c, now, ctx),
        }
        self.check_state(what, func)?;
        self.check_api(c, what)
    }

    fn apply(&mut self, c: &Call, now: u32, ctx: &mut Ctx) {
        let m = &mut self.m;
        fn clear_approval(m: &mut M, id: u32, ctx: &mut Ctx) {
            if let Some((a, _)) = m.approval.remove(&id) {
                m.former_approved.entry(id).or_default().push(a);
                ctx.class("approval_cleared_by_move");
            }
        }
        match c {
            Call::Transfer { from, to, id } | Call::TransferFrom { from, to, id, .. } => {
                if let Call::TransferFrom { sp, .. } = c {
                    if sp != from {
                        self.live_accepted = true;
                        ctx.class(if m.approved_live(*id, now) == Some(*sp) { "moved_by_live_approved" } else { "moved_by_live_operator" });
                    }
                }
                clear_approval(m, *id, ctx);
                m.owner.insert(*id, *to);
                m.count[*from] -= 1;
                m.count[*to] += 1;
                if from != to {
                    m.former_owner.entry(*id).or_default().push(*from);
                    ctx.class("ownership_changed");
                    if m.former_owner[id].contains(to) {
                        ctx.class("token_returned_to_former_owner");
                    }
                }
            }
            Call::Burn { from, id } | Call::BurnFrom { from, id, .. } => {
                if let Call::BurnFrom { sp, .. } = c {
                    if sp != from {
                        self.live_accepted = true;
                        ctx.class(if m.approved_live(*id, now) == Some(*sp) { "burned_by_live_approved" } else { "burned_by_live_operator" });
                    }
                }
                clear_approval(m, *id, ctx);
                m.owner.remove(id);
                m.count[*from] -= 1;
                m.burned.insert(*id);
                ctx.class("burned");
            }
            Call::Approve { approver, approved, id, live } => {
                if Some(approver) != m.owner.get(id) {
                    ctx.class("approve_by_operator");
                }
                if let Some((a, _)) = m.approval.remove(id) {
                    if a != *approved || *live == 0 {
                        m.former_approved.entry(*id).or_default().push(a);
                    }
                }
                if *live == 0 {
                    ctx.class("approval_revoked");
                } else {
                    m.approval.insert(*id, (*approved, *live));
                    m.expiries.push(*live);
                    ctx.class("approval_set");
                }
            }
            Call::ApproveAll { owner, operator, live } => {
                if *live == 0 {
                    m.operator.remove(&(*owner, *operator));
                    ctx.class("operator_revoked");
                } else {
                    m.operator.insert((*owner, *operator), *live);
                    m.expiries.push(*live);
                    ctx.class("operator_set");
                }
            }
        }
    }

    fn mint(&mut self, to: usize, n: u8, explicit: bool, what: &str) -> R {
        let t = self.t;
        let acct = t.accts[to].clone();
        let mut new_ids = vec![];
        match (t.target.kind(), explicit) {
            (Kind::Cons, _) => {
                let last = t.batch_mint(&acct, n as u32).map_err(|er| violation(self.sig("batch_mint", "refused"), format!("{what}: {er}")))?;
                for k in 0..n as u32 {
                    new_ids.push(last - (n as u32 - 1) + k);
                }
            }
            (_, true) => {
                for _ in 0..n {
                    let id = HIGH_BASE + self.m.next_explicit;
                    self.m.next_explicit += 1;
                    t.mint_id(&acct, id).map_err(|er| violation(self.sig("mint_id", "refused"), format!("{what}: {er}")))?;
                    new_ids.push(id);
                }
            }
            _ => {
                for _ in 0..n {
                    let id = t.mint_seq(&acct).map_err(|er| violation(self.sig("mint", "refused"), format!("{what}: {er}")))?;
                    new_ids.push(id);
                }
            }
        }
        for id in new_ids {
            ensure!(!self.m.ids.contains(&id), self.sig("mint", "id-reused"), "{what}: minted id {id} was issued before");
            self.m.owner.insert(id, to);
            self.m.count[to] += 1;
            self.m.ids.insert(id);
            if id < HIGH_BASE {
                self.m.next_seq = self.m.next_seq.max(id + 1);
            }
        }
        self.check_state(what, "mint")
    }

    fn resolve_from(&self, f: &FromSel, id: u32, spender: Option<usize>) -> usize {
        match f {
            FromSel::Owner => self.m.owner.get(&id).copied().unwrap_or(0),
            FromSel::PrincipalOfSpender(i) => {
                let v: Vec<usize> = self.m.operator.keys().filter(|(_, p)| Some(*p) == spender).map(|(o, _)| *o).collect();
                if v.is_empty() {
                    pick(*i, N)
                } else {
                    v[pick(*i, v.len())]
                }
            }
            FromSel::Any(i) => pick(*i, N),
        }
    }
    fn resolve_to(&self, s: &ToSel, id: u32, spender: usize) -> usize {
        match s {
            ToSel::Acct(i) => pick(*i, N),
            ToSel::FormerOwner(i) => {
                let v = self.m.former_owner.get(&id).cloned().unwrap_or_default();
                if v.is_empty() {
                    pick(*i, N)
                } else {
                    v[pick(*i, v.len())]
                }
            }
            ToSel::Owner => self.m.owner.get(&id).copied().unwrap_or(0),
            ToSel::Spender => spender,
        }
    }
}

pub fn run(case: &Case, ctx: &mut Ctx) -> R {
    let max_ttl = if case.small_ttl { 600 } else { envx::BIG_TTL };
    let t = Nft::setup(case.target, N, case.seq, max_ttl);
    let e = &t.e;
    let mut st = St { t: &t, m: M { count: vec![0; N], ..Default::default() }, stale_rejected: false, live_accepted: false };
    for (i, (to, n)) in case.init.iter().enumerate() {
        let explicit = case.target.explicit() && i % 2 == 1;
        st.mint(pick(*to, N), *n, explicit, &format!("initial mint {i}"))?;
    }

    for (step, op) in case.ops.iter().enumerate() {
        let what = format!("step {step} {:?}", op);
        match op {
            Op::Advance { k } => {
                envx::advance(e, *k);
                st.check_state(&what, "advance")?;
            }
            Op::AdvanceToExpiry { which, d } => {
                if !st.m.expiries.is_empty() {
                    let target = st.m.expiries[pick(*which, st.m.expiries.len())] as i64 + *d as i64;
                    let now = envx::seq(e) as i64;
                    if target > now && target - now < 100_000 {
                        envx::set_seq(e, target as u32);
                        ctx.class(match d {
                            -1 => "advance_to_expiry_minus_1",
                            0 => "advance_to_expiry",
                            _ => "advance_to_expiry_plus_1",
                        });
                    }
                }
                st.check_state(&what, "advance")?;
            }
            Op::Mint { to } => {
                if st.m.ids.len() < 16 {
                    let explicit = case.target.explicit() && step % 2 == 1;
                    st.mint(pick(*to, N), 1, explicit, &what)?;
                }
            }
            Op::Approve { tok, approver, approved, live, auth } => {
                let id = st.m.resolve_tok(tok);
                let (ap, _) = st.m.resolve_role(approver, id);
                let c = Call::Approve { approver: ap, approved: pick(*approved, N), id, live: resolve_live(e, live) };
                st.call(&c, auth, ctx, &what)?;
            }
            Op::ApproveAll { owner, tok, operator, live, auth } => {
                let id = st.m.resolve_tok(tok);
                let (o, _) = st.m.resolve_role(owner, id);
                let c = Call::ApproveAll { owner: o, operator: pick(*operator, N), live: resolve_live(e, live) };
                st.call(&c, auth, ctx, &what)?;
            }
            Op::Transfer { tok, from, to, auth } => {
                let id = st.m.resolve_tok(tok);
                let f = st.resolve_from(from, id, None);
                let c = Call::Transfer { from: f, to: st.resolve_to(to, id, f), id };
                st.call(&c, auth, ctx, &what)?;
            }
            Op::TransferFrom { tok, spender, from, to, auth } => {
                let id = st.m.resolve_tok(tok);
                let (sp, had) = st.m.resolve_role(spender, id);
                if had {
                    ctx.class(role_class(spender));
                }
                let f = st.resolve_from(from, id, Some(sp));
                let c = Call::TransferFrom { sp, from: f, to: st.resolve_to(to, id, sp), id };
                st.call(&c, auth, ctx, &what)?;
            }
            Op::Burn { tok, from, auth } => {
                let id = st.m.resolve_tok(tok);
                let c = Call::Burn { from: st.resolve_from(from, id, None), id };
                st.call(&c, auth, ctx, &what)?;
            }
            Op::BurnFrom { tok, spender, from, auth } => {
                let id = st.m.resolve_tok(tok);
                let (sp, had) = st.m.resolve_role(spender, id);
                if had {
                    ctx.class(role_class(spender));
                }
                let c = Call::BurnFrom { sp, from: st.resolve_from(from, id, Some(sp)), id };
                st.call(&c, auth, ctx, &what)?;
            }
            Op::ExpiryProbe { tok, who, k, d, operator, burn } => {
                let id = st.m.resolve_tok(tok);
                let Some(o) = st.m.owner.get(&id).copied() else { continue };
                let mut w = pick(*who, N);
                if w == o {
                    w = (w + 1) % N;
                }
                let now = envx::seq(e);
                let until = now + *k as u32;
                let c = if *operator {
                    Call::ApproveAll { owner: o, operator: w, live: until }
                } else {
                    Call::Approve { approver: o, approved: w, id, live: until }
                };
                st.call(&c, &AuthMode::Exact, ctx, &format!("{what} [grant until {until}]"))?;
                let target = until as i64 + *d as i64;
                if target > now as i64 {
                    envx::set_seq(e, target as u32);
                }
                st.check_state(&format!("{what} [ledger {}]", envx::seq(e)), "advance")?;
                ctx.class(match (envx::seq(e) as i64 - until as i64).signum() {
                    -1 => "expiry_probe_before",
                    0 => "expiry_probe_at",
                    _ => "expiry_probe_after",
                });
                let c = if *burn { Call::BurnFrom { sp: w, from: o, id } } else { Call::TransferFrom { sp: w, from: o, to: w, id } };
                st.call(&c, &AuthMode::Exact, ctx, &format!("{what} [use at ledger {}]", envx::seq(e)))?;
            }
            Op::RoundTrip { tok, via, approved } => {
                let id = st.m.resolve_tok(tok);
                let Some(o) = st.m.owner.get(&id).copied() else { continue };
                let now = envx::seq(e);
                // an account with a live approval that is neither the owner nor an operator of the owner
                let ap = match st.m.approved_live(id, now) {
                    Some(a) => a,
                    None => {
                        let a = pick(*approved, N);
                        let c = Call::Approve { approver: o, approved: a, id, live: now + 50 };
                        st.call(&c, &AuthMode::Exact, ctx, &format!("{what} [approve]"))?;
                        a
                    }
                };
                let mut v = pick(*via, N);
                if v == o {
                    v = (v + 1) % N;
                }
                st.call(&Call::Transfer { from: o, to: v, id }, &AuthMode::Exact, ctx, &format!("{what} [away]"))?;
                st.call(&Call::Transfer { from: v, to: o, id }, &AuthMode::Exact, ctx, &format!("{what} [back]"))?;
                ctx.class("roundtrip_probe");
                // the formerly approved account retries: allowed only if it has another, live title
                st.call(&Call::TransferFrom { sp: ap, from: o, to: ap, id }, &AuthMode::Exact, ctx, &format!("{what} [former approved retries]"))?;
            }
        }
    }
    if st.stale_rejected && st.live_accepted {
        ctx.nontrivial = true;
        ctx.class("nontrivial");
    }
    Ok(())
}

fn role_class(r: &Role) -> &'static str {
    match r {
        Role::Owner => "spender_owner",
        Role::Approved => "spender_approved",
        Role::Operator(_) => "spender_operator",
        Role::ForeignOperator(_) => "spender_foreign_operator",
        Role::FormerOwner(_) => "spender_former_owner",
        Role::FormerApproved(_) => "spender_former_approved",
        Role::Stranger(_) => "spender_stranger",
        Role::Any(_) => "spender_any",
    }
}

fn strat_base(tier: Tier) -> BoxedStrategy<Case> {
    strategy_kind(Kind::Base, tier)
}
fn strat_enum(tier: Tier) -> BoxedStrategy<Case> {
    strategy_kind(Kind::Enum, tier)
}
fn strat_cons(tier: Tier) -> BoxedStrategy<Case> {
    strategy_kind(Kind::Cons, tier)
}

pub fn property() -> Property {
    Property {
        id: "C11",
        rule: "case = (target: example or harness twin of base/enumerable/consecutive, start ledger, small/large max TTL, 1..3 initial mints, history \
               of <=35 (thorough 70) ops: approve / approve_for_all / revoke (live_until 0) / transfer / transfer_from / burn / burn_from / ledger \
               advance (also to each approval's expiry -1/0/+1) / round-trip probe; actors by role (owner, approved, operator, foreign operator, \
               former owner, former approved, stranger); auth modes Exact/Drop/Swap/Tamper/Surplus; live_until from the ledger lattice); \
               non-trivial = a stale claim (expired or cleared approval, former owner, expired or foreign operator) was exercised with exact \
               authorization and rejected AND a live approval/operator moved or burned a token; distinct = distinct serialised case",
        subs: vec![
            gen_sub::<Case>("base", 800, 15000, strat_base, run),
            gen_sub::<Case>("enumerable", 800, 15000, strat_enum, run),
            gen_sub::<Case>("consecutive", 800, 15000, strat_cons, run),
        ],
        floors: vec![
            ("nontrivial", 80, 1400),
            ("stale_claim_rejected", 300, 5000),
            ("moved_by_live_approved", 50, 900),
            ("moved_by_live_operator", 60, 1000),
            ("rejected:expired-approval", 30, 500),
            ("rejected:expired-operator", 60, 1000),
            ("rejected:cleared-approval", 120, 2000),
            ("rejected:operator-of-another-owner", 15, 250),
            ("expiry_probe_at", 50, 900),
            ("expiry_probe_after", 50, 900),
            ("approval_cleared_by_move", 300, 5000),
            ("rejected_only_for_missing_authorization", 300, 5000),
            ("roundtrip_probe", 150, 2500),
            ("approve_by_operator", 15, 250),
            ("approval_revoked", 40, 700),
            ("operator_revoked", 50, 900),
        ],
        assumptions: vec![
            "Soroban native test host (storage incl. temporary-entry TTL, rollback of failed invocations, auth matching) is trusted",
            "an approval / operator approval is live while ledger <= live_until_ledger (DESIGN §4 C11; the library getters' documented comparison)",
            "plain actors are contract addresses with an accept-all account contract: 'X authorized the call' == 'an entry of X for exactly this invocation is attached'",
        ],
    }
}

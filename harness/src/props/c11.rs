//! C11 — not implemented yet.
use crate::engine::*;

pub fn property() -> Property {
    Property { id: "C11", rule: "", subs: vec![], floors: vec![], assumptions: vec![] }
}

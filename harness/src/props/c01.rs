//! C01 — Fungible supply is conserved and reconstructible from events.
//! Oracle: after every step total_supply == Σ balances (BigInt), no negative balance,
//! supply delta by op kind, a failed call leaves the dump unchanged, and folding the
//! token's mint/burn/transfer events from genesis reproduces every balance.

use super::ftcore::*;
use crate::engine::*;
use crate::envx::{self, scval_i128, Ev};
use num_bigint::BigInt;
use proptest::prelude::*;
use serde::{Deserialize, Serialize};
use soroban_sdk::Address;

#[derive(Clone, Debug, Serialize, Deserialize)]
pub struct Case {
    pub flavor: Flavor,
    pub n: u8,
    pub seq: u32,
    pub small_ttl: bool,
    /// initial list membership bitmask (allow/block flavours)
    pub listed: u16,
    pub ops: Vec<Op>,
}

fn weights(f: Flavor) -> OpWeights {
    OpWeights {
        mint: if f.has_mint() { 5 } else { 0 },
        transfer: 6,
        transfer_from: 4,
        approve: 4,
        burn: if f.has_burn() { 3 } else { 0 },
        burn_from: if f.has_burn() { 3 } else { 0 },
        advance: 2,
        list: if f.has_list() { 2 } else { 0 },
        pause: if f.has_pause() { 1 } else { 0 },
        exact_auth: 30,
        spend_profile: false,
    }
}

fn strategy_for(f: Flavor, tier: Tier) -> BoxedStrategy<Case> {
    let max_ops = tier.pick(40usize, 80usize);
    let listed = if f.is_allow() {
        prop_oneof![3 => Just(0xffffu16), 1 => any::<u16>().prop_map(|x| x | 0x0f0f)].boxed()
    } else if f.is_block() {
        prop_oneof![3 => Just(0u16), 1 => any::<u16>().prop_map(|x| x & 0x1111)].boxed()
    } else {
        Just(0u16).boxed()
    };
    (2u8..=6, 100u32..5000, proptest::bool::weighted(0.3), listed, proptest::collection::vec(op_strategy(&weights(f)), 0..max_ops))
        .prop_map(move |(n, seq, small_ttl, listed, ops)| Case { flavor: f, n, seq, small_ttl, listed, ops })
        .boxed()
}

fn ev_amount(ev: &Ev) -> Option<i128> {
    if let Some(v) = ev.data_field("amount") {
        return scval_i128(&v);
    }
    scval_i128(&ev.data)
}

#[derive(Debug, Clone, PartialEq, Eq)]
enum SupplyEv {
    Mint(Address, i128),
    Burn(Address, i128),
    Transfer(Address, Address, i128),
}

fn supply_events(t: &Tok, evs: &[Ev]) -> Result<Vec<SupplyEv>, Violation> {
    let e = &t.e;
    let mut out = vec![];
    for ev in evs {
        let Some(name) = ev.topic_sym(0) else { continue };
        match name.as_str() {
            "mint" => {
                let (Some(to), Some(a)) = (ev.topic_addr(e, 1), ev_amount(ev)) else {
                    bail!("C01/events/malformed-mint", "cannot decode mint event {:?}", ev)
                };
                out.push(SupplyEv::Mint(to, a));
            }
            "burn" => {
                let (Some(from), Some(a)) = (ev.topic_addr(e, 1), ev_amount(ev)) else {
                    bail!("C01/events/malformed-burn", "cannot decode burn event {:?}", ev)
                };
                out.push(SupplyEv::Burn(from, a));
            }
            "transfer" => {
                let (Some(from), Some(to), Some(a)) = (ev.topic_addr(e, 1), ev.topic_addr(e, 2), ev_amount(ev)) else {
                    bail!("C01/events/malformed-transfer", "cannot decode transfer event {:?}", ev)
                };
                out.push(SupplyEv::Transfer(from, to, a));
            }
            _ => {}
        }
    }
    Ok(out)
}

struct Replay {
    holders: Vec<Address>,
    bal: Vec<BigInt>,
}
impl Replay {
    fn idx(&self, a: &Address) -> Option<usize> {
        self.holders.iter().position(|h| h == a)
    }
    fn apply(&mut self, ev: &SupplyEv) -> R {
        match ev {
            SupplyEv::Mint(to, a) => {
                let Some(i) = self.idx(to) else { bail!("C01/events/unknown-party", "mint event to unknown address") };
                self.bal[i] += BigInt::from(*a);
            }
            SupplyEv::Burn(from, a) => {
                let Some(i) = self.idx(from) else { bail!("C01/events/unknown-party", "burn event from unknown address") };
                self.bal[i] -= BigInt::from(*a);
            }
            SupplyEv::Transfer(from, to, a) => {
                let (Some(i), Some(j)) = (self.idx(from), self.idx(to)) else {
                    bail!("C01/events/unknown-party", "transfer event with unknown address")
                };
                self.bal[i] -= BigInt::from(*a);
                self.bal[j] += BigInt::from(*a);
            }
        }
        Ok(())
    }
}

fn check_state(t: &Tok, d: &Dump, rp: &Replay, step: &str) -> R {
    let sum: BigInt = d.bal.iter().map(|b| BigInt::from(*b)).sum();
    ensure!(
        sum == BigInt::from(d.supply),
        "C01/invariant/supply-ne-sum",
        "after {step}: total_supply {} != sum of balances {} ({:?})",
        d.supply,
        sum,
        d.bal
    );
    for (i, b) in d.bal.iter().enumerate() {
        ensure!(*b >= 0, "C01/invariant/negative-balance", "after {step}: balance[{i}] = {b}");
    }
    for (i, b) in d.bal.iter().enumerate() {
        ensure!(
            rp.bal[i] == BigInt::from(*b),
            "C01/events/replay-mismatch",
            "after {step}: event replay gives balance[{i}] = {} but contract reports {}",
            rp.bal[i],
            b
        );
    }
    // public entry points agree with the bulk read
    let s = t.api_supply().map_err(|e| violation("C01/api/total_supply-failed", e))?;
    ensure!(s == d.supply, "C01/api/total_supply-mismatch", "entry point {} vs storage {}", s, d.supply);
    Ok(())
}

pub fn run(case: &Case, ctx: &mut Ctx) -> R {
    let max_ttl = if case.small_ttl { 600 } else { envx::BIG_TTL };
    let t = Tok::setup(case.flavor, case.n as usize, case.seq, max_ttl);
    let e = &t.e;
    let holders = t.holders();
    let mut rp = Replay { holders: holders.clone(), bal: vec![BigInt::from(0); holders.len()] };

    // genesis: constructor events (examples mint an initial supply)
    let gen_evs = supply_events(&t, &envx::events_of(e, &t.addr))?;
    for ev in &gen_evs {
        rp.apply(ev)?;
    }
    let mut d = t.dump();
    check_state(&t, &d, &rp, "genesis")?;

    // initial list membership (set-up, exact auth)
    if case.flavor.has_list() {
        t.setup_lists(case.listed).map_err(|er| violation("C01/setup/list", er))?;
        d = t.dump();
    }

    let mut ok_supply_change = false;
    let mut ok_transfer = false;
    let mut failed = false;
    let mut hist = Hist::default();

    for (step, op) in case.ops.iter().enumerate() {
        let r = match t.resolve(op, &d, &mut hist) {
            Step::Advanced => {
                d = t.dump();
                check_state(&t, &d, &rp, "advance")?;
                continue;
            }
            Step::Skipped => {
                ctx.class("skipped_op");
                continue;
            }
            Step::Call(r) => r,
        };
        let amount = r.amount;
        if r.muxed {
            ctx.class("muxed_destination");
        }
        if matches!(r.kind, Kind::Transfer | Kind::TransferFrom) && r.from == r.to {
            ctx.class("self_transfer");
        }
        let is_amount_op = !matches!(r.kind, Kind::List | Kind::Pause);
        if is_amount_op && amount == 0 {
            ctx.class("zero_amount");
        }
        if is_amount_op && amount < 0 {
            ctx.class("negative_amount");
        }
        if r.kind == Kind::Mint && amount > 0 && amount.checked_add(d.supply).is_none() {
            ctx.class("overflow_attempt");
        }

        let (res, _exact) = exec(&t, &r.call, &r.mode);
        let evs = if res.is_ok() { supply_events(&t, &envx::events_of(e, &t.addr))? } else { vec![] };
        let d2 = t.dump();
        ctx.op(res.is_ok());
        let what = format!("step {step} {}({:?})", r.call.func, op);
        match &res {
            Err(_) => {
                failed = true;
                ensure!(
                    d2 == d,
                    "C01/failed-call/state-changed",
                    "{what} failed but the state changed: before {:?} after {:?}",
                    d,
                    d2
                );
            }
            Ok(_) => {
                let delta = BigInt::from(d2.supply) - BigInt::from(d.supply);
                let (want_delta, clause) = match r.kind {
                    Kind::Mint => (BigInt::from(amount), "C01/mint/supply-delta"),
                    Kind::Burn | Kind::BurnFrom => (-BigInt::from(amount), "C01/burn/supply-delta"),
                    Kind::Transfer | Kind::TransferFrom => (BigInt::from(0), "C01/transfer/supply-changed"),
                    _ => (BigInt::from(0), "C01/other/supply-changed"),
                };
                ensure!(delta == want_delta, clause, "{what}: supply moved by {delta}, expected {want_delta}");
                // exactly one matching event per successful supply/transfer op
                let h = |i: Option<usize>| holders[i.unwrap()].clone();
                let want_ev: Vec<SupplyEv> = match r.kind {
                    Kind::Mint => vec![SupplyEv::Mint(h(r.to), amount)],
                    Kind::Burn | Kind::BurnFrom => vec![SupplyEv::Burn(h(r.from), amount)],
                    Kind::Transfer | Kind::TransferFrom => vec![SupplyEv::Transfer(h(r.from), h(r.to), amount)],
                    _ => vec![],
                };
                ensure!(
                    evs == want_ev,
                    "C01/events/wrong-events",
                    "{what}: emitted supply events {:?}, expected {:?}",
                    evs,
                    want_ev
                );
                for ev in &evs {
                    rp.apply(ev)?;
                }
                match r.kind {
                    Kind::Mint | Kind::Burn | Kind::BurnFrom => ok_supply_change = true,
                    Kind::Transfer | Kind::TransferFrom => ok_transfer = true,
                    _ => {}
                }
            }
        }
        check_state(&t, &d2, &rp, &what)?;
        // entry-point reads of the touched parties
        if is_amount_op && r.kind != Kind::Approve {
            for i in [r.from, r.to].into_iter().flatten() {
                let b = t.api_balance(&holders[i]).map_err(|er| violation("C01/api/balance-failed", er))?;
                ensure!(b == d2.bal[i], "C01/api/balance-mismatch", "{what}: balance() = {b}, storage read = {}", d2.bal[i]);
            }
        }
        d = d2;
    }
    // final full entry-point sweep
    for (i, h) in holders.iter().enumerate() {
        let b = t.api_balance(h).map_err(|er| violation("C01/api/balance-failed", er))?;
        ensure!(b == d.bal[i], "C01/api/balance-mismatch", "final: balance() = {b}, storage read = {}", d.bal[i]);
    }
    let supply_ops_exist = case.flavor.has_mint() || case.flavor.has_burn();
    if (ok_supply_change || !supply_ops_exist) && ok_transfer && failed {
        ctx.nontrivial = true;
        ctx.class("nontrivial");
    }
    Ok(())
}

macro_rules! flavor_sub {
    ($name:expr, $f:expr, $q:expr, $t:expr) => {{
        fn strat(tier: Tier) -> BoxedStrategy<Case> {
            strategy_for($f, tier)
        }
        gen_sub::<Case>($name, $q, $t, strat, run)
    }};
}

pub fn property() -> Property {
    Property {
        id: "C01",
        rule: "case = (flavour, 2..6 accounts, start ledger, history of <=40 (thorough 80) generated ops with state-relative amounts and auth modes); \
               non-trivial = contains >=1 successful mint/burn, >=1 successful transfer/transfer_from and >=1 failed call; distinct = distinct serialised case",
        subs: vec![
            flavor_sub!("plain", Flavor::Plain, 2000, 40000),
            flavor_sub!("allow", Flavor::Allow, 1500, 30000),
            flavor_sub!("block", Flavor::Block, 1500, 30000),
            flavor_sub!("votes", Flavor::Votes, 1500, 30000),
            flavor_sub!("ex-pausable", Flavor::ExPausable, 800, 16000),
            flavor_sub!("ex-capped", Flavor::ExCapped, 800, 16000),
            flavor_sub!("ex-allowlist", Flavor::ExAllow, 800, 16000),
            flavor_sub!("ex-blocklist", Flavor::ExBlock, 800, 16000),
            flavor_sub!("ex-votes", Flavor::ExVotes, 800, 16000),
            gen_sub::<super::vaultx::VxCase>("vault", 1200, 24000, super::vaultx::strategy_c01, super::vaultx::run_c01),
            gen_sub::<super::c01rwa::RwCase>("rwa", 1200, 24000, super::c01rwa::strategy, super::c01rwa::run),
        ],
        floors: vec![("nontrivial", 400, 8000), ("self_transfer", 500, 10000), ("zero_amount", 1000, 20000), ("overflow_attempt", 80, 1600), ("muxed_destination", 150, 3000)],
        assumptions: vec![
            "Soroban native test host (storage, rollback of failed invocations, auth matching, events) is trusted",
            "accounts are the generated actors plus one account-typed sink; balances of other addresses are not summed",
        ],
    }
}

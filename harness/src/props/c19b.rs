//! C19 supplement — the low-level `collect_fee` helper used directly by a forwarder-like contract
//! (`contracts::c19::direct::Direct`).  Through `collect_fee_and_invoke` the documented `InvalidUser` refusal
//! (user == the forwarding contract) cannot be told apart from the failing user authorization - a contract address
//! cannot authorize in its own frame - so the case "user equal to the forwarder" of the property's domain is decided
//! here, where the only authorization in play is the token's own: the forwarder is the direct invoker of
//! `approve`/`transfer_from`, which would let it charge ITSELF without anybody's consent if the helper did not refuse.
//!
//! Oracle (explicit model of the library token's allowance rules, checked in both directions):
//!   refuse  <= user == forwarder | fee <= 0 | fee > max | operator entry missing
//!            | approve needed (eager, or lazy with live allowance < max) and (user's approve entry missing or
//!              expiration < now or > max live-until) | expiration < now (also when no approve is needed)
//!            | balance(user) < fee
//!   success => user - fee, recipient + fee (net of user == recipient), allowance = (approved ? max : previous) - fee,
//!              nobody else moves; a refused call changes nothing.
use crate::contracts::c19::direct::Direct;
use crate::contracts::ft::ft_base::FtBase;
use crate::engine::*;
use crate::envx::{self, call, call_t, Inv};
use proptest::prelude::*;
use serde::{Deserialize, Serialize};
use soroban_sdk::{Address, Val};

#[derive(Clone, Debug, Serialize, Deserialize)]
pub enum Payer {
    /// the forwarding contract itself
    Forwarder,
    /// an ordinary user
    User,
}
#[derive(Clone, Debug, Serialize, Deserialize)]
pub struct Step {
    pub payer: Payer,
    pub eager: bool,
    pub fee: i64,
    pub max: i64,
    /// expiration relative to the current ledger (negative = already passed)
    pub exp_off: i32,
    /// attach the user's entry for the token's `approve` (exactly the arguments the helper will use)
    pub user_entry: bool,
    pub operator_entry: bool,
    /// recipient: 0 = third party, 1 = the user, 2 = the forwarder
    pub recipient: u8,
    /// ledgers to advance before the step
    pub advance: u16,
}
#[derive(Clone, Debug, Serialize, Deserialize)]
pub struct Case {
    pub fund_user: i64,
    pub fund_fwd: i64,
    /// allowance(user -> forwarder) installed up front: (amount, lifetime in ledgers)
    pub pre_allow: Option<(i64, u16)>,
    pub steps: Vec<Step>,
}

pub fn strategy(tier: Tier) -> BoxedStrategy<Case> {
    let amt = prop_oneof![4 => 1i64..40, 1 => Just(0i64), 1 => -3i64..0, 1 => 40i64..2000];
    let step = (
        prop_oneof![3 => Just(Payer::User), 2 => Just(Payer::Forwarder)],
        any::<bool>(),
        amt.clone(),
        amt,
        prop_oneof![6 => 0i32..400, 1 => Just(0i32), 1 => -5i32..0],
        proptest::bool::weighted(0.8),
        proptest::bool::weighted(0.9),
        prop_oneof![4 => Just(0u8), 1 => Just(1u8), 1 => Just(2u8)],
        prop_oneof![3 => Just(0u16), 2 => 1u16..50, 1 => 50u16..500],
    )
        .prop_map(|(payer, eager, fee, max, exp_off, user_entry, operator_entry, recipient, advance)| Step {
            payer,
            eager,
            fee,
            max,
            exp_off,
            user_entry,
            operator_entry,
            recipient,
            advance,
        })
        ;
    // most fees fit the maximum
    let step = (step, any::<u8>()).prop_map(|(mut s, r)| {
        if r < 170 && s.max > 0 {
            s.fee = 1 + (r as i64 % s.max);
        }
        s
    });
    (
        prop_oneof![4 => 0i64..3000, 1 => Just(0i64)],
        prop_oneof![4 => 1i64..3000, 1 => Just(0i64)],
        proptest::option::weighted(0.5, (0i64..2500, 0u16..300)),
        proptest::collection::vec(step, 1..tier.pick(8usize, 16usize)),
    )
        .prop_map(|(fund_user, fund_fwd, pre_allow, steps)| Case { fund_user, fund_fwd, pre_allow, steps })
        .boxed()
}

fn bal(e: &soroban_sdk::Env, t: &Address, a: &Address) -> Result<i128, Violation> {
    call_t::<i128>(e, t, "balance", args![e; a.clone()]).map_err(|er| violation("C19/direct/getter-failed", er))
}
fn alw(e: &soroban_sdk::Env, t: &Address, o: &Address, s: &Address) -> Result<i128, Violation> {
    call_t::<i128>(e, t, "allowance", args![e; o.clone(), s.clone()]).map_err(|er| violation("C19/direct/getter-failed", er))
}

pub fn run(case: &Case, ctx: &mut Ctx) -> R {
    let e = envx::new_env(1000, envx::BIG_TTL);
    let admin = envx::actor(&e);
    let operator = envx::actor(&e);
    let user = envx::actor(&e);
    let third = envx::actor(&e);
    let token = e.register(FtBase, (admin.clone(),));
    let fwd = e.register(Direct, (operator.clone(),));
    for (who, amt) in [(&user, case.fund_user), (&fwd, case.fund_fwd)] {
        if amt > 0 {
            let a = args![&e; who.clone(), amt as i128];
            envx::set_auth(&e, &[(&admin, &Inv::new(&token, "mint", a.clone()))]);
            call(&e, &token, "mint", a).map_err(|er| violation("C19/direct/setup", er))?;
        }
    }
    // model of allowance(user -> fwd): (amount, live_until)
    let mut m_allow: (i128, u32) = (0, 0);
    if let Some((amt, life)) = case.pre_allow {
        let live = envx::seq(&e) + life as u32;
        let a = args![&e; user.clone(), fwd.clone(), amt as i128, live];
        envx::set_auth(&e, &[(&user, &Inv::new(&token, "approve", a.clone()))]);
        call(&e, &token, "approve", a).map_err(|er| violation("C19/direct/setup", er))?;
        m_allow = (amt as i128, live);
    }
    envx::no_auth(&e);
    let mut m_bal = [case.fund_user.max(0) as i128, case.fund_fwd.max(0) as i128, 0i128]; // user, fwd, third
    let (mut self_refused, mut ok_user, mut refused_user) = (0u32, 0u32, 0u32);
    for (i, s) in case.steps.iter().enumerate() {
        if s.advance > 0 {
            envx::advance(&e, s.advance as u32);
        }
        let now = envx::seq(&e);
        let max_live = e.ledger().max_live_until_ledger();
        let exp: u32 = if s.exp_off >= 0 { now + s.exp_off as u32 } else { now.saturating_sub((-s.exp_off) as u32) };
        let payer = match s.payer {
            Payer::Forwarder => fwd.clone(),
            Payer::User => user.clone(),
        };
        let recipient = [third.clone(), user.clone(), fwd.clone()][(s.recipient % 3) as usize].clone();
        let (fee, max) = (s.fee as i128, s.max as i128);
        let a: soroban_sdk::Vec<Val> = args![&e; token.clone(), fee, max, exp, payer.clone(), recipient.clone(), s.eager];
        let mut entries = vec![];
        if s.operator_entry {
            entries.push(envx::entry(&e, &operator, &Inv::new(&fwd, "collect", a.clone())));
        }
        if s.user_entry {
            entries.push(envx::entry(&e, &user, &Inv::new(&token, "approve", args![&e; user.clone(), fwd.clone(), max, exp])));
        }
        envx::set_entries(&e, &entries);
        let before = (bal(&e, &token, &user)?, bal(&e, &token, &fwd)?, bal(&e, &token, &third)?, alw(&e, &token, &user, &fwd)?);
        envx::set_entries(&e, &entries);
        let r = call(&e, &fwd, "collect", a);
        envx::no_auth(&e);
        ctx.op(r.is_ok());
        let after = (bal(&e, &token, &user)?, bal(&e, &token, &fwd)?, bal(&e, &token, &third)?, alw(&e, &token, &user, &fwd)?);
        // ---- model
        let live_allow = if m_allow.1 >= now { m_allow.0 } else { 0 };
        ensure!(before == (m_bal[0], m_bal[1], m_bal[2], live_allow), "C19/direct/model-drift", "step {i}: observed {:?}, model {:?} allowance {live_allow}", before, m_bal);
        let is_self = matches!(s.payer, Payer::Forwarder);
        let mut why: Vec<&str> = vec![];
        if !s.operator_entry {
            why.push("no-operator-entry");
        }
        if is_self {
            why.push("user-is-forwarder");
        }
        if fee <= 0 || fee > max {
            why.push("fee-bounds");
        }
        let needs_approve = s.eager || live_allow < max;
        if !is_self && needs_approve {
            if !s.user_entry {
                why.push("no-user-approve-entry");
            }
            if max < 0 || exp > max_live || (max > 0 && exp < now) {
                why.push("bad-expiration");
            }
        }
        if !is_self && !needs_approve && exp < now {
            // lazy strategy with a sufficient allowance: the helper itself validates the expiration (InvalidExpirationLedger)
            why.push("bad-expiration");
        }
        if !is_self && m_bal[0] < fee {
            why.push("insufficient-balance");
        }
        if r.is_ok() {
            ensure!(!is_self, "C19/collect_fee/forwarder-charged-itself", "step {i} {:?}: collect_fee accepted user == the forwarding contract (documented InvalidUser); forwarder balance {} -> {}", s, before.1, after.1);
            ensure!(why.is_empty(), "C19/collect_fee/accepted-against-model", "step {i} {:?}: succeeded although {:?}; before {:?}", s, why, before);
            // effects
            m_bal[0] -= fee;
            match s.recipient % 3 {
                0 => m_bal[2] += fee,
                1 => m_bal[0] += fee,
                _ => m_bal[1] += fee,
            }
            if needs_approve {
                m_allow = (max - fee, exp);
            } else {
                m_allow.0 -= fee;
            }
            let la = if m_allow.1 >= now { m_allow.0 } else { 0 };
            ensure!(after == (m_bal[0], m_bal[1], m_bal[2], la), "C19/collect_fee/wrong-effects", "step {i} {:?}: after {:?}, expected balances {:?} allowance {la}; before {:?}", s, after, m_bal, before);
            ok_user += 1;
            ctx.class(if needs_approve { if s.eager { "direct_ok:eager" } else { "direct_ok:lazy-approved" } } else { "direct_ok:lazy-allowance" });
        } else {
            ensure!(after == before, "C19/collect_fee/refused-with-effect", "step {i} {:?}: refused ({:?}) but state moved {:?} -> {:?}", s, r, before, after);
            ensure!(!why.is_empty(), "C19/collect_fee/refused-against-model", "step {i} {:?}: refused ({:?}) although every condition holds; before {:?}", s, r, before);
            if why == ["user-is-forwarder"] {
                // the forwarder had funds to pay with: the refusal is the helper's own
                if m_bal[1] >= fee {
                    self_refused += 1;
                    ctx.class(if s.eager { "direct_self_refused_only:eager" } else { "direct_self_refused_only:lazy" });
                }
            } else if !is_self {
                refused_user += 1;
                if why.len() == 1 {
                    ctx.class(&format!("direct_refused_only:{}", why[0]));
                }
            }
        }
    }
    if self_refused >= 1 && ok_user >= 1 && refused_user >= 1 {
        ctx.nontrivial = true;
        ctx.class("nontrivial_direct");
    }
    Ok(())
}

pub const FLOORS: &[(&str, u64, u64)] = &[
    ("nontrivial_direct", 20, 200),
    ("direct_self_refused_only:eager", 40, 400),
    ("direct_self_refused_only:lazy", 40, 400),
    ("direct_ok:eager", 40, 400),
    ("direct_ok:lazy-approved", 20, 200),
    ("direct_ok:lazy-allowance", 10, 100),
];

// ------------------------------------------------------------------ guards of the permissioned forwarder
// examples/fee-forwarder-permissioned is anchored in C19: its role guards (`forward` by an executor, the allow-list and
// `sweep_tokens` by the manager) are audited by the table-driven guard audit of props/c06b.rs, restricted to this example
// and reported under C19 (a fee token is accepted / the collected fees leave the forwarder only with the manager's consent).
pub fn guards_strategy(_tier: Tier) -> BoxedStrategy<super::c06b::GCase> {
    super::c06b::strategy_for_example("fee-forwarder-permissioned")
}
pub fn run_guards(case: &super::c06b::GCase, ctx: &mut Ctx) -> R {
    super::c06b::run(case, ctx).map_err(|mut v| {
        v.signature = v.signature.replacen("C06/example-guards/", "C19/guards/", 1);
        v
    })
}
pub const GUARD_FLOORS: &[(&str, u64, u64)] = &[
    ("eg_exact_ok:fee-forwarder-permissioned.forward", 20, 200),
    ("eg_exact_ok:fee-forwarder-permissioned.enable_fee_token", 20, 200),
    ("eg_exact_ok:fee-forwarder-permissioned.disable_fee_token", 20, 200),
    ("eg_exact_ok:fee-forwarder-permissioned.sweep_tokens", 20, 200),
    ("eg:fee-forwarder-permissioned.sweep_tokens:stranger-signs", 5, 50),
];

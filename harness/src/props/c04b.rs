//! C04, sub-check `real-idv`: the RWA token wired to the library's REAL identity verifier
//! (claim-topics-and-issuers registry, identity registry storage, on-chain identities holding
//! claims, scriptable claim issuers), several required topics and issuers.  The gate under test:
//! a holder-initiated movement succeeds only if BOTH parties pass identity verification, mint only
//! for a verified recipient — where "verified" is re-derived from the statement on the observed
//! registry state.  (Added after seeded change C04-m2: `verify_identity` returning after the first
//! satisfied topic was invisible to the mock-verifier sub-check.)
//!
//! Extension (recovery through the real identity stack): the history also contains
//! `RecoverIdentity{old,new}` on the identity registry storage (library `recover_identity`, which
//! registers the recovery link old -> new and moves the identity), `RecoverBalance{old,new}` on the token
//! (`RWA::recover_balance` behind the operator check; the token asks the library verifier's
//! `recovery_target`, which asks the registry storage), partial / address freezes by the operator and
//! `Register` (a wallet without identity is linked to one of the identities).  Model of "registered
//! recovery target of `old`": the pair last registered through a successful `recover_identity(old, _)`.
//! Oracle for `recover_balance` (docs of `RWA::recover_balance`): succeeds only towards the registered
//! target and only for a verified new account; under exact operator authorization with both conditions
//! true it must succeed; it returns `true` iff the old balance was positive, then the WHOLE balance, the
//! partially frozen amount and the address flag are found on the new account and the old one holds
//! nothing (whether the emptied old wallet stays flagged is not documented: not asserted); a refused call
//! changes nothing and notifies nobody.  Compliance notifications of a successful recovery are not
//! documented by `recover_balance`: counted, not asserted.  After every step: observed balances / frozen
//! amounts / address flags equal the model, `0 <= frozen <= balance`, supply = sum of balances.

use crate::contracts::c04::{mock_compliance, mock_compliance::MockCompliance, mock_compliance::Note, rwa_tok::RwaTok};
use crate::contracts::c15::verifier::IdVerifier;
use crate::contracts::c20::{cti::Cti, ident::Ident, irs::Irs, issuer_mock::IssuerMock};
use crate::engine::*;
use crate::envx::{self, call, Inv};
use crate::gen::pick;
use proptest::prelude::*;
use serde::{Deserialize, Serialize};
use soroban_sdk::{symbol_short, Address, Bytes, Env, IntoVal, Map, String as SString, TryFromVal, Val, Vec as SVec};
use std::collections::{BTreeMap, BTreeSet};
use stellar_tokens::fungible::Base;
use stellar_tokens::rwa::identity_registry_storage::{CountryData, CountryRelation, IdentityType, IndividualCountryRelation};
use stellar_tokens::rwa::RWA;

const TOPICS: [u32; 3] = [1, 2, 7];
/// on-chain identities (identity `i` initially belongs to account `i`)
const N_ID: usize = 3;
/// accounts: 3 investors + 3 spare wallets without an identity (recovery destinations)
const N_ACC: usize = 6;
const N_ISS: usize = 2;
/// account selector of mint / transfer: investors 3/4 of the time, a spare wallet 1/4
const ACC_TABLE: [usize; 12] = [0, 0, 0, 1, 1, 1, 2, 2, 2, 3, 4, 5];

/// investors by the table; a spare-wallet slot is resolved onto the spare wallets that currently have an
/// identity (recovered-to or registered wallets) when there are any
fn acct_of(sel: u16, ident_of: &[Option<usize>]) -> usize {
    let k = pick(sel, ACC_TABLE.len());
    let a = ACC_TABLE[k];
    if a < N_ID {
        return a;
    }
    let live: Vec<usize> = (N_ID..N_ACC).filter(|x| ident_of[*x].is_some()).collect();
    if live.is_empty() {
        a
    } else {
        live[(a - N_ID) * live.len() / (N_ACC - N_ID)]
    }
}
/// a selector that `acct_of` maps onto investor `k`
fn sel_of_investor(k: usize) -> u16 {
    (((3 * k + 1) << 16) / ACC_TABLE.len() + 64) as u16
}

/// authorization of an operator call
#[derive(Clone, Debug, Serialize, Deserialize, PartialEq, Eq)]
pub enum OpAuth {
    Exact,
    /// operator = admin, but no authorization entry
    NoAuth,
    /// an account names itself as operator and authorizes the call
    Impostor(u16),
}

/// old account of a balance recovery, resolved against the model at execution time
#[derive(Clone, Debug, Serialize, Deserialize)]
pub enum RecOld {
    /// an account with a registered recovery link (preferably one still holding tokens); `Any` if there is none
    Linked(u16),
    /// an account without a recovery link (preferably one holding tokens)
    Unlinked(u16),
    Any(u16),
}

/// new account of a balance recovery
#[derive(Clone, Debug, Serialize, Deserialize)]
pub enum RecNew {
    /// the registered target of the old account (`Any` if there is none)
    Target(u16),
    /// an account that is NOT the registered target of the old account, preferably one that passes verification
    OtherVerified(u16),
    Any(u16),
}

#[derive(Clone, Debug, Serialize, Deserialize)]
pub enum IdvOp {
    Mint { to: u16, amt: u16 },
    Transfer { from: u16, to: u16, frac: u8 },
    TransferFrom { spender: u16, from: u16, to: u16, frac: u8 },
    /// issuer says (in)valid for a topic from now on
    SetValid { issuer: u8, topic: u8, valid: bool },
    /// `acct` = index of the on-chain identity
    AddClaim { acct: u8, issuer: u8, topic: u8 },
    RemoveClaim { acct: u8, issuer: u8, topic: u8 },
    AddTopic(u8),
    RemoveTopic(u8),
    /// add / replace / remove the issuer's trusted topic set (mask over TOPICS; 0 = remove issuer)
    SetIssuerTopics { issuer: u8, mask: u8 },
    /// `recover_identity(old, new)` on the identity registry storage.  `fresh`: old = an account with an identity
    /// (preferably holding tokens), new = a wallet without identity that was never recovered; otherwise raw picks.
    RecoverIdentity { old: u16, new: u16, fresh: bool },
    /// `recover_balance(old, new, operator)` on the token.  `prep`: an operator freeze right before it
    /// (0 none, 1 address flag on old, 2 half of the free tokens of old, 3 address flag on new, 4 half of the free tokens of new)
    RecoverBalance { old: RecOld, new: RecNew, auth: OpAuth, prep: u8 },
    /// operator freezes `frac`/4 of the free balance of a holder
    FreezePartial { acct: u16, frac: u8 },
    SetAddressFrozen { acct: u16, on: bool },
    /// `add_identity(account, identity)` for a wallet
    Register { acct: u16, ident: u8 },
}

#[derive(Clone, Debug, Serialize, Deserialize)]
pub struct IdvCase {
    /// required topics (mask over TOPICS)
    pub topics: u8,
    /// topics each issuer is trusted for
    pub issuer_topics: [u8; N_ISS],
    /// claims held: [identity][issuer] = mask over TOPICS
    pub claims: [[u8; N_ISS]; N_ID],
    /// investor accounts with a registered identity (mask over the first N_ID accounts)
    pub registered: u8,
    pub ops: Vec<IdvOp>,
}

pub fn strategy(tier: Tier) -> BoxedStrategy<IdvCase> {
    let op_auth = || prop_oneof![12 => Just(OpAuth::Exact), 1 => Just(OpAuth::NoAuth), 1 => any::<u16>().prop_map(OpAuth::Impostor)];
    let rec = prop_oneof![
        6 => (any::<u16>(), any::<u16>()).prop_map(|(o, n)| (RecOld::Linked(o), RecNew::Target(n))),
        2 => (any::<u16>(), any::<u16>()).prop_map(|(o, n)| (RecOld::Linked(o), RecNew::OtherVerified(n))),
        2 => (any::<u16>(), any::<u16>()).prop_map(|(o, n)| (RecOld::Unlinked(o), RecNew::OtherVerified(n))),
        1 => (any::<u16>(), any::<u16>()).prop_map(|(o, n)| (RecOld::Any(o), RecNew::Any(n))),
    ];
    let op = prop_oneof![
        4 => (any::<u16>(), 1u16..500).prop_map(|(to, amt)| IdvOp::Mint { to, amt }),
        6 => (any::<u16>(), any::<u16>(), 1u8..=4).prop_map(|(from, to, frac)| IdvOp::Transfer { from, to, frac }),
        3 => (any::<u16>(), any::<u16>(), any::<u16>(), 1u8..=4).prop_map(|(spender, from, to, frac)| IdvOp::TransferFrom { spender, from, to, frac }),
        3 => (0u8..N_ISS as u8, 0u8..3, any::<bool>()).prop_map(|(issuer, topic, valid)| IdvOp::SetValid { issuer, topic, valid }),
        3 => (0u8..N_ID as u8, 0u8..N_ISS as u8, 0u8..3).prop_map(|(acct, issuer, topic)| IdvOp::AddClaim { acct, issuer, topic }),
        3 => (0u8..N_ID as u8, 0u8..N_ISS as u8, 0u8..3).prop_map(|(acct, issuer, topic)| IdvOp::RemoveClaim { acct, issuer, topic }),
        1 => (0u8..3).prop_map(IdvOp::AddTopic),
        1 => (0u8..3).prop_map(IdvOp::RemoveTopic),
        2 => (0u8..N_ISS as u8, 0u8..8).prop_map(|(issuer, mask)| IdvOp::SetIssuerTopics { issuer, mask }),
        4 => (any::<u16>(), any::<u16>(), proptest::bool::weighted(0.85)).prop_map(|(old, new, fresh)| IdvOp::RecoverIdentity { old, new, fresh }),
        6 => (rec, op_auth(), prop_oneof![6 => Just(0u8), 1 => Just(1u8), 1 => Just(2u8), 1 => Just(3u8), 1 => Just(4u8)]).prop_map(|((old, new), auth, prep)| IdvOp::RecoverBalance { old, new, auth, prep }),
        2 => (any::<u16>(), 1u8..=4).prop_map(|(acct, frac)| IdvOp::FreezePartial { acct, frac }),
        1 => (any::<u16>(), proptest::bool::weighted(0.6)).prop_map(|(acct, on)| IdvOp::SetAddressFrozen { acct, on }),
        1 => (any::<u16>(), 0u8..N_ID as u8).prop_map(|(acct, ident)| IdvOp::Register { acct, ident }),
    ];
    // mostly two or three required topics, issuers trusted for most of them, most claims present
    let mostly = |p: f64| proptest::collection::vec(proptest::bool::weighted(p), 3).prop_map(|v| v.iter().enumerate().fold(0u8, |m, (i, b)| m | ((*b as u8) << i)));
    // the history mostly opens with mint attempts to the investors (they pass the same oracle as any other mint)
    let funding = proptest::collection::vec(proptest::option::weighted(0.7, 1u16..500), N_ID);
    // ... and, in 2 of 5 cases, continues with the registration of a recovery pair (so that later recoveries find one)
    let early_pair = proptest::option::weighted(0.4, (any::<u16>(), any::<u16>()));
    (
        mostly(0.8),
        [mostly(0.75), mostly(0.6)],
        [[mostly(0.8), mostly(0.5)], [mostly(0.8), mostly(0.5)], [mostly(0.7), mostly(0.4)]],
        prop_oneof![4 => Just(0b111u8), 1 => 0u8..8],
        funding,
        early_pair,
        proptest::collection::vec(op, 3..tier.pick(30usize, 60usize)),
    )
        .prop_map(|(topics, issuer_topics, claims, registered, funding, early_pair, tail)| {
            let mut ops: Vec<IdvOp> = funding.iter().enumerate().filter_map(|(k, a)| a.map(|amt| IdvOp::Mint { to: sel_of_investor(k), amt })).collect();
            if let Some((old, new)) = early_pair {
                ops.push(IdvOp::RecoverIdentity { old, new, fresh: true });
            }
            ops.extend(tail);
            IdvCase { topics, issuer_topics, claims, registered, ops }
        })
        .boxed()
}

/// token state of all accounts, as observed / as the model says
#[derive(Clone, Debug, PartialEq, Eq)]
struct Obs {
    supply: i128,
    bal: Vec<i128>,
    frozen: Vec<i128>,
    addr_frozen: Vec<bool>,
}

struct W {
    e: Env,
    admin: Address,
    tok: Address,
    cti: Address,
    irs: Address,
    idv: Address,
    comp: Address,
    accts: Vec<Address>,
    idents: Vec<Address>,
    issuers: Vec<Address>,
    /// claims the identities hold (successful add_claim not since removed): (identity, issuer, topic index)
    claims: BTreeSet<(usize, usize, usize)>,
    /// what each issuer currently answers per topic index (default valid)
    valid: BTreeMap<(usize, usize), bool>,
    /// identity (index) linked to each account in the identity registry storage
    ident_of: Vec<Option<usize>>,
    /// registered recovery target per old account: the pair last registered through `recover_identity`
    link: BTreeMap<usize, usize>,
}

fn topics_vec(e: &Env, mask: u8) -> SVec<u32> {
    let mut v = SVec::new(e);
    for (i, t) in TOPICS.iter().enumerate() {
        if (mask >> i) & 1 == 1 {
            v.push_back(*t);
        }
    }
    v
}

fn country_list(e: &Env) -> SVec<CountryData> {
    let mut cds: SVec<CountryData> = SVec::new(e);
    cds.push_back(CountryData { country: CountryRelation::Individual(IndividualCountryRelation::Residence(840)), metadata: None });
    cds
}

/// `sel` over `preferred` (weight 4 each) followed by `all` (weight 1 each); `None` when both are empty
fn pick_pref(sel: u16, preferred: &[usize], all: &[usize]) -> Option<usize> {
    let n = 4 * preferred.len() + all.len();
    if n == 0 {
        return None;
    }
    let k = pick(sel, n);
    Some(if k < 4 * preferred.len() { preferred[k / 4] } else { all[k - 4 * preferred.len()] })
}

impl W {
    /// observed registry: required topic -> trusted issuers (indices); None if the getter fails
    fn registry(&self) -> Option<BTreeMap<u32, Vec<usize>>> {
        let m: Map<u32, SVec<Address>> = envx::call_t(&self.e, &self.cti, "get_claim_topics_and_issuers", args![&self.e]).ok()?;
        let mut out = BTreeMap::new();
        for (t, iss) in m.iter() {
            let idx: Vec<usize> = iss.iter().filter_map(|a| self.issuers.iter().position(|x| *x == a)).collect();
            out.insert(t, idx);
        }
        Some(out)
    }
    /// "verified" per the statement, on the observed registry
    fn id_ok(&self, a: usize, reg: &BTreeMap<u32, Vec<usize>>) -> bool {
        let Some(id) = self.ident_of[a] else {
            return false;
        };
        reg.iter().all(|(t, issuers)| {
            let ti = TOPICS.iter().position(|x| x == t).unwrap();
            issuers.iter().any(|i| self.claims.contains(&(id, *i, ti)) && *self.valid.get(&(*i, ti)).unwrap_or(&true))
        })
    }
    fn add_claim(&mut self, a: usize, i: usize, ti: usize) -> bool {
        let e = &self.e;
        let r = call(
            e,
            &self.idents[a],
            "add_claim",
            args![e; TOPICS[ti], 101u32, self.issuers[i].clone(), Bytes::from_array(e, &[1u8; 8]), Bytes::from_array(e, &[a as u8, i as u8, ti as u8]), SString::from_str(e, "u")],
        );
        if r.is_ok() {
            self.claims.insert((a, i, ti));
        }
        r.is_ok()
    }
    /// bulk read of the token state (the entry-point view is compared with it at the end of the case)
    fn observe(&self) -> Obs {
        let e = &self.e;
        let hs = &self.accts;
        e.as_contract(&self.tok, || Obs {
            supply: Base::total_supply(e),
            bal: hs.iter().map(|a| Base::balance(e, a)).collect(),
            frozen: hs.iter().map(|a| RWA::get_frozen_tokens(e, a)).collect(),
            addr_frozen: hs.iter().map(|a| RWA::is_frozen(e, a)).collect(),
        })
    }
    fn read_log(&self) -> Vec<Note> {
        let e = &self.e;
        e.as_contract(&self.comp, || {
            let v: SVec<Note> = e.storage().persistent().get(&symbol_short!("log")).unwrap_or(SVec::new(e));
            v.iter().collect()
        })
    }
    /// operator call on the token; returns (result, exact authorization attached)
    fn op_call(&self, func: &str, mut args: SVec<Val>, mode: &OpAuth) -> (Result<Val, String>, bool) {
        let e = &self.e;
        let (operator, signer, exact) = match mode {
            OpAuth::Exact => (self.admin.clone(), Some(self.admin.clone()), true),
            OpAuth::NoAuth => (self.admin.clone(), None, false),
            OpAuth::Impostor(i) => {
                let who = self.accts[pick(*i, N_ACC)].clone();
                (who.clone(), Some(who), false)
            }
        };
        args.push_back(operator.into_val(e));
        match &signer {
            Some(s) => envx::set_auth(e, &[(s, &Inv::new(&self.tok, func, args.clone()))]),
            None => envx::no_auth(e),
        }
        let r = call(e, &self.tok, func, args);
        envx::no_auth(e);
        (r, exact)
    }
    /// `recovery_target(old)` through the library verifier's entry point
    fn recovery_target(&self, a: usize) -> Result<Option<Address>, String> {
        envx::call_t::<Option<Address>>(&self.e, &self.idv, "recovery_target", args![&self.e; self.accts[a].clone()])
    }
}

fn setup(case: &IdvCase) -> Result<W, Violation> {
    let e = envx::new_env(100, envx::BIG_TTL);
    let admin = envx::actor(&e);
    let accts = envx::actors(&e, N_ACC);
    let cti = e.register(Cti, ());
    let irs = e.register(Irs, ());
    let idv = e.register(IdVerifier, ());
    let comp = e.register(MockCompliance, ());
    let issuers: Vec<Address> = (0..N_ISS).map(|_| e.register(IssuerMock, ())).collect();
    let idents: Vec<Address> = (0..N_ID).map(|_| e.register(Ident, ())).collect();
    let tok = e.register(RwaTok, (admin.clone(), comp.clone(), idv.clone()));
    e.mock_all_auths();
    let su = |r: Result<soroban_sdk::Val, String>, what: &str| r.map_err(|er| violation("C04/real-idv/setup", format!("{what}: {er}")));
    su(call(&e, &idv, "set_claim_topics_and_issuers", args![&e; cti.clone(), admin.clone()]), "set cti")?;
    su(call(&e, &idv, "set_identity_registry_storage", args![&e; irs.clone(), admin.clone()]), "set irs")?;
    su(call(&e, &comp, "set_can_transfer", args![&e; true]), "can_transfer")?;
    su(call(&e, &comp, "set_can_create", args![&e; true]), "can_create")?;
    for (i, t) in TOPICS.iter().enumerate() {
        if (case.topics >> i) & 1 == 1 {
            su(call(&e, &cti, "add_claim_topic", args![&e; *t, admin.clone()]), "add topic")?;
        }
    }
    for (i, iss) in issuers.iter().enumerate() {
        let mask = case.issuer_topics[i] & case.topics;
        if mask != 0 {
            su(call(&e, &cti, "add_trusted_issuer", args![&e; iss.clone(), topics_vec(&e, mask), admin.clone()]), "add issuer")?;
        }
    }
    let mut ident_of = vec![None; N_ACC];
    for a in 0..N_ID {
        if (case.registered >> a) & 1 == 1 {
            su(call(&e, &irs, "add_identity", args![&e; accts[a].clone(), idents[a].clone(), IdentityType::Individual, country_list(&e)]), "add identity")?;
            ident_of[a] = Some(a);
        }
    }
    envx::no_auth(&e);
    let mut w = W { e, admin, tok, cti, irs, idv, comp, accts, idents, issuers, claims: BTreeSet::new(), valid: BTreeMap::new(), ident_of, link: BTreeMap::new() };
    for a in 0..N_ID {
        for i in 0..N_ISS {
            for ti in 0..3 {
                if (case.claims[a][i] >> ti) & 1 == 1 {
                    w.add_claim(a, i, ti);
                }
            }
        }
    }
    Ok(w)
}

pub fn run(case: &IdvCase, ctx: &mut Ctx) -> R {
    let mut w = setup(case)?;
    let e = w.e.clone();
    let (mut blocked_from, mut blocked_to, mut ok_move, mut multi_topic) = (false, false, false, false);
    // recovery bookkeeping
    let (mut rec_moved, mut rec_refused) = (false, false);
    let mut recovered_pairs: BTreeSet<(usize, usize)> = BTreeSet::new();
    // model of the token state
    let mut m = w.observe();
    ensure!(m.supply == 0 && m.bal.iter().all(|b| *b == 0) && m.frozen.iter().all(|b| *b == 0) && m.addr_frozen.iter().all(|b| !*b), "C04/real-idv/setup", "fresh token is not empty: {:?}", m);
    for (step, op) in case.ops.iter().enumerate() {
        let what = format!("step {step} {:?}", op);
        let Some(reg) = w.registry() else { bail!("C04/real-idv/registry-getter-failed", "{what}") };
        if reg.len() >= 2 {
            multi_topic = true;
        }
        let mut before = m.clone();
        // entry point exercised by the step (for signatures), whether the token call succeeded, and address flags
        // whose value after the call is not documented (copied from the observation)
        let mut f = "registry-edit";
        let mut ok = true;
        let mut open_flags: Vec<usize> = Vec::new();
        match op {
            IdvOp::SetValid { issuer, topic, valid } => {
                envx::no_auth(&e);
                if call(&e, &w.issuers[*issuer as usize], "set_valid", args![&e; TOPICS[*topic as usize], *valid]).is_ok() {
                    w.valid.insert((*issuer as usize, *topic as usize), *valid);
                }
            }
            IdvOp::AddClaim { acct, issuer, topic } => {
                envx::no_auth(&e);
                w.add_claim(*acct as usize, *issuer as usize, *topic as usize);
            }
            IdvOp::RemoveClaim { acct, issuer, topic } => {
                let key = (*acct as usize, *issuer as usize, *topic as usize);
                if w.claims.contains(&key) {
                    // claim id = keccak256(issuer ‖ topic): ask the identity for its ids of the topic and remove the issuer's one
                    let ids: SVec<soroban_sdk::BytesN<32>> =
                        envx::call_t(&e, &w.idents[key.0], "get_claim_ids_by_topic", args![&e; TOPICS[key.2]]).unwrap_or(SVec::new(&e));
                    for id in ids.iter() {
                        if let Ok(c) = envx::call_t::<stellar_tokens::rwa::identity_claims::Claim>(&e, &w.idents[key.0], "get_claim", args![&e; id.clone()]) {
                            if c.issuer == w.issuers[key.1] && call(&e, &w.idents[key.0], "remove_claim", args![&e; id.clone()]).is_ok() {
                                w.claims.remove(&key);
                            }
                        }
                    }
                }
            }
            IdvOp::AddTopic(t) => {
                e.mock_all_auths();
                let _ = call(&e, &w.cti, "add_claim_topic", args![&e; TOPICS[*t as usize], w.admin.clone()]);
                envx::no_auth(&e);
            }
            IdvOp::RemoveTopic(t) => {
                e.mock_all_auths();
                let _ = call(&e, &w.cti, "remove_claim_topic", args![&e; TOPICS[*t as usize], w.admin.clone()]);
                envx::no_auth(&e);
            }
            IdvOp::SetIssuerTopics { issuer, mask } => {
                e.mock_all_auths();
                let iss = w.issuers[*issuer as usize].clone();
                let trusted = envx::call_t::<bool>(&e, &w.cti, "is_trusted_issuer", args![&e; iss.clone()]).unwrap_or(false);
                let _ = if *mask == 0 {
                    call(&e, &w.cti, "remove_trusted_issuer", args![&e; iss, w.admin.clone()])
                } else if trusted {
                    call(&e, &w.cti, "update_issuer_claim_topics", args![&e; iss, topics_vec(&e, *mask), w.admin.clone()])
                } else {
                    call(&e, &w.cti, "add_trusted_issuer", args![&e; iss, topics_vec(&e, *mask), w.admin.clone()])
                };
                envx::no_auth(&e);
            }
            IdvOp::Register { acct, ident } => {
                // the model follows the outcome (the registry storage itself is C20's subject)
                let a = pick(*acct, N_ACC);
                envx::no_auth(&e);
                let r = call(&e, &w.irs, "add_identity", args![&e; w.accts[a].clone(), w.idents[*ident as usize].clone(), IdentityType::Individual, country_list(&e)]);
                if r.is_ok() {
                    w.ident_of[a] = Some(*ident as usize);
                    ctx.class("idv_register_ok");
                }
            }
            IdvOp::RecoverIdentity { old, new, fresh } => {
                f = "recover_identity";
                let (oi, ni) = if *fresh {
                    let with_id: Vec<usize> = (0..N_ACC).filter(|a| w.ident_of[*a].is_some()).collect();
                    let rich: Vec<usize> = with_id.iter().copied().filter(|a| m.bal[*a] > 0).collect();
                    let free: Vec<usize> = (0..N_ACC).filter(|a| w.ident_of[*a].is_none() && !w.link.contains_key(a)).collect();
                    (pick_pref(*old, &rich, &with_id).unwrap_or(pick(*old, N_ACC)), pick_pref(*new, &[], &free).unwrap_or(pick(*new, N_ACC)))
                } else {
                    (pick(*old, N_ACC), pick(*new, N_ACC))
                };
                // documented preconditions of `recover_identity`: old has an identity, new was not recovered, new has no identity
                let pre = w.ident_of[oi].is_some() && !w.link.contains_key(&ni) && w.ident_of[ni].is_none();
                envx::no_auth(&e);
                let r = call(&e, &w.irs, "recover_identity", args![&e; w.accts[oi].clone(), w.accts[ni].clone()]);
                if r.is_ok() {
                    ensure!(
                        pre,
                        "C04/recover_identity/documented-error-missing",
                        "{what}: recover_identity({oi} -> {ni}) succeeded although a documented precondition fails: identities {:?}, links {:?}",
                        w.ident_of,
                        w.link
                    );
                    w.ident_of[ni] = w.ident_of[oi].take();
                    w.link.insert(oi, ni);
                    ctx.class("rec_link_registered");
                    if m.bal[oi] > 0 {
                        ctx.class("rec_link_registered_for_holder");
                    }
                    // the token-side view of the link (library verifier -> registry storage)
                    let t = w.recovery_target(oi);
                    ensure!(
                        t == Ok(Some(w.accts[ni].clone())),
                        "C04/recovery_target/not-the-registered-target",
                        "{what}: after recover_identity({oi} -> {ni}) the verifier's recovery_target({oi}) is {:?}, expected account {ni} = {:?}",
                        t,
                        w.accts[ni]
                    );
                } else if pre {
                    ctx.class("stricter_than_model:recover_identity");
                } else {
                    ctx.class("rec_link_refused");
                }
            }
            IdvOp::FreezePartial { acct, frac } => {
                f = "freeze_partial_tokens";
                // preferably a wallet of a registered recovery pair with something free, then any holder
                let holders: Vec<usize> = (0..N_ACC).filter(|a| m.bal[*a] - m.frozen[*a] > 0).collect();
                let paired: Vec<usize> = holders.iter().copied().filter(|a| w.link.contains_key(a) || w.link.values().any(|t| t == a)).collect();
                let a = pick_pref(*acct, &paired, &holders).unwrap_or(pick(*acct, N_ACC));
                let free = m.bal[a] - m.frozen[a];
                let amt = (free / 4 * (*frac as i128)).max(if free > 0 { 1 } else { 0 });
                if amt == 0 {
                    ctx.class("idv_freeze_skipped_nothing_free");
                    continue;
                }
                let (r, _) = w.op_call(f, args![&e; w.accts[a].clone(), amt], &OpAuth::Exact);
                ok = r.is_ok();
                if ok {
                    m.frozen[a] += amt;
                    ctx.class("idv_freeze_partial_ok");
                } else {
                    // owned by the `gates` sub-check
                    ctx.class("stricter_than_model:freeze_partial_tokens");
                }
            }
            IdvOp::SetAddressFrozen { acct, on } => {
                f = "set_address_frozen";
                // preferably an old wallet still holding tokens or the target of a registered recovery pair, then holders, then anybody
                let mut rest: Vec<usize> = (0..N_ACC).filter(|a| m.bal[*a] > 0).collect();
                rest.extend(0..N_ACC);
                let paired: Vec<usize> = (0..N_ACC).filter(|a| (w.link.contains_key(a) && m.bal[*a] > 0) || w.link.values().any(|t| t == a)).collect();
                let a = pick_pref(*acct, &paired, &rest).unwrap_or(0);
                let (r, _) = w.op_call(f, args![&e; w.accts[a].clone(), *on], &OpAuth::Exact);
                ok = r.is_ok();
                if ok {
                    m.addr_frozen[a] = *on;
                    ctx.class("idv_set_address_frozen_ok");
                } else {
                    ctx.class("stricter_than_model:set_address_frozen");
                }
            }
            IdvOp::RecoverBalance { old, new, auth, prep } => {
                f = "recover_balance";
                let all: Vec<usize> = (0..N_ACC).collect();
                let oi = match old {
                    RecOld::Linked(s) => {
                        let linked: Vec<usize> = w.link.keys().copied().collect();
                        let rich: Vec<usize> = linked.iter().copied().filter(|a| m.bal[*a] > 0).collect();
                        pick_pref(*s, &rich, &linked).unwrap_or(pick(*s, N_ACC))
                    }
                    RecOld::Unlinked(s) => {
                        let un: Vec<usize> = (0..N_ACC).filter(|a| !w.link.contains_key(a)).collect();
                        let rich: Vec<usize> = un.iter().copied().filter(|a| m.bal[*a] > 0).collect();
                        pick_pref(*s, &rich, &un).unwrap_or(pick(*s, N_ACC))
                    }
                    RecOld::Any(s) => pick(*s, N_ACC),
                };
                let target = w.link.get(&oi).copied();
                let ni = match new {
                    RecNew::Target(s) => target.unwrap_or(pick(*s, N_ACC)),
                    RecNew::OtherVerified(s) => {
                        let others: Vec<usize> = (0..N_ACC).filter(|a| Some(*a) != target && *a != oi).collect();
                        let verified: Vec<usize> = others.iter().copied().filter(|a| w.id_ok(*a, &reg)).collect();
                        pick_pref(*s, &verified, &others).unwrap_or(pick(*s, N_ACC))
                    }
                    RecNew::Any(s) => pick_pref(*s, &[], &all).unwrap_or(0),
                };
                let is_target = target == Some(ni);
                let ok_new = w.id_ok(ni, &reg);
                // operator freeze right before the recovery (model follows the outcome; freezes are owned by `gates`)
                match *prep {
                    1 | 3 => {
                        let a = if *prep == 1 { oi } else { ni };
                        if w.op_call("set_address_frozen", args![&e; w.accts[a].clone(), true], &OpAuth::Exact).0.is_ok() {
                            m.addr_frozen[a] = true;
                        }
                    }
                    2 | 4 => {
                        let a = if *prep == 2 { oi } else { ni };
                        let half = (m.bal[a] - m.frozen[a] + 1) / 2;
                        if half > 0 && w.op_call("freeze_partial_tokens", args![&e; w.accts[a].clone(), half], &OpAuth::Exact).0.is_ok() {
                            m.frozen[a] += half;
                        }
                    }
                    _ => {}
                }
                before = m.clone();
                let log0 = w.read_log();
                let (r, exact) = w.op_call(f, args![&e; w.accts[oi].clone(), w.accts[ni].clone()], auth);
                ok = r.is_ok();
                ctx.op(ok);
                let log1 = w.read_log();
                if recovered_pairs.contains(&(oi, ni)) {
                    ctx.class("rec_repeated_after_success");
                }
                match &r {
                    Ok(v) => {
                        ensure!(exact, "C04/recover_balance/unauthorized", "{what}: recovery {oi}->{ni} succeeded in auth mode {:?}", auth);
                        ensure!(target.is_some(), "C04/recover_balance/no-recovery-link", "{what}: recovery {oi}->{ni} succeeded although no recovery was ever registered for account {oi}; links {:?}", w.link);
                        ensure!(is_target, "C04/recover_balance/wrong-target", "{what}: recovery {oi}->{ni} succeeded although the registered recovery target of {oi} is {:?}; links {:?}", target, w.link);
                        ensure!(
                            ok_new,
                            "C04/recover_balance/identity-new",
                            "{what}: recovery {oi}->{ni} succeeded although the new account does not pass identity verification; registry {:?}, claims {:?}, validity {:?}, identities {:?}",
                            reg,
                            w.claims,
                            w.valid,
                            w.ident_of
                        );
                        let ret = bool::try_from_val(&e, v).map_err(|_| violation("C04/recover_balance/return-type", format!("{what}: non-bool return")))?;
                        let moved = before.bal[oi];
                        ensure!(ret == (moved > 0), "C04/recover_balance/return-value", "{what}: returned {ret} for a lost balance of {moved}");
                        recovered_pairs.insert((oi, ni));
                        if moved > 0 {
                            let fr = before.frozen[oi];
                            let fl = before.addr_frozen[oi];
                            if before.frozen[ni] > 0 || before.addr_frozen[ni] {
                                ctx.class("rec_onto_target_holding_a_freeze");
                            }
                            if before.bal[ni] > 0 {
                                ctx.class("rec_onto_target_holding_tokens");
                            }
                            m.bal[oi] -= moved;
                            m.bal[ni] += moved;
                            m.frozen[oi] -= fr;
                            m.frozen[ni] += fr;
                            m.addr_frozen[ni] = m.addr_frozen[ni] || fl;
                            // whether the emptied old wallet stays flagged is not documented
                            open_flags.push(oi);
                            rec_moved = true;
                            ctx.class("rec_ok_moved");
                            if fr > 0 {
                                ctx.class("rec_carries_partial_freeze");
                            }
                            if fl {
                                ctx.class("rec_carries_address_freeze");
                            }
                            if w.link.values().any(|t| *t == oi) {
                                ctx.class("rec_chained");
                            }
                            // notifications of a recovery are not documented by `recover_balance`: counted only
                            let delta: &[Note] = if log1.len() >= log0.len() && log1[..log0.len()] == log0[..] { &log1[log0.len()..] } else { &log1[..] };
                            let exact_note = Note { kind: mock_compliance::TRANSFERRED, from: w.accts[oi].clone(), to: w.accts[ni].clone(), amount: moved, token: w.tok.clone() };
                            ctx.class(if delta.len() == 1 && delta[0] == exact_note {
                                "rec_notified:transferred-once-exact"
                            } else if delta.is_empty() {
                                "rec_notified:none"
                            } else {
                                "rec_notified:other"
                            });
                        } else {
                            // "false if no tokens to recover": nothing to move; the flags of both wallets are left open
                            open_flags.push(oi);
                            open_flags.push(ni);
                            ctx.class("rec_zero_balance_false");
                        }
                    }
                    Err(_) => {
                        ensure!(log1 == log0, "C04/recover_balance/compliance-log:notified-by-failed-call", "{what}: refused recovery {oi}->{ni} left notifications {:?} -> {:?}", log0, log1);
                        if !exact {
                            ctx.class("rec_rejected_auth");
                        } else if is_target && ok_new {
                            bail!(
                                "C04/recover_balance/refused",
                                "{what}: recovery {oi}->{ni} towards the registered target with a verified new account refused: {:?}; links {:?}, registry {:?}, claims {:?}, identities {:?}",
                                r,
                                w.link,
                                reg,
                                w.claims,
                                w.ident_of
                            );
                        } else {
                            rec_refused = true;
                            if target.is_none() {
                                ctx.class("rec_refused:no-link");
                                if ok_new {
                                    ctx.class("rec_refused_only:no-link");
                                }
                            } else if !is_target {
                                ctx.class("rec_refused:wrong-target");
                                if ok_new {
                                    ctx.class("rec_refused_only:wrong-target");
                                }
                            } else {
                                ctx.class("rec_refused_only:identity-new");
                            }
                        }
                    }
                }
            }
            IdvOp::Mint { to, amt } => {
                f = "mint";
                let t = acct_of(*to, &w.ident_of);
                let a: soroban_sdk::Vec<soroban_sdk::Val> = args![&e; w.accts[t].clone(), *amt as i128, w.admin.clone()];
                envx::set_auth(&e, &[(&w.admin, &Inv::new(&w.tok, "mint", a.clone()))]);
                let r = call(&e, &w.tok, "mint", a);
                envx::no_auth(&e);
                ok = r.is_ok();
                ctx.op(r.is_ok());
                let ok_to = w.id_ok(t, &reg);
                if r.is_ok() {
                    ensure!(ok_to, "C04/mint/gate-bypass:identity-to", "{what}: mint to account {t} succeeded although it does not pass identity verification; registry {:?}, claims {:?}, validity {:?}, identities {:?}", reg, w.claims, w.valid, w.ident_of);
                    m.bal[t] += *amt as i128;
                    m.supply += *amt as i128;
                    ctx.class("idv_mint_ok");
                } else if ok_to {
                    if before.addr_frozen[t] {
                        // the trait docs list a frozen-address error for mint, the statement does not: counted (as in `gates`)
                        ctx.class("stricter_than_model:mint_to_frozen");
                    } else {
                        bail!("C04/mint/refused-with-open-gates", "{what}: recipient {t} passes identity verification, compliance allows, yet mint was refused: {:?}; registry {:?}, claims {:?}", r, reg, w.claims);
                    }
                } else {
                    blocked_to = true;
                    ctx.class("idv_mint_blocked");
                }
            }
            IdvOp::Transfer { from, to, frac } | IdvOp::TransferFrom { from, to, frac, .. } => {
                let fi = acct_of(*from, &w.ident_of);
                let t = acct_of(*to, &w.ident_of);
                let b = before.bal[fi];
                let amt = (b / 4 * (*frac as i128)).max(if b > 0 { 1 } else { 0 });
                if amt == 0 {
                    ctx.class("idv_skipped_empty_sender");
                    continue;
                }
                let (func, r) = if let IdvOp::TransferFrom { spender, .. } = op {
                    let s = acct_of(*spender, &w.ident_of);
                    // the sender approves the spender first (approve is not identity-gated by the statement)
                    let live = envx::seq(&e) + 100;
                    let aa: soroban_sdk::Vec<soroban_sdk::Val> = args![&e; w.accts[fi].clone(), w.accts[s].clone(), amt, live];
                    envx::set_auth(&e, &[(&w.accts[fi], &Inv::new(&w.tok, "approve", aa.clone()))]);
                    let ar = call(&e, &w.tok, "approve", aa);
                    if ar.is_err() {
                        envx::no_auth(&e);
                        ctx.class("idv_approve_refused");
                        continue;
                    }
                    let a: soroban_sdk::Vec<soroban_sdk::Val> = args![&e; w.accts[s].clone(), w.accts[fi].clone(), w.accts[t].clone(), amt];
                    envx::set_auth(&e, &[(&w.accts[s], &Inv::new(&w.tok, "transfer_from", a.clone()))]);
                    ("transfer_from", call(&e, &w.tok, "transfer_from", a))
                } else {
                    let a: soroban_sdk::Vec<soroban_sdk::Val> = args![&e; w.accts[fi].clone(), w.accts[t].clone(), amt];
                    envx::set_auth(&e, &[(&w.accts[fi], &Inv::new(&w.tok, "transfer", a.clone()))]);
                    ("transfer", call(&e, &w.tok, "transfer", a))
                };
                f = func;
                envx::no_auth(&e);
                ok = r.is_ok();
                ctx.op(r.is_ok());
                let (okf, okt) = (w.id_ok(fi, &reg), w.id_ok(t, &reg));
                // freeze gates of the statement (the token is never paused here, compliance always approves)
                let free = b - before.frozen[fi];
                let (fz_from, fz_to, fz_part) = (before.addr_frozen[fi], before.addr_frozen[t], amt > free);
                if r.is_ok() {
                    ensure!(okf, format!("C04/{func}/gate-bypass:identity-from"), "{what}: succeeded although sender {fi} does not pass identity verification; registry {:?}, claims {:?}, validity {:?}, identities {:?}", reg, w.claims, w.valid, w.ident_of);
                    ensure!(okt, format!("C04/{func}/gate-bypass:identity-to"), "{what}: succeeded although receiver {t} does not pass identity verification; registry {:?}, claims {:?}, validity {:?}, identities {:?}", reg, w.claims, w.valid, w.ident_of);
                    ensure!(!fz_from, format!("C04/{func}/gate-bypass:from-frozen"), "{what}: succeeded although the address of sender {fi} is frozen");
                    ensure!(!fz_to, format!("C04/{func}/gate-bypass:to-frozen"), "{what}: succeeded although the address of receiver {t} is frozen");
                    ensure!(!fz_part, format!("C04/{func}/gate-bypass:partial-freeze"), "{what}: moved {amt} although only {free} of the balance {b} of sender {fi} is unfrozen");
                    m.bal[fi] -= amt;
                    m.bal[t] += amt;
                    ok_move = true;
                    ctx.class("idv_move_ok");
                    if w.link.values().any(|x| *x == fi) {
                        ctx.class("idv_move_ok_from_recovered_wallet");
                    }
                } else if okf && okt && !fz_from && !fz_to && !fz_part {
                    bail!(format!("C04/{func}/refused-with-open-gates"), "{what}: both parties pass identity verification, nothing is paused or frozen, amount {amt} <= free balance {free} of {b}, yet refused: {:?}; registry {:?}, claims {:?}", r, reg, w.claims);
                } else {
                    if !okf {
                        blocked_from = true;
                        ctx.class("idv_move_blocked_from");
                    }
                    if !okt {
                        blocked_to = true;
                        ctx.class("idv_move_blocked_to");
                    }
                    if okf && okt {
                        ctx.class("idv_move_blocked_by_freeze_only");
                    }
                    if !okf && w.link.contains_key(&fi) {
                        ctx.class("idv_move_blocked_from_recovered_old_wallet");
                    }
                    // which kind of failing party: satisfied for the first required topic but not a later one?
                    for (x, okx) in [(fi, okf), (t, okt)] {
                        if let (false, Some(id), true) = (okx, w.ident_of[x], reg.len() >= 2) {
                            let first = reg.iter().next().unwrap();
                            let ti = TOPICS.iter().position(|q| q == first.0).unwrap();
                            if first.1.iter().any(|i| w.claims.contains(&(id, *i, ti)) && *w.valid.get(&(*i, ti)).unwrap_or(&true)) {
                                ctx.class("idv_blocked_first_topic_ok_later_missing");
                            }
                        }
                    }
                }
            }
        }

        // ---- observable token state vs model, after every step
        let o2 = w.observe();
        if ok {
            for i in open_flags {
                m.addr_frozen[i] = o2.addr_frozen[i];
            }
            if o2 != m {
                let clause = match f {
                    "recover_balance" if o2.bal != m.bal || o2.supply != m.supply => "balance-not-moved-whole",
                    "recover_balance" if o2.frozen != m.frozen => "partial-freeze-not-carried",
                    "recover_balance" if o2.addr_frozen != m.addr_frozen => "address-freeze-not-carried",
                    _ => "state-mismatch",
                };
                bail!(format!("C04/{f}/{clause}"), "{what}: state after the call {:?}, model {:?} (before {:?})", o2, m, before);
            }
        } else {
            ensure!(o2 == before, format!("C04/{f}/refused-call-changed-state"), "{what}: refused but state changed {:?} -> {:?}", before, o2);
        }
        // ---- invariant 0 <= frozen <= balance, supply = sum of balances
        for i in 0..N_ACC {
            ensure!(0 <= o2.frozen[i] && o2.frozen[i] <= o2.bal[i], "C04/invariant/frozen-within-balance", "{what}: account {i} has frozen {} with balance {}", o2.frozen[i], o2.bal[i]);
        }
        ensure!(o2.bal.iter().sum::<i128>() == o2.supply, "C04/invariant/supply", "{what}: balances {:?} do not add up to the supply {}", o2.bal, o2.supply);
    }

    // the verifier's view of every recovery link equals the registered pairs; entry points agree with the bulk read
    envx::no_auth(&e);
    let o = w.observe();
    for a in 0..N_ACC {
        let t = w.recovery_target(a);
        let expected = w.link.get(&a).map(|n| w.accts[*n].clone());
        ensure!(t == Ok(expected.clone()), "C04/recovery_target/not-the-registered-target", "end of history: recovery_target({a}) is {:?}, the registered pair says {:?} (links {:?})", t, expected, w.link);
        let ad = w.accts[a].clone();
        let b = envx::call_t::<i128>(&e, &w.tok, "balance", args![&e; ad.clone()]).map_err(|er| violation("C04/api/balance-failed", er))?;
        let fz = envx::call_t::<i128>(&e, &w.tok, "get_frozen_tokens", args![&e; ad.clone()]).map_err(|er| violation("C04/api/get_frozen_tokens-failed", er))?;
        let fl = envx::call_t::<bool>(&e, &w.tok, "is_frozen", args![&e; ad]).map_err(|er| violation("C04/api/is_frozen-failed", er))?;
        ensure!(b == o.bal[a] && fz == o.frozen[a] && fl == o.addr_frozen[a], "C04/api/getter-mismatch", "account {a}: entry points say ({b}, {fz}, {fl}), bulk read ({}, {}, {})", o.bal[a], o.frozen[a], o.addr_frozen[a]);
    }

    if ok_move && blocked_from && blocked_to && multi_topic {
        ctx.nontrivial = true;
        ctx.class("nontrivial_real_idv");
    }
    // recovery rule: a recovery to the registered target that moved a positive balance AND a correctly authorized
    // recovery that had to be refused (wrong target, no link, or unverified new account)
    if rec_moved && rec_refused {
        ctx.nontrivial = true;
        ctx.class("nontrivial_recovery");
    }
    Ok(())
}

pub fn subs() -> Vec<Box<dyn SubCheck>> {
    vec![gen_sub::<IdvCase>("real-idv", 400, 6000, strategy, run)]
}

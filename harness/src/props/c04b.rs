//! C04, sub-check `real-idv`: the RWA token wired to the library's REAL identity verifier
//! (claim-topics-and-issuers registry, identity registry storage, on-chain identities holding
//! claims, scriptable claim issuers), several required topics and issuers.  The gate under test:
//! a holder-initiated movement succeeds only if BOTH parties pass identity verification, mint only
//! for a verified recipient — where "verified" is re-derived from the statement on the observed
//! registry state.  (Added after seeded change C04-m2: `verify_identity` returning after the first
//! satisfied topic was invisible to the mock-verifier sub-check.)

use crate::contracts::c04::{mock_compliance::MockCompliance, rwa_tok::RwaTok};
use crate::contracts::c15::verifier::IdVerifier;
use crate::contracts::c20::{cti::Cti, ident::Ident, irs::Irs, issuer_mock::IssuerMock};
use crate::engine::*;
use crate::envx::{self, call, Inv};
use crate::gen::pick;
use proptest::prelude::*;
use serde::{Deserialize, Serialize};
use soroban_sdk::{Address, Bytes, Env, Map, String as SString, Vec as SVec};
use std::collections::{BTreeMap, BTreeSet};
use stellar_tokens::rwa::identity_registry_storage::{CountryData, CountryRelation, IdentityType, IndividualCountryRelation};

const TOPICS: [u32; 3] = [1, 2, 7];
const N_ACC: usize = 3;
const N_ISS: usize = 2;

#[derive(Clone, Debug, Serialize, Deserialize)]
pub enum IdvOp {
    Mint { to: u16, amt: u16 },
    Transfer { from: u16, to: u16, frac: u8 },
    TransferFrom { spender: u16, from: u16, to: u16, frac: u8 },
    /// issuer says (in)valid for a topic from now on
    SetValid { issuer: u8, topic: u8, valid: bool },
    AddClaim { acct: u8, issuer: u8, topic: u8 },
    RemoveClaim { acct: u8, issuer: u8, topic: u8 },
    AddTopic(u8),
    RemoveTopic(u8),
    /// add / replace / remove the issuer's trusted topic set (mask over TOPICS; 0 = remove issuer)
    SetIssuerTopics { issuer: u8, mask: u8 },
}

#[derive(Clone, Debug, Serialize, Deserialize)]
pub struct IdvCase {
    /// required topics (mask over TOPICS)
    pub topics: u8,
    /// topics each issuer is trusted for
    pub issuer_topics: [u8; N_ISS],
    /// claims held: [account][issuer] = mask over TOPICS
    pub claims: [[u8; N_ISS]; N_ACC],
    /// accounts with a registered identity
    pub registered: u8,
    pub ops: Vec<IdvOp>,
}

pub fn strategy(tier: Tier) -> BoxedStrategy<IdvCase> {
    let op = prop_oneof![
        4 => (any::<u16>(), 1u16..500).prop_map(|(to, amt)| IdvOp::Mint { to, amt }),
        6 => (any::<u16>(), any::<u16>(), 1u8..=4).prop_map(|(from, to, frac)| IdvOp::Transfer { from, to, frac }),
        3 => (any::<u16>(), any::<u16>(), any::<u16>(), 1u8..=4).prop_map(|(spender, from, to, frac)| IdvOp::TransferFrom { spender, from, to, frac }),
        3 => (0u8..N_ISS as u8, 0u8..3, any::<bool>()).prop_map(|(issuer, topic, valid)| IdvOp::SetValid { issuer, topic, valid }),
        3 => (0u8..N_ACC as u8, 0u8..N_ISS as u8, 0u8..3).prop_map(|(acct, issuer, topic)| IdvOp::AddClaim { acct, issuer, topic }),
        3 => (0u8..N_ACC as u8, 0u8..N_ISS as u8, 0u8..3).prop_map(|(acct, issuer, topic)| IdvOp::RemoveClaim { acct, issuer, topic }),
        1 => (0u8..3).prop_map(IdvOp::AddTopic),
        1 => (0u8..3).prop_map(IdvOp::RemoveTopic),
        2 => (0u8..N_ISS as u8, 0u8..8).prop_map(|(issuer, mask)| IdvOp::SetIssuerTopics { issuer, mask }),
    ];
    // mostly two or three required topics, issuers trusted for most of them, most claims present
    let mostly = |p: f64| proptest::collection::vec(proptest::bool::weighted(p), 3).prop_map(|v| v.iter().enumerate().fold(0u8, |m, (i, b)| m | ((*b as u8) << i)));
    (
        mostly(0.8),
        [mostly(0.75), mostly(0.6)],
        [[mostly(0.8), mostly(0.5)], [mostly(0.8), mostly(0.5)], [mostly(0.7), mostly(0.4)]],
        prop_oneof![4 => Just(0b111u8), 1 => 0u8..8],
        proptest::collection::vec(op, 3..tier.pick(30usize, 60usize)),
    )
        .prop_map(|(topics, issuer_topics, claims, registered, ops)| IdvCase { topics, issuer_topics, claims, registered, ops })
        .boxed()
}

struct W {
    e: Env,
    admin: Address,
    tok: Address,
    cti: Address,
    accts: Vec<Address>,
    idents: Vec<Address>,
    issuers: Vec<Address>,
    /// claims the identities hold (successful add_claim not since removed): (acct, issuer, topic index)
    claims: BTreeSet<(usize, usize, usize)>,
    /// what each issuer currently answers per topic index (default valid)
    valid: BTreeMap<(usize, usize), bool>,
    registered: Vec<bool>,
}

fn topics_vec(e: &Env, mask: u8) -> SVec<u32> {
    let mut v = SVec::new(e);
    for (i, t) in TOPICS.iter().enumerate() {
        if (mask >> i) & 1 == 1 {
            v.push_back(*t);
        }
    }
    v
}

impl W {
    /// observed registry: required topic -> trusted issuers (indices); None if the getter fails
    fn registry(&self) -> Option<BTreeMap<u32, Vec<usize>>> {
        let m: Map<u32, SVec<Address>> = envx::call_t(&self.e, &self.cti, "get_claim_topics_and_issuers", args![&self.e]).ok()?;
        let mut out = BTreeMap::new();
        for (t, iss) in m.iter() {
            let idx: Vec<usize> = iss.iter().filter_map(|a| self.issuers.iter().position(|x| *x == a)).collect();
            out.insert(t, idx);
        }
        Some(out)
    }
    /// "verified" per the statement, on the observed registry
    fn id_ok(&self, a: usize, reg: &BTreeMap<u32, Vec<usize>>) -> bool {
        if !self.registered[a] {
            return false;
        }
        reg.iter().all(|(t, issuers)| {
            let ti = TOPICS.iter().position(|x| x == t).unwrap();
            issuers.iter().any(|i| self.claims.contains(&(a, *i, ti)) && *self.valid.get(&(*i, ti)).unwrap_or(&true))
        })
    }
    fn add_claim(&mut self, a: usize, i: usize, ti: usize) -> bool {
        let e = &self.e;
        let r = call(
            e,
            &self.idents[a],
            "add_claim",
            args![e; TOPICS[ti], 101u32, self.issuers[i].clone(), Bytes::from_array(e, &[1u8; 8]), Bytes::from_array(e, &[a as u8, i as u8, ti as u8]), SString::from_str(e, "u")],
        );
        if r.is_ok() {
            self.claims.insert((a, i, ti));
        }
        r.is_ok()
    }
}

fn setup(case: &IdvCase) -> Result<W, Violation> {
    let e = envx::new_env(100, envx::BIG_TTL);
    let admin = envx::actor(&e);
    let accts = envx::actors(&e, N_ACC);
    let cti = e.register(Cti, ());
    let irs = e.register(Irs, ());
    let idv = e.register(IdVerifier, ());
    let comp = e.register(MockCompliance, ());
    let issuers: Vec<Address> = (0..N_ISS).map(|_| e.register(IssuerMock, ())).collect();
    let idents: Vec<Address> = (0..N_ACC).map(|_| e.register(Ident, ())).collect();
    let tok = e.register(RwaTok, (admin.clone(), comp.clone(), idv.clone()));
    e.mock_all_auths();
    let su = |r: Result<soroban_sdk::Val, String>, what: &str| r.map_err(|er| violation("C04/real-idv/setup", format!("{what}: {er}")));
    su(call(&e, &idv, "set_claim_topics_and_issuers", args![&e; cti.clone(), admin.clone()]), "set cti")?;
    su(call(&e, &idv, "set_identity_registry_storage", args![&e; irs.clone(), admin.clone()]), "set irs")?;
    su(call(&e, &comp, "set_can_transfer", args![&e; true]), "can_transfer")?;
    su(call(&e, &comp, "set_can_create", args![&e; true]), "can_create")?;
    for (i, t) in TOPICS.iter().enumerate() {
        if (case.topics >> i) & 1 == 1 {
            su(call(&e, &cti, "add_claim_topic", args![&e; *t, admin.clone()]), "add topic")?;
        }
    }
    for (i, iss) in issuers.iter().enumerate() {
        let mask = case.issuer_topics[i] & case.topics;
        if mask != 0 {
            su(call(&e, &cti, "add_trusted_issuer", args![&e; iss.clone(), topics_vec(&e, mask), admin.clone()]), "add issuer")?;
        }
    }
    let mut registered = vec![false; N_ACC];
    for a in 0..N_ACC {
        if (case.registered >> a) & 1 == 1 {
            let mut cds: SVec<CountryData> = SVec::new(&e);
            cds.push_back(CountryData { country: CountryRelation::Individual(IndividualCountryRelation::Residence(840)), metadata: None });
            su(call(&e, &irs, "add_identity", args![&e; accts[a].clone(), idents[a].clone(), IdentityType::Individual, cds]), "add identity")?;
            registered[a] = true;
        }
    }
    envx::no_auth(&e);
    let mut w = W { e, admin, tok, cti, accts, idents, issuers, claims: BTreeSet::new(), valid: BTreeMap::new(), registered };
    for a in 0..N_ACC {
        for i in 0..N_ISS {
            for ti in 0..3 {
                if (case.claims[a][i] >> ti) & 1 == 1 {
                    w.add_claim(a, i, ti);
                }
            }
        }
    }
    Ok(w)
}

pub fn run(case: &IdvCase, ctx: &mut Ctx) -> R {
    let mut w = setup(case)?;
    let e = w.e.clone();
    let bal = |w: &W, a: usize| envx::call_t::<i128>(&w.e, &w.tok, "balance", args![&w.e; w.accts[a].clone()]).unwrap_or(0);
    let (mut blocked_from, mut blocked_to, mut ok_move, mut multi_topic) = (false, false, false, false);
    for (step, op) in case.ops.iter().enumerate() {
        let what = format!("step {step} {:?}", op);
        let Some(reg) = w.registry() else { bail!("C04/real-idv/registry-getter-failed", "{what}") };
        if reg.len() >= 2 {
            multi_topic = true;
        }
        match op {
            IdvOp::SetValid { issuer, topic, valid } => {
                envx::no_auth(&e);
                if call(&e, &w.issuers[*issuer as usize], "set_valid", args![&e; TOPICS[*topic as usize], *valid]).is_ok() {
                    w.valid.insert((*issuer as usize, *topic as usize), *valid);
                }
            }
            IdvOp::AddClaim { acct, issuer, topic } => {
                envx::no_auth(&e);
                w.add_claim(*acct as usize, *issuer as usize, *topic as usize);
            }
            IdvOp::RemoveClaim { acct, issuer, topic } => {
                let key = (*acct as usize, *issuer as usize, *topic as usize);
                if w.claims.contains(&key) {
                    // claim id = keccak256(issuer ‖ topic): ask the identity for its ids of the topic and remove the issuer's one
                    let ids: SVec<soroban_sdk::BytesN<32>> =
                        envx::call_t(&e, &w.idents[key.0], "get_claim_ids_by_topic", args![&e; TOPICS[key.2]]).unwrap_or(SVec::new(&e));
                    for id in ids.iter() {
                        if let Ok(c) = envx::call_t::<stellar_tokens::rwa::identity_claims::Claim>(&e, &w.idents[key.0], "get_claim", args![&e; id.clone()]) {
                            if c.issuer == w.issuers[key.1] && call(&e, &w.idents[key.0], "remove_claim", args![&e; id.clone()]).is_ok() {
                                w.claims.remove(&key);
                            }
                        }
                    }
                }
            }
            IdvOp::AddTopic(t) => {
                e.mock_all_auths();
                let _ = call(&e, &w.cti, "add_claim_topic", args![&e; TOPICS[*t as usize], w.admin.clone()]);
                envx::no_auth(&e);
            }
            IdvOp::RemoveTopic(t) => {
                e.mock_all_auths();
                let _ = call(&e, &w.cti, "remove_claim_topic", args![&e; TOPICS[*t as usize], w.admin.clone()]);
                envx::no_auth(&e);
            }
            IdvOp::SetIssuerTopics { issuer, mask } => {
                e.mock_all_auths();
                let iss = w.issuers[*issuer as usize].clone();
                let trusted = envx::call_t::<bool>(&e, &w.cti, "is_trusted_issuer", args![&e; iss.clone()]).unwrap_or(false);
                let _ = if *mask == 0 {
                    call(&e, &w.cti, "remove_trusted_issuer", args![&e; iss, w.admin.clone()])
                } else if trusted {
                    call(&e, &w.cti, "update_issuer_claim_topics", args![&e; iss, topics_vec(&e, *mask), w.admin.clone()])
                } else {
                    call(&e, &w.cti, "add_trusted_issuer", args![&e; iss, topics_vec(&e, *mask), w.admin.clone()])
                };
                envx::no_auth(&e);
            }
            IdvOp::Mint { to, amt } => {
                let t = pick(*to, N_ACC);
                let a: soroban_sdk::Vec<soroban_sdk::Val> = args![&e; w.accts[t].clone(), *amt as i128, w.admin.clone()];
                envx::set_auth(&e, &[(&w.admin, &Inv::new(&w.tok, "mint", a.clone()))]);
                let r = call(&e, &w.tok, "mint", a);
                envx::no_auth(&e);
                ctx.op(r.is_ok());
                let ok_to = w.id_ok(t, &reg);
                if r.is_ok() {
                    ensure!(ok_to, "C04/mint/gate-bypass:identity-to", "{what}: mint to account {t} succeeded although it does not pass identity verification; registry {:?}, claims {:?}, validity {:?}, registered {:?}", reg, w.claims, w.valid, w.registered);
                    ctx.class("idv_mint_ok");
                } else if ok_to {
                    bail!("C04/mint/refused-with-open-gates", "{what}: recipient {t} passes identity verification, compliance allows, yet mint was refused: {:?}; registry {:?}, claims {:?}", r, reg, w.claims);
                } else {
                    blocked_to = true;
                    ctx.class("idv_mint_blocked");
                }
            }
            IdvOp::Transfer { from, to, frac } | IdvOp::TransferFrom { from, to, frac, .. } => {
                let f = pick(*from, N_ACC);
                let t = pick(*to, N_ACC);
                let b = bal(&w, f);
                let amt = (b / 4 * (*frac as i128)).max(if b > 0 { 1 } else { 0 });
                if amt == 0 {
                    ctx.class("idv_skipped_empty_sender");
                    continue;
                }
                let (func, r) = if let IdvOp::TransferFrom { spender, .. } = op {
                    let s = pick(*spender, N_ACC);
                    // the sender approves the spender first (approve is not identity-gated by the statement)
                    let live = envx::seq(&e) + 100;
                    let aa: soroban_sdk::Vec<soroban_sdk::Val> = args![&e; w.accts[f].clone(), w.accts[s].clone(), amt, live];
                    envx::set_auth(&e, &[(&w.accts[f], &Inv::new(&w.tok, "approve", aa.clone()))]);
                    let ar = call(&e, &w.tok, "approve", aa);
                    if ar.is_err() {
                        envx::no_auth(&e);
                        ctx.class("idv_approve_refused");
                        continue;
                    }
                    let a: soroban_sdk::Vec<soroban_sdk::Val> = args![&e; w.accts[s].clone(), w.accts[f].clone(), w.accts[t].clone(), amt];
                    envx::set_auth(&e, &[(&w.accts[s], &Inv::new(&w.tok, "transfer_from", a.clone()))]);
                    ("transfer_from", call(&e, &w.tok, "transfer_from", a))
                } else {
                    let a: soroban_sdk::Vec<soroban_sdk::Val> = args![&e; w.accts[f].clone(), w.accts[t].clone(), amt];
                    envx::set_auth(&e, &[(&w.accts[f], &Inv::new(&w.tok, "transfer", a.clone()))]);
                    ("transfer", call(&e, &w.tok, "transfer", a))
                };
                envx::no_auth(&e);
                ctx.op(r.is_ok());
                let (okf, okt) = (w.id_ok(f, &reg), w.id_ok(t, &reg));
                if r.is_ok() {
                    ensure!(okf, format!("C04/{func}/gate-bypass:identity-from"), "{what}: succeeded although sender {f} does not pass identity verification; registry {:?}, claims {:?}, validity {:?}, registered {:?}", reg, w.claims, w.valid, w.registered);
                    ensure!(okt, format!("C04/{func}/gate-bypass:identity-to"), "{what}: succeeded although receiver {t} does not pass identity verification; registry {:?}, claims {:?}, validity {:?}, registered {:?}", reg, w.claims, w.valid, w.registered);
                    ok_move = true;
                    ctx.class("idv_move_ok");
                } else if okf && okt {
                    bail!(format!("C04/{func}/refused-with-open-gates"), "{what}: both parties pass identity verification, nothing is paused or frozen, amount {amt} <= balance {b}, yet refused: {:?}; registry {:?}, claims {:?}", r, reg, w.claims);
                } else {
                    if !okf {
                        blocked_from = true;
                        ctx.class("idv_move_blocked_from");
                    }
                    if !okt {
                        blocked_to = true;
                        ctx.class("idv_move_blocked_to");
                    }
                    // which kind of failing party: satisfied for the first required topic but not a later one?
                    for (x, okx) in [(f, okf), (t, okt)] {
                        if !okx && w.registered[x] && reg.len() >= 2 {
                            let first = reg.iter().next().unwrap();
                            let ti = TOPICS.iter().position(|q| q == first.0).unwrap();
                            if first.1.iter().any(|i| w.claims.contains(&(x, *i, ti)) && *w.valid.get(&(*i, ti)).unwrap_or(&true)) {
                                ctx.class("idv_blocked_first_topic_ok_later_missing");
                            }
                        }
                    }
                }
            }
        }
    }
    if ok_move && blocked_from && blocked_to && multi_topic {
        ctx.nontrivial = true;
        ctx.class("nontrivial_real_idv");
    }
    Ok(())
}

pub fn subs() -> Vec<Box<dyn SubCheck>> {
    vec![gen_sub::<IdvCase>("real-idv", 400, 6000, strategy, run)]
}

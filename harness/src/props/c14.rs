//! C14 — not implemented yet.
use crate::engine::*;

pub fn property() -> Property {
    Property { id: "C14", rule: "", subs: vec![], floors: vec![], assumptions: vec![] }
}

//! C14 — Account policies enforce exactly their threshold, weight and spending rules.
//!
//! Targets: example `ThresholdPolicyContract`, example `SpendingLimitPolicyContract`, harness
//! `WeightedPolicy` (library functions 1:1).  The smart account is a plain actor: "the account's
//! own authorization" == an exact entry for it is attached (`envx::set_auth`) or not.
//!
//! Oracle (written from the statement + module docs, not from the code):
//!  * simple: can_enforce == installed && |authenticated| >= threshold; weighted: == installed &&
//!    sum of configured weights of the authenticated signers >= threshold (BigInt);
//!  * install / set_* refuse 0 and unreachable thresholds (simple: > |rule.signers|; weighted:
//!    > sum of configured weights, or a sum that does not fit u32);
//!  * for every state and input: can_enforce (failing call == false) == "enforce with the account's
//!    entry succeeds" in the same state;
//!  * every state-changing entry point without the account's exact entry fails and changes nothing;
//!  * a failed enforce leaves the policy state unchanged;
//!  * spending: the model keeps every authorized (ledger, amount, limit at that time); after each
//!    successful enforce at ledger c: sum of amounts with ledger in (c - period, c] <= limit
//!    (window = period consecutive ledgers ending at c; the entry at c - period is OUTSIDE, as the
//!    module docs draw it), cached total == that sum, stored history <= 1000 entries.

use crate::engine::*;
use crate::envx::{self, Inv};
use crate::gen::pick;
use num_bigint::BigInt;
use proptest::prelude::*;
use serde::{Deserialize, Serialize};
use soroban_sdk::auth::{
    Context, ContractContext, ContractExecutable, CreateContractHostFnContext, CreateContractWithConstructorHostFnContext,
};
use soroban_sdk::testutils::Address as _;
use soroban_sdk::{Address, Bytes, BytesN, Env, IntoVal, Map, String as SString, Symbol, Val, Vec as SVec};
use std::collections::BTreeMap;
use stellar_accounts::policies::simple_threshold::SimpleThresholdAccountParams;
use stellar_accounts::policies::spending_limit::{
    SpendingEntry, SpendingLimitAccountParams, SpendingLimitData, SpendingLimitStorageKey,
};
use stellar_accounts::policies::weighted_threshold::WeightedThresholdAccountParams;
use stellar_accounts::smart_account::{ContextRule, ContextRuleType, Signer};

// ------------------------------------------------------------------------------------------
// shared world
// ------------------------------------------------------------------------------------------

/// How the (first) unauthorized attempt of a state-changing call is dressed.
#[derive(Clone, Copy, Debug, Serialize, Deserialize, PartialEq, Eq)]
pub enum Bad {
    /// no authorization entry at all
    NoEntry,
    /// the OTHER smart account authorizes exactly this invocation
    OtherActor,
    /// the account authorizes a different function of the policy with the same arguments
    WrongFn,
    /// the account authorizes the same function with the `smart_account` argument changed
    WrongArgs,
}

fn bad_strategy(none_w: u32) -> BoxedStrategy<Option<Bad>> {
    prop_oneof![
        none_w => Just(None),
        3 => Just(Some(Bad::NoEntry)),
        2 => Just(Some(Bad::OtherActor)),
        1 => Just(Some(Bad::WrongFn)),
        2 => Just(Some(Bad::WrongArgs)),
    ]
    .boxed()
}

fn slot_strategy() -> BoxedStrategy<u8> {
    prop_oneof![10 => Just(0u8), 1 => Just(1u8), 1 => Just(2u8)].boxed()
}

/// Context handed to the policy.
#[derive(Clone, Copy, Debug, Serialize, Deserialize, PartialEq, Eq)]
pub enum CtxKind {
    /// `transfer(from, to, amount: i128)`
    Transfer,
    /// `approve(from, spender, amount: i128, live_until: u32)`
    Approve,
    /// `transfer_from(spender, from, to, amount)` (not a `transfer`)
    TransferFrom,
    /// create-contract host function context
    Create,
    /// create-contract-with-constructor context
    CreateCtor,
    /// `transfer(from, to)` — no amount
    Transfer2,
    /// `transfer(from, to, <not an i128>)`
    TransferBad(u8),
}

fn ctx_strategy_any() -> BoxedStrategy<CtxKind> {
    prop_oneof![
        4 => Just(CtxKind::Transfer),
        1 => Just(CtxKind::Approve),
        1 => Just(CtxKind::Create),
        1 => Just(CtxKind::CreateCtor),
        1 => Just(CtxKind::Transfer2),
    ]
    .boxed()
}

#[derive(Clone, Copy, PartialEq, Eq)]
enum Kind {
    Simple,
    Weighted,
    Spending,
}

const RULE_IDS: [u32; 2] = [0, 4_000_000_000];
/// (account index, rule index) per slot; slot 0 is the main one
const SLOTS: [(usize, usize); 3] = [(0, 0), (0, 1), (1, 0)];

struct World {
    e: Env,
    policy: Address,
    accts: Vec<Address>,
    outsider: Address,
    token: Address,
    pool: Vec<Signer>,
}

impl World {
    /// `big_entries`: lift the test host's mainnet per-invocation resource limits (a 1000-entry
    /// spending history is an ~80 KB ledger entry, above the 64 KiB mainnet entry limit, and the
    /// host would abort the invocation before the library's own 1000-entry bound is reached)
    fn new(seq: u32, kind: Kind, pool_n: usize, ext_mask: u32, big_entries: bool) -> World {
        let e = envx::new_env(seq.max(1), envx::BIG_TTL);
        if big_entries {
            e.cost_estimate().disable_resource_limits();
        }
        let policy = match kind {
            Kind::Simple => e.register(crate::examples::threshold_policy::contract::ThresholdPolicyContract, ()),
            Kind::Weighted => e.register(crate::contracts::c14::weighted_policy::WeightedPolicy, ()),
            Kind::Spending => e.register(crate::examples::spending_limit_policy::contract::SpendingLimitPolicyContract, ()),
        };
        let accts = envx::actors(&e, 2);
        let outsider = envx::actor(&e);
        let token = Address::generate(&e);
        let verifier = Address::generate(&e);
        let mut pool = vec![];
        for i in 0..pool_n {
            if (ext_mask >> i) & 1 == 1 {
                let key = Bytes::from_slice(&e, &[i as u8 + 1; 32]);
                pool.push(Signer::External(verifier.clone(), key));
            } else {
                pool.push(Signer::Delegated(Address::generate(&e)));
            }
        }
        envx::no_auth(&e);
        World { e, policy, accts, outsider, token, pool }
    }

    fn acct(&self, slot: usize) -> &Address {
        &self.accts[SLOTS[slot].0]
    }
    fn other_acct(&self, slot: usize) -> &Address {
        &self.accts[1 - SLOTS[slot].0]
    }
    fn rule_id(&self, slot: usize) -> u32 {
        RULE_IDS[SLOTS[slot].1]
    }
    /// the context rule of `slot` with the first `n` pool signers
    fn rule(&self, slot: usize, n: usize) -> ContextRule {
        let e = &self.e;
        let mut signers = SVec::new(e);
        for s in self.pool.iter().take(n) {
            signers.push_back(s.clone());
        }
        let mut policies = SVec::new(e);
        policies.push_back(self.policy.clone());
        ContextRule {
            id: self.rule_id(slot),
            context_type: ContextRuleType::Default,
            name: SString::from_str(e, "rule"),
            signers,
            policies,
            valid_until: None,
        }
    }
    /// duplicate-free subset of the rule's first `n` signers: `k` of them starting at `rot`
    fn subset(&self, n: usize, k: usize, rot: usize) -> SVec<Signer> {
        let mut v = SVec::new(&self.e);
        if n == 0 {
            return v;
        }
        for j in 0..k.min(n) {
            v.push_back(self.pool[(rot + j) % n].clone());
        }
        v
    }
    fn subset_mask(&self, n: usize, mask: u32) -> SVec<Signer> {
        let mut v = SVec::new(&self.e);
        for j in 0..n {
            if (mask >> j) & 1 == 1 {
                v.push_back(self.pool[j].clone());
            }
        }
        v
    }

    fn ctx(&self, kind: &CtxKind, amount: i128) -> Context {
        let e = &self.e;
        let from = self.accts[0].clone();
        let to = self.outsider.clone();
        let call = |name: &str, args: SVec<Val>| {
            Context::Contract(ContractContext { contract: self.token.clone(), fn_name: Symbol::new(e, name), args })
        };
        match kind {
            CtxKind::Transfer => call("transfer", args![e; from, to, amount]),
            CtxKind::Approve => call("approve", args![e; from, to, amount, 1000u32]),
            CtxKind::TransferFrom => call("transfer_from", args![e; to.clone(), from, to, amount]),
            CtxKind::Transfer2 => call("transfer", args![e; from, to]),
            CtxKind::TransferBad(k) => {
                let third: Val = match k % 6 {
                    0 => 5u32.into_val(e),
                    1 => to.clone().into_val(e),
                    2 => 7u128.into_val(e),
                    3 => 7i64.into_val(e),
                    4 => ().into_val(e),
                    _ => Symbol::new(e, "one").into_val(e),
                };
                call("transfer", args![e; from, to, third])
            }
            CtxKind::Create => Context::CreateContractHostFn(CreateContractHostFnContext {
                executable: ContractExecutable::Wasm(BytesN::from_array(e, &[1u8; 32])),
                salt: BytesN::from_array(e, &[2u8; 32]),
            }),
            CtxKind::CreateCtor => Context::CreateContractWithCtorHostFn(CreateContractWithConstructorHostFnContext {
                executable: ContractExecutable::Wasm(BytesN::from_array(e, &[1u8; 32])),
                salt: BytesN::from_array(e, &[2u8; 32]),
                constructor_args: args![e; from, to, amount],
            }),
        }
    }

    /// invoke a policy function with the account's exact entry (plus an unrelated one if `surplus`)
    fn call_authorized(&self, func: &str, args: &SVec<Val>, slot: usize, surplus: bool) -> Result<Val, String> {
        let e = &self.e;
        let inv = Inv::new(&self.policy, func, args.clone());
        if surplus {
            let junk = Inv::new(&self.policy, "uninstall", args![e; 1u32]);
            envx::set_auth(e, &[(self.acct(slot), &inv), (&self.outsider, &junk)]);
        } else {
            envx::set_auth(e, &[(self.acct(slot), &inv)]);
        }
        let r = envx::call(e, &self.policy, func, args.clone());
        envx::no_auth(e);
        r
    }

    /// invoke WITHOUT the account's exact entry
    fn call_unauthorized(&self, func: &str, args: &SVec<Val>, slot: usize, bad: Bad) -> Result<Val, String> {
        let e = &self.e;
        match bad {
            Bad::NoEntry => envx::no_auth(e),
            Bad::OtherActor => {
                let inv = Inv::new(&self.policy, func, args.clone());
                envx::set_auth(e, &[(self.other_acct(slot), &inv), (&self.outsider, &inv)]);
            }
            Bad::WrongFn => {
                let f2 = if func == "uninstall" { "install" } else { "uninstall" };
                let inv = Inv::new(&self.policy, f2, args.clone());
                envx::set_auth(e, &[(self.acct(slot), &inv)]);
            }
            Bad::WrongArgs => {
                let mut a2: SVec<Val> = SVec::new(e);
                let len = args.len();
                for (i, v) in args.iter().enumerate() {
                    if i as u32 + 1 == len {
                        a2.push_back(self.outsider.clone().into_val(e));
                    } else {
                        a2.push_back(v);
                    }
                }
                let inv = Inv::new(&self.policy, func, a2);
                envx::set_auth(e, &[(self.acct(slot), &inv)]);
            }
        }
        let r = envx::call(e, &self.policy, func, args.clone());
        envx::no_auth(e);
        r
    }

    /// read-only can_enforce; a failing call counts as `false` (second component: the call failed)
    fn can_enforce(&self, args: &SVec<Val>) -> (bool, bool) {
        envx::no_auth(&self.e);
        match envx::call_t::<bool>(&self.e, &self.policy, "can_enforce", args.clone()) {
            Ok(b) => (b, false),
            Err(_) => (false, true),
        }
    }
}

/// The unauthorized attempt (if requested): must fail and leave `dump()` equal to `before`.
fn probe_unauthorized<D: PartialEq + std::fmt::Debug>(
    w: &World,
    ctx: &mut Ctx,
    sub: &str,
    func: &str,
    args: &SVec<Val>,
    slot: usize,
    bad: &Option<Bad>,
    before: &D,
    dump: &dyn Fn() -> Result<D, Violation>,
) -> R {
    let Some(b) = bad else { return Ok(()) };
    let r = w.call_unauthorized(func, args, slot, *b);
    ctx.op(r.is_ok());
    ctx.class("unauthorized_attempt");
    if r.is_ok() {
        return Err(violation(
            format!("C14/{sub}/{func}/accepted-without-account-auth"),
            format!("{func} succeeded with auth mode {b:?} (no exact entry of the smart account attached)"),
        ));
    }
    let after = dump()?;
    if &after != before {
        return Err(violation(
            format!("C14/{sub}/{func}/unauthorized-call-changed-state"),
            format!("{func} with auth mode {b:?} failed but state changed: before {before:?} after {after:?}"),
        ));
    }
    Ok(())
}

// ------------------------------------------------------------------------------------------
// sub 1: simple threshold (example ThresholdPolicyContract)
// ------------------------------------------------------------------------------------------

#[derive(Clone, Copy, Debug, Serialize, Deserialize)]
pub enum Thr {
    Zero,
    One,
    NMinus1,
    N,
    NPlus1,
    Max,
    Raw(u32),
}

#[derive(Clone, Copy, Debug, Serialize, Deserialize)]
pub enum Sub {
    /// |authenticated| = threshold + d (clamped to 0..=n)
    ThrPlus(i8),
    Count(u8),
    All,
    Empty,
}

#[derive(Clone, Debug, Serialize, Deserialize)]
pub enum SOp {
    Install { slot: u8, thr: Thr, bad: Option<Bad>, surplus: bool },
    SetThreshold { slot: u8, thr: Thr, bad: Option<Bad>, surplus: bool },
    Uninstall { slot: u8, bad: Option<Bad>, surplus: bool },
    Check { slot: u8, sub: Sub, rot: u8, ctx: CtxKind, bad: Option<Bad>, surplus: bool },
    /// the rule's signer set changes (the policy is not notified; docs: "signer set divergence")
    Resize { n: u8 },
}

#[derive(Clone, Debug, Serialize, Deserialize)]
pub struct SimpleCase {
    pub seq: u32,
    pub n: u8,
    pub ext_mask: u16,
    pub ops: Vec<SOp>,
}

fn thr_strategy() -> BoxedStrategy<Thr> {
    prop_oneof![
        2 => Just(Thr::Zero),
        3 => Just(Thr::One),
        3 => Just(Thr::NMinus1),
        4 => Just(Thr::N),
        3 => Just(Thr::NPlus1),
        1 => Just(Thr::Max),
        3 => (0u32..=17).prop_map(Thr::Raw),
        1 => prop_oneof![Just(u32::MAX - 1), Just(1u32 << 31), Just(16u32), Just(256u32)].prop_map(Thr::Raw),
    ]
    .boxed()
}

fn sub_strategy() -> BoxedStrategy<Sub> {
    prop_oneof![
        6 => (-1i8..=1).prop_map(Sub::ThrPlus),
        2 => (0u8..=15).prop_map(Sub::Count),
        1 => Just(Sub::All),
        1 => Just(Sub::Empty),
    ]
    .boxed()
}

fn simple_strategy(tier: Tier) -> BoxedStrategy<SimpleCase> {
    let max_ops = tier.pick(24usize, 40usize);
    let op = prop_oneof![
        4 => (slot_strategy(), thr_strategy(), bad_strategy(1), proptest::bool::weighted(0.15))
            .prop_map(|(slot, thr, bad, surplus)| SOp::Install { slot, thr, bad, surplus }),
        4 => (slot_strategy(), thr_strategy(), bad_strategy(1), proptest::bool::weighted(0.15))
            .prop_map(|(slot, thr, bad, surplus)| SOp::SetThreshold { slot, thr, bad, surplus }),
        2 => (slot_strategy(), bad_strategy(1), proptest::bool::weighted(0.15))
            .prop_map(|(slot, bad, surplus)| SOp::Uninstall { slot, bad, surplus }),
        9 => (slot_strategy(), sub_strategy(), 0u8..16, ctx_strategy_any(), bad_strategy(1), proptest::bool::weighted(0.15))
            .prop_map(|(slot, sub, rot, ctx, bad, surplus)| SOp::Check { slot, sub, rot, ctx, bad, surplus }),
        1 => (0u8..=15).prop_map(|n| SOp::Resize { n }),
    ];
    let base = (
        prop_oneof![3 => 1u32..=5, 2 => 1u32..100_000],
        prop_oneof![1 => Just(0u8), 1 => Just(1u8), 1 => Just(15u8), 6 => 0u8..=15],
        any::<u16>(),
        proptest::collection::vec(op, 1..max_ops),
    )
        .prop_map(|(seq, n, ext_mask, ops)| SimpleCase { seq, n, ext_mask, ops })
        .boxed();
    // most histories start from an installed main slot (otherwise `false` answers dominate)
    (base, 0u8..10, prop_oneof![Just(Thr::One), Just(Thr::N), Just(Thr::NMinus1), (1u32..=4).prop_map(Thr::Raw)])
        .prop_map(|(mut c, coin, thr)| {
            if coin < 7 {
                c.ops.insert(0, SOp::Install { slot: 0, thr, bad: Some(Bad::NoEntry), surplus: false });
            }
            c
        })
        .boxed()
}

fn resolve_thr(t: &Thr, n: usize) -> u32 {
    match t {
        Thr::Zero => 0,
        Thr::One => 1,
        Thr::NMinus1 => (n as u32).saturating_sub(1),
        Thr::N => n as u32,
        Thr::NPlus1 => n as u32 + 1,
        Thr::Max => u32::MAX,
        Thr::Raw(x) => *x,
    }
}

fn simple_dump(w: &World) -> Result<Vec<Option<u32>>, Violation> {
    let mut out = vec![];
    for s in 0..SLOTS.len() {
        let r = envx::call_t::<u32>(&w.e, &w.policy, "get_threshold", args![&w.e; w.rule_id(s), w.acct(s).clone()]);
        out.push(r.ok());
    }
    Ok(out)
}

pub fn run_simple(case: &SimpleCase, ctx: &mut Ctx) -> R {
    let w = World::new(case.seq, Kind::Simple, 16, case.ext_mask as u32, false);
    let e = &w.e;
    let mut n = case.n.min(15) as usize;
    let mut model: Vec<Option<u32>> = vec![None; SLOTS.len()];
    let (mut saw_true, mut saw_false) = (false, false);
    let dump = || simple_dump(&w);

    let mut before = dump()?;
    ensure!(before == model, "C14/simple/state/model-mismatch", "fresh contract: get_threshold per slot {:?}", before);
    for (step, op) in case.ops.iter().enumerate() {
        match op {
            SOp::Resize { n: nn } => {
                n = (*nn).min(15) as usize;
                ctx.class("simple_resize");
            }
            SOp::Install { slot, thr, bad, surplus } => {
                let s = *slot as usize % SLOTS.len();
                let t = resolve_thr(thr, n);
                let args = args![e; SimpleThresholdAccountParams { threshold: t }, w.rule(s, n), w.acct(s).clone()];
                probe_unauthorized(&w, ctx, "simple", "install", &args, s, bad, &before, &dump)?;
                let r = w.call_authorized("install", &args, s, *surplus);
                ctx.op(r.is_ok());
                let valid = t >= 1 && t as usize <= n;
                if r.is_ok() {
                    ensure!(t != 0, "C14/simple/install/zero-threshold-accepted", "step {step}: install(threshold 0) succeeded with {n} signers");
                    ensure!(t as usize <= n, "C14/simple/install/unreachable-threshold-accepted", "step {step}: install(threshold {t}) succeeded with only {n} rule signers");
                    ensure!(model[s].is_none(), "C14/simple/install/reinstall-accepted", "step {step}: install succeeded although already installed (threshold {:?})", model[s]);
                    model[s] = Some(t);
                    ctx.class("simple_install_ok");
                } else {
                    ensure!(!(valid && model[s].is_none()), "C14/simple/install/valid-install-refused", "step {step}: install(threshold {t}) with {n} signers on a fresh slot failed: {:?}", r);
                    ctx.class(if !valid { "simple_install_refused_invalid" } else { "simple_install_refused_installed" });
                }
            }
            SOp::SetThreshold { slot, thr, bad, surplus } => {
                let s = *slot as usize % SLOTS.len();
                let t = resolve_thr(thr, n);
                let args = args![e; t, w.rule(s, n), w.acct(s).clone()];
                probe_unauthorized(&w, ctx, "simple", "set_threshold", &args, s, bad, &before, &dump)?;
                let r = w.call_authorized("set_threshold", &args, s, *surplus);
                ctx.op(r.is_ok());
                let valid = t >= 1 && t as usize <= n;
                if r.is_ok() {
                    ensure!(t != 0, "C14/simple/set_threshold/zero-threshold-accepted", "step {step}: set_threshold(0) succeeded with {n} signers");
                    ensure!(t as usize <= n, "C14/simple/set_threshold/unreachable-threshold-accepted", "step {step}: set_threshold({t}) succeeded with only {n} rule signers");
                    if model[s].is_none() {
                        // docs do not say whether set_threshold needs a prior install: adopt
                        ctx.class("simple_set_threshold_on_uninstalled");
                    }
                    model[s] = Some(t);
                    ctx.class("simple_set_ok");
                } else {
                    if model[s].is_some() {
                        ensure!(!valid, "C14/simple/set_threshold/valid-threshold-refused", "step {step}: set_threshold({t}) with {n} signers failed: {:?}", r);
                    }
                    ctx.class("simple_set_refused");
                }
            }
            SOp::Uninstall { slot, bad, surplus } => {
                let s = *slot as usize % SLOTS.len();
                let args = args![e; w.rule(s, n), w.acct(s).clone()];
                probe_unauthorized(&w, ctx, "simple", "uninstall", &args, s, bad, &before, &dump)?;
                let r = w.call_authorized("uninstall", &args, s, *surplus);
                ctx.op(r.is_ok());
                if r.is_ok() {
                    model[s] = None;
                } else {
                    ensure!(model[s].is_none(), "C14/simple/uninstall/refused", "step {step}: uninstall of an installed policy failed: {:?}", r);
                }
            }
            SOp::Check { slot, sub, rot, ctx: ck, bad, surplus } => {
                let s = *slot as usize % SLOTS.len();
                let thr = model[s];
                let k = match sub {
                    Sub::ThrPlus(d) => (thr.unwrap_or(1) as i64 + *d as i64).clamp(0, n as i64) as usize,
                    Sub::Count(c) => (*c as usize).min(n),
                    Sub::All => n,
                    Sub::Empty => 0,
                };
                let auth = w.subset(n, k, *rot as usize);
                let k = auth.len() as usize;
                let args = args![e; w.ctx(ck, 5), auth, w.rule(s, n), w.acct(s).clone()];
                let expected = matches!(thr, Some(t) if k as u64 >= t as u64);
                let (can, can_failed) = w.can_enforce(&args);
                if can_failed {
                    ctx.class("can_enforce_call_failed");
                }
                ensure!(
                    can == expected,
                    "C14/simple/can_enforce/wrong-answer",
                    "step {step}: can_enforce = {can} with {k} authenticated of {n} signers, threshold {:?}",
                    thr
                );
                probe_unauthorized(&w, ctx, "simple", "enforce", &args, s, bad, &before, &dump)?;
                let r = w.call_authorized("enforce", &args, s, *surplus);
                ctx.op(r.is_ok());
                ensure!(
                    r.is_ok() == can,
                    "C14/simple/enforce/disagrees-with-can_enforce",
                    "step {step}: can_enforce = {can} but authorized enforce -> {:?} ({k} authenticated, threshold {:?})",
                    r,
                    thr
                );
                if can {
                    saw_true = true;
                    ctx.class("simple_can_true");
                    if thr == Some(k as u32) {
                        ctx.class("simple_exactly_at_threshold");
                    }
                } else {
                    saw_false = true;
                    ctx.class("simple_can_false");
                    if matches!(thr, Some(t) if t == k as u32 + 1) {
                        ctx.class("simple_one_below_threshold");
                    }
                }
            }
        }
        let after = dump()?;
        ensure!(after == model, "C14/simple/state/model-mismatch", "after step {step} {:?}: get_threshold per slot {:?}, model {:?}", op, after, model);
        before = after;
    }
    if saw_true && saw_false {
        ctx.nontrivial = true;
        ctx.class("nontrivial");
        ctx.class("nontrivial_simple");
    }
    Ok(())
}

// ------------------------------------------------------------------------------------------
// sub 2: weighted threshold (harness WeightedPolicy = weighted_threshold::* 1:1)
// ------------------------------------------------------------------------------------------

#[derive(Clone, Copy, Debug, Serialize, Deserialize)]
pub enum W {
    Abs(u32),
    /// weight such that the configured total becomes u32::MAX + d
    FillTotalTo(i8),
    /// weight such that the configured total becomes threshold + d
    ThrEdge(i8),
}

#[derive(Clone, Copy, Debug, Serialize, Deserialize)]
pub enum WThr {
    Zero,
    One,
    /// configured total + d
    TotalPlus(i8),
    Max,
    Raw(u32),
    /// (sum of the weights of the rule signers selected by the mask) + d; remembers the mask
    MaskSumPlus(u8, i8),
}

#[derive(Clone, Copy, Debug, Serialize, Deserialize)]
pub enum SubW {
    Mask(u8),
    All,
    Empty,
    /// the mask last used by a `MaskSumPlus` threshold
    LastThrMask,
}

#[derive(Clone, Debug, Serialize, Deserialize)]
pub enum WOp {
    Install { slot: u8, weights: Vec<(u16, W)>, thr: WThr, bad: Option<Bad>, surplus: bool },
    SetThreshold { slot: u8, thr: WThr, bad: Option<Bad>, surplus: bool },
    SetWeight { slot: u8, key: u16, w: W, bad: Option<Bad>, surplus: bool },
    Uninstall { slot: u8, bad: Option<Bad>, surplus: bool },
    Check { slot: u8, sub: SubW, ctx: CtxKind, bad: Option<Bad>, surplus: bool },
}

#[derive(Clone, Debug, Serialize, Deserialize)]
pub struct WCase {
    pub seq: u32,
    /// rule signers
    pub n: u8,
    /// additional weight-map keys that are not rule signers
    pub extras: u8,
    pub ext_mask: u16,
    pub ops: Vec<WOp>,
}

fn w_strategy() -> BoxedStrategy<W> {
    prop_oneof![
        6 => prop_oneof![Just(0u32), Just(1), Just(2), Just(3), Just(5), Just(10), Just(100)].prop_map(W::Abs),
        3 => prop_oneof![Just(u32::MAX), Just(u32::MAX - 1), Just(u32::MAX / 2), Just(u32::MAX / 2 + 1), Just(1u32 << 31), Just((1u32 << 31) - 1)]
            .prop_map(W::Abs),
        1 => any::<u32>().prop_map(W::Abs),
        3 => (-1i8..=2).prop_map(W::FillTotalTo),
        3 => (-1i8..=1).prop_map(W::ThrEdge),
    ]
    .boxed()
}

fn wthr_strategy() -> BoxedStrategy<WThr> {
    prop_oneof![
        2 => Just(WThr::Zero),
        2 => Just(WThr::One),
        6 => (-1i8..=1).prop_map(WThr::TotalPlus),
        1 => Just(WThr::Max),
        2 => prop_oneof![0u32..=20, any::<u32>()].prop_map(WThr::Raw),
        6 => (any::<u8>(), -1i8..=1).prop_map(|(m, d)| WThr::MaskSumPlus(m, d)),
    ]
    .boxed()
}

fn subw_strategy() -> BoxedStrategy<SubW> {
    prop_oneof![
        4 => any::<u8>().prop_map(SubW::Mask),
        2 => Just(SubW::All),
        1 => Just(SubW::Empty),
        5 => Just(SubW::LastThrMask),
    ]
    .boxed()
}

fn weighted_strategy(tier: Tier) -> BoxedStrategy<WCase> {
    let max_ops = tier.pick(24usize, 40usize);
    let install = (
        slot_strategy(),
        proptest::collection::vec((any::<u16>(), w_strategy()), 0..=7),
        wthr_strategy(),
        bad_strategy(1),
        proptest::bool::weighted(0.15),
    )
        .prop_map(|(slot, weights, thr, bad, surplus)| WOp::Install { slot, weights, thr, bad, surplus });
    let op = prop_oneof![
        3 => install.clone(),
        4 => (slot_strategy(), wthr_strategy(), bad_strategy(1), proptest::bool::weighted(0.15))
            .prop_map(|(slot, thr, bad, surplus)| WOp::SetThreshold { slot, thr, bad, surplus }),
        5 => (slot_strategy(), any::<u16>(), w_strategy(), bad_strategy(1), proptest::bool::weighted(0.15))
            .prop_map(|(slot, key, w, bad, surplus)| WOp::SetWeight { slot, key, w, bad, surplus }),
        1 => (slot_strategy(), bad_strategy(1), proptest::bool::weighted(0.15))
            .prop_map(|(slot, bad, surplus)| WOp::Uninstall { slot, bad, surplus }),
        9 => (slot_strategy(), subw_strategy(), ctx_strategy_any(), bad_strategy(1), proptest::bool::weighted(0.15))
            .prop_map(|(slot, sub, ctx, bad, surplus)| WOp::Check { slot, sub, ctx, bad, surplus }),
    ];
    let base = (
        prop_oneof![3 => 1u32..=5, 2 => 1u32..100_000],
        prop_oneof![1 => Just(0u8), 1 => Just(1u8), 8 => 2u8..=6],
        0u8..=2,
        any::<u16>(),
        proptest::collection::vec(op, 1..max_ops),
    )
        .prop_map(|(seq, n, extras, ext_mask, ops)| WCase { seq, n, extras, ext_mask, ops });
    // most histories start from an installed main slot: small distinct weights, reachable threshold
    (base, 0u8..10, proptest::collection::vec(1u32..=9, 8), any::<u8>())
        .prop_map(|(mut c, coin, ws, m)| {
            if coin < 7 {
                let nk = (c.n + c.extras).max(1) as usize;
                let weights: Vec<(u16, W)> =
                    (0..nk).map(|i| ((((i as u32) << 16) / nk as u32 + 1).min(65535) as u16, W::Abs(ws[i % 8]))).collect();
                c.ops.insert(0, WOp::Install { slot: 0, weights, thr: WThr::MaskSumPlus(m | 1, 0), bad: Some(Bad::NoEntry), surplus: false });
            }
            c
        })
        .boxed()
}

#[derive(Clone, Debug, PartialEq, Eq)]
struct WM {
    thr: u32,
    weights: BTreeMap<usize, u32>,
}
impl WM {
    fn total(&self) -> u64 {
        self.weights.values().map(|x| *x as u64).sum()
    }
    fn normalised(&self) -> WM {
        WM { thr: self.thr, weights: self.weights.iter().filter(|(_, w)| **w != 0).map(|(k, w)| (*k, *w)).collect() }
    }
}

fn weighted_dump(w: &World, n: usize) -> Result<Vec<Option<WM>>, Violation> {
    let e = &w.e;
    let mut out = vec![];
    for s in 0..SLOTS.len() {
        let t = envx::call_t::<u32>(e, &w.policy, "get_threshold", args![e; w.rule_id(s), w.acct(s).clone()]);
        let m = envx::call_t::<Map<Signer, u32>>(e, &w.policy, "get_signer_weights", args![e; w.rule(s, n), w.acct(s).clone()]);
        match (t, m) {
            (Ok(thr), Ok(map)) => {
                let mut weights = BTreeMap::new();
                for (sg, wt) in map.iter() {
                    let Some(i) = w.pool.iter().position(|p| *p == sg) else {
                        bail!("C14/weighted/get_signer_weights/unknown-signer", "slot {s}: weight map contains a signer that was never configured")
                    };
                    if wt != 0 {
                        weights.insert(i, wt);
                    }
                }
                out.push(Some(WM { thr, weights }));
            }
            (Err(_), Err(_)) => out.push(None),
            (t, m) => bail!("C14/weighted/getters/inconsistent", "slot {s}: get_threshold -> {:?} but get_signer_weights ok = {}", t, m.is_ok()),
        }
    }
    Ok(out)
}

fn resolve_w(w: &W, cur: &BTreeMap<usize, u32>, key: usize, thr: Option<u32>) -> u32 {
    let others: i64 = cur.iter().filter(|(k, _)| **k != key).map(|(_, v)| *v as i64).sum();
    match w {
        W::Abs(x) => *x,
        W::FillTotalTo(d) => (u32::MAX as i64 + *d as i64 - others).clamp(0, u32::MAX as i64) as u32,
        W::ThrEdge(d) => match thr {
            Some(t) => (t as i64 + *d as i64 - others).clamp(0, u32::MAX as i64) as u32,
            None => 1,
        },
    }
}

fn resolve_wthr(t: &WThr, weights: &BTreeMap<usize, u32>, n: usize, last_mask: &mut u32) -> u32 {
    let total: i64 = weights.values().map(|x| *x as i64).sum();
    let cl = |x: i64| x.clamp(0, u32::MAX as i64) as u32;
    match t {
        WThr::Zero => 0,
        WThr::One => 1,
        WThr::TotalPlus(d) => cl(total + *d as i64),
        WThr::Max => u32::MAX,
        WThr::Raw(x) => *x,
        WThr::MaskSumPlus(m, d) => {
            *last_mask = *m as u32;
            let sum: i64 = weights.iter().filter(|(k, _)| **k < n && (*m as u32 >> **k) & 1 == 1).map(|(_, v)| *v as i64).sum();
            cl(sum + *d as i64)
        }
    }
}

pub fn run_weighted(case: &WCase, ctx: &mut Ctx) -> R {
    let n = case.n.min(6) as usize;
    let nkeys = n + case.extras.min(2) as usize;
    let w = World::new(case.seq, Kind::Weighted, nkeys.max(1), case.ext_mask as u32, false);
    let e = &w.e;
    let mut model: Vec<Option<WM>> = vec![None; SLOTS.len()];
    let mut last_mask: u32 = 0xff;
    let (mut saw_true, mut saw_false) = (false, false);
    let dump = || weighted_dump(&w, n);
    let norm = |m: &Vec<Option<WM>>| -> Vec<Option<WM>> { m.iter().map(|x| x.as_ref().map(|y| y.normalised())).collect() };

    let mut before = dump()?;
    ensure!(before == norm(&model), "C14/weighted/state/model-mismatch", "fresh contract: getters {:?}", before);
    for (step, op) in case.ops.iter().enumerate() {
        match op {
            WOp::Install { slot, weights, thr, bad, surplus } => {
                let s = *slot as usize % SLOTS.len();
                let mut map: BTreeMap<usize, u32> = BTreeMap::new();
                if nkeys > 0 {
                    for (ksel, wt) in weights {
                        let k = pick(*ksel, nkeys);
                        let x = resolve_w(wt, &map, k, None);
                        map.insert(k, x);
                    }
                }
                let t = resolve_wthr(thr, &map, n, &mut last_mask);
                let mut smap: Map<Signer, u32> = Map::new(e);
                for (k, x) in &map {
                    smap.set(w.pool[*k].clone(), *x);
                }
                let params = WeightedThresholdAccountParams { signer_weights: smap, threshold: t };
                let args = args![e; params, w.rule(s, n), w.acct(s).clone()];
                probe_unauthorized(&w, ctx, "weighted", "install", &args, s, bad, &before, &dump)?;
                let r = w.call_authorized("install", &args, s, *surplus);
                ctx.op(r.is_ok());
                let total: u64 = map.values().map(|x| *x as u64).sum();
                let overflow = total > u32::MAX as u64;
                if overflow {
                    ctx.class("weighted_install_sum_past_u32");
                }
                let valid = !overflow && t >= 1 && t as u64 <= total;
                if r.is_ok() {
                    ensure!(t != 0, "C14/weighted/install/zero-threshold-accepted", "step {step}: install(threshold 0) succeeded");
                    ensure!(!overflow, "C14/weighted/install/overflowing-sum-accepted", "step {step}: install succeeded with weights summing to {total} > u32::MAX (threshold {t})");
                    ensure!(t as u64 <= total, "C14/weighted/install/unreachable-threshold-accepted", "step {step}: install(threshold {t}) succeeded, configured total weight {total}");
                    ensure!(model[s].is_none(), "C14/weighted/install/reinstall-accepted", "step {step}: install succeeded although already installed");
                    model[s] = Some(WM { thr: t, weights: map });
                    ctx.class("weighted_install_ok");
                } else {
                    ensure!(!(valid && model[s].is_none()), "C14/weighted/install/valid-install-refused", "step {step}: install(threshold {t}, total {total}) on a fresh slot failed: {:?}", r);
                    ctx.class("weighted_install_refused");
                }
            }
            WOp::SetThreshold { slot, thr, bad, surplus } => {
                let s = *slot as usize % SLOTS.len();
                let empty = BTreeMap::new();
                let cur = model[s].as_ref().map(|m| &m.weights).unwrap_or(&empty);
                let t = resolve_wthr(thr, cur, n, &mut last_mask);
                let args = args![e; t, w.rule(s, n), w.acct(s).clone()];
                probe_unauthorized(&w, ctx, "weighted", "set_threshold", &args, s, bad, &before, &dump)?;
                let r = w.call_authorized("set_threshold", &args, s, *surplus);
                ctx.op(r.is_ok());
                let total = model[s].as_ref().map(|m| m.total()).unwrap_or(0);
                if r.is_ok() {
                    ensure!(model[s].is_some(), "C14/weighted/set_threshold/accepted-uninstalled", "step {step}: set_threshold({t}) succeeded on a slot that is not installed");
                    ensure!(t != 0, "C14/weighted/set_threshold/zero-threshold-accepted", "step {step}: set_threshold(0) succeeded");
                    ensure!(t as u64 <= total, "C14/weighted/set_threshold/unreachable-threshold-accepted", "step {step}: set_threshold({t}) succeeded, configured total weight {total}");
                    model[s].as_mut().unwrap().thr = t;
                    ctx.class("weighted_set_threshold_ok");
                } else {
                    ensure!(
                        !(model[s].is_some() && t >= 1 && t as u64 <= total),
                        "C14/weighted/set_threshold/valid-threshold-refused",
                        "step {step}: set_threshold({t}) with total {total} failed: {:?}",
                        r
                    );
                    ctx.class("weighted_set_threshold_refused");
                }
            }
            WOp::SetWeight { slot, key, w: wt, bad, surplus } => {
                let s = *slot as usize % SLOTS.len();
                if nkeys == 0 {
                    ctx.class("skipped_op");
                    continue;
                }
                let k = pick(*key, nkeys);
                let empty = BTreeMap::new();
                let cur = model[s].as_ref().map(|m| &m.weights).unwrap_or(&empty);
                let x = resolve_w(wt, cur, k, model[s].as_ref().map(|m| m.thr));
                let args = args![e; w.pool[k].clone(), x, w.rule(s, n), w.acct(s).clone()];
                probe_unauthorized(&w, ctx, "weighted", "set_signer_weight", &args, s, bad, &before, &dump)?;
                let r = w.call_authorized("set_signer_weight", &args, s, *surplus);
                ctx.op(r.is_ok());
                let mut newmap = cur.clone();
                newmap.insert(k, x);
                let total: u64 = newmap.values().map(|v| *v as u64).sum();
                let overflow = total > u32::MAX as u64;
                if overflow {
                    ctx.class("weighted_set_weight_sum_past_u32");
                }
                let thr = model[s].as_ref().map(|m| m.thr);
                if r.is_ok() {
                    ensure!(model[s].is_some(), "C14/weighted/set_signer_weight/accepted-uninstalled", "step {step}: set_signer_weight succeeded on a slot that is not installed");
                    ensure!(!overflow, "C14/weighted/set_signer_weight/overflowing-sum-accepted", "step {step}: set_signer_weight({x}) succeeded, new total {total} > u32::MAX");
                    ensure!(
                        thr.unwrap() as u64 <= total,
                        "C14/weighted/set_signer_weight/threshold-left-unreachable",
                        "step {step}: set_signer_weight({x}) succeeded, new total {total} < threshold {:?}",
                        thr
                    );
                    model[s].as_mut().unwrap().weights = newmap;
                    ctx.class("weighted_set_weight_ok");
                    if thr.unwrap() as u64 == total {
                        ctx.class("weighted_total_equals_threshold");
                    }
                } else {
                    ensure!(
                        !(model[s].is_some() && !overflow && thr.unwrap() as u64 <= total),
                        "C14/weighted/set_signer_weight/valid-weight-refused",
                        "step {step}: set_signer_weight({x}) (new total {total}, threshold {:?}) failed: {:?}",
                        thr,
                        r
                    );
                    ctx.class("weighted_set_weight_refused");
                }
            }
            WOp::Uninstall { slot, bad, surplus } => {
                let s = *slot as usize % SLOTS.len();
                let args = args![e; w.rule(s, n), w.acct(s).clone()];
                probe_unauthorized(&w, ctx, "weighted", "uninstall", &args, s, bad, &before, &dump)?;
                let r = w.call_authorized("uninstall", &args, s, *surplus);
                ctx.op(r.is_ok());
                if r.is_ok() {
                    model[s] = None;
                } else {
                    ensure!(model[s].is_none(), "C14/weighted/uninstall/refused", "step {step}: uninstall of an installed policy failed: {:?}", r);
                }
            }
            WOp::Check { slot, sub, ctx: ck, bad, surplus } => {
                let s = *slot as usize % SLOTS.len();
                let full = (1u32 << n) - 1;
                let mask = match sub {
                    SubW::Mask(m) => *m as u32 & full,
                    SubW::All => full,
                    SubW::Empty => 0,
                    SubW::LastThrMask => last_mask & full,
                };
                let auth = w.subset_mask(n, mask);
                let args = args![e; w.ctx(ck, 5), auth, w.rule(s, n), w.acct(s).clone()];
                let sum: Option<u64> = model[s]
                    .as_ref()
                    .map(|m| m.weights.iter().filter(|(k, _)| **k < n && (mask >> **k) & 1 == 1).map(|(_, v)| *v as u64).sum());
                let thr = model[s].as_ref().map(|m| m.thr);
                let expected = matches!((sum, thr), (Some(sm), Some(t)) if sm >= t as u64);
                let (can, can_failed) = w.can_enforce(&args);
                if can_failed {
                    ctx.class("can_enforce_call_failed");
                }
                ensure!(
                    can == expected,
                    "C14/weighted/can_enforce/wrong-answer",
                    "step {step}: can_enforce = {can} (call failed: {can_failed}); authenticated weight {:?}, threshold {:?}, mask {mask:#b}",
                    sum,
                    thr
                );
                probe_unauthorized(&w, ctx, "weighted", "enforce", &args, s, bad, &before, &dump)?;
                let r = w.call_authorized("enforce", &args, s, *surplus);
                ctx.op(r.is_ok());
                ensure!(
                    r.is_ok() == can,
                    "C14/weighted/enforce/disagrees-with-can_enforce",
                    "step {step}: can_enforce = {can} but authorized enforce -> {:?} (weight {:?}, threshold {:?})",
                    r,
                    sum,
                    thr
                );
                if can {
                    saw_true = true;
                    ctx.class("weighted_can_true");
                    if sum == thr.map(|t| t as u64) {
                        ctx.class("weighted_exactly_at_threshold");
                    }
                } else {
                    saw_false = true;
                    ctx.class("weighted_can_false");
                    if matches!((sum, thr), (Some(sm), Some(t)) if sm + 1 == t as u64) {
                        ctx.class("weighted_one_below_threshold");
                    }
                }
            }
        }
        let after = dump()?;
        ensure!(after == norm(&model), "C14/weighted/state/model-mismatch", "after step {step} {:?}: getters {:?}, model {:?}", op, after, model);
        before = after;
    }
    if saw_true && saw_false {
        ctx.nontrivial = true;
        ctx.class("nontrivial");
        ctx.class("nontrivial_weighted");
    }
    Ok(())
}

// ------------------------------------------------------------------------------------------
// sub 3: spending limit (example SpendingLimitPolicyContract)
// ------------------------------------------------------------------------------------------

const LIMITS: [i128; 15] = [
    1,
    2,
    3,
    10,
    100,
    1000,
    5000,
    10_000_000,
    (1i128 << 63) - 1,
    1i128 << 63,
    1i128 << 64,
    1_000_000_000_000_000_000,
    i128::MAX / 2,
    i128::MAX - 1,
    i128::MAX,
];
const LARGE: [i128; 6] = [1i128 << 64, i128::MAX / 2, i128::MAX / 2 + 1, i128::MAX - 1, i128::MAX, 1i128 << 100];
const MAX_HISTORY: usize = 1000;
const MAX_JUMP: i64 = 2_000_000;

#[derive(Clone, Copy, Debug, Serialize, Deserialize)]
pub enum Amt {
    Zero,
    One,
    Small(u16),
    /// (limit - spent in the current window) + d, clamped to 0..=i128::MAX
    RemPlus(i8),
    /// limit + d
    LimitPlus(i8),
    Large(u8),
}

#[derive(Clone, Copy, Debug, Serialize, Deserialize)]
pub enum LimSel {
    Lattice(u8),
    /// (spent in the current window) + d
    SpentPlus(i8),
    Zero,
    Neg,
}

#[derive(Clone, Copy, Debug, Serialize, Deserialize)]
pub enum Adv {
    By(u16),
    /// period + d ledgers
    Period(i8),
    /// to (ledger of an authorized transfer) + period + d: d = -1 still inside the window, d = 0 just outside
    ToEdge { which: u16, d: i8 },
}

#[derive(Clone, Debug, Serialize, Deserialize)]
pub enum POp {
    Attempt { slot: u8, ctx: CtxKind, amt: Amt, signers: u8, bad: Option<Bad>, surplus: bool },
    SetLimit { slot: u8, lim: LimSel, bad: Option<Bad>, surplus: bool },
    Advance(Adv),
    Install { slot: u8, lim: LimSel, period: u32, bad: Option<Bad>, surplus: bool },
    Uninstall { slot: u8, bad: Option<Bad>, surplus: bool },
}

/// Pre-filled history of the main slot (near the 1000-entry bound).
#[derive(Clone, Debug, Serialize, Deserialize)]
pub struct Seed {
    pub count: u16,
    /// 0: all at one ledger, 1: over 2 ledgers, 2: over half the period, 3: over the whole window
    pub span: u8,
    pub amt: u8,
    /// reach the state through `count` enforce calls instead of writing storage (thorough tier)
    pub via_api: bool,
}

#[derive(Clone, Debug, Serialize, Deserialize)]
pub struct PCase {
    pub seq: u32,
    pub limit_sel: u8,
    pub period: u32,
    pub n_signers: u8,
    pub seed: Option<Seed>,
    pub ops: Vec<POp>,
}

fn limit_idx_strategy() -> BoxedStrategy<u8> {
    prop_oneof![2 => 0u8..3, 8 => 3u8..7, 3 => 7u8..15].boxed()
}
fn period_strategy() -> BoxedStrategy<u32> {
    prop_oneof![
        3 => Just(1u32), 4 => Just(2u32), 4 => Just(3u32), 5 => Just(5u32), 4 => Just(10u32), 2 => Just(100u32),
        1 => Just(17280u32), 1 => Just(1_000_000u32), 1 => Just(u32::MAX), 2 => 1u32..40,
    ]
    .boxed()
}
fn amt_strategy() -> BoxedStrategy<Amt> {
    prop_oneof![
        1 => Just(Amt::Zero),
        2 => Just(Amt::One),
        4 => (0u16..400).prop_map(Amt::Small),
        8 => (-1i8..=1).prop_map(Amt::RemPlus),
        1 => (-1i8..=1).prop_map(Amt::LimitPlus),
        1 => (0u8..6).prop_map(Amt::Large),
    ]
    .boxed()
}
fn limsel_strategy() -> BoxedStrategy<LimSel> {
    prop_oneof![
        5 => limit_idx_strategy().prop_map(LimSel::Lattice),
        5 => (-1i8..=2).prop_map(LimSel::SpentPlus),
        1 => Just(LimSel::Zero),
        1 => Just(LimSel::Neg),
    ]
    .boxed()
}

fn spending_strategy(tier: Tier) -> BoxedStrategy<PCase> {
    let max_ops = tier.pick(50usize, 80usize);
    let ctxk = prop_oneof![
        30 => Just(CtxKind::Transfer),
        1 => Just(CtxKind::Approve),
        1 => Just(CtxKind::TransferFrom),
        1 => Just(CtxKind::Create),
        1 => Just(CtxKind::CreateCtor),
        1 => Just(CtxKind::Transfer2),
        2 => (0u8..6).prop_map(CtxKind::TransferBad),
    ];
    let op = prop_oneof![
        24 => (slot_strategy(), ctxk, amt_strategy(), prop_oneof![1 => Just(0u8), 9 => 1u8..=3], bad_strategy(5), proptest::bool::weighted(0.1))
            .prop_map(|(slot, ctx, amt, signers, bad, surplus)| POp::Attempt { slot, ctx, amt, signers, bad, surplus }),
        3 => (slot_strategy(), limsel_strategy(), bad_strategy(2), proptest::bool::weighted(0.1))
            .prop_map(|(slot, lim, bad, surplus)| POp::SetLimit { slot, lim, bad, surplus }),
        9 => prop_oneof![
            3 => (0u16..4).prop_map(Adv::By),
            1 => (0u16..3000).prop_map(Adv::By),
            2 => (-1i8..=1).prop_map(Adv::Period),
            6 => (any::<u16>(), -1i8..=1).prop_map(|(which, d)| Adv::ToEdge { which, d }),
        ]
        .prop_map(POp::Advance),
        2 => (slot_strategy(), limsel_strategy(), prop_oneof![1 => Just(0u32), 6 => period_strategy()], bad_strategy(2), proptest::bool::weighted(0.1))
            .prop_map(|(slot, lim, period, bad, surplus)| POp::Install { slot, lim, period, bad, surplus }),
        1 => (prop_oneof![2 => Just(0u8), 1 => Just(1u8), 1 => Just(2u8)], bad_strategy(2), proptest::bool::weighted(0.1))
            .prop_map(|(slot, bad, surplus)| POp::Uninstall { slot, bad, surplus }),
    ];
    let thorough = tier == Tier::Thorough;
    let seed = (prop_oneof![2 => Just(999u16), 2 => Just(1000u16), 1 => Just(998u16)], 0u8..4, 0u8..2, proptest::bool::weighted(0.15))
        .prop_map(move |(count, span, amt, api)| Seed { count, span, amt, via_api: api && thorough });
    let plain = (
        prop_oneof![3 => 1u32..=6, 2 => 1u32..100_000],
        limit_idx_strategy(),
        period_strategy(),
        1u8..=3,
        proptest::collection::vec(op.clone(), 1..max_ops),
    )
        .prop_map(|(seq, limit_sel, period, n_signers, ops)| PCase { seq, limit_sel, period, n_signers, seed: None, ops });
    // seeded: short histories on a big (expensive) state
    let seeded = (
        prop_oneof![3 => 1u32..=6, 2 => 1u32..100_000],
        limit_idx_strategy(),
        period_strategy(),
        1u8..=3,
        seed,
        proptest::collection::vec(op, 1..12),
    )
        .prop_map(|(seq, limit_sel, period, n_signers, seed, ops)| PCase { seq, limit_sel, period, n_signers, seed: Some(seed), ops });
    prop_oneof![10 => plain, 1 => seeded].boxed()
}

#[derive(Clone, Debug)]
struct Ent {
    ledger: u32,
    amt: i128,
    #[allow(dead_code)]
    limit_at: i128,
}
#[derive(Clone, Debug)]
struct PM {
    limit: i128,
    period: u32,
    /// every transfer authorized since installation
    hist: Vec<Ent>,
}
impl PM {
    /// entries inside the window of `period` consecutive ledgers ending at `c`: ledger in (c - period, c]
    fn window(&self, c: u32) -> (BigInt, usize) {
        let lo = c as i64 - self.period as i64;
        let mut sum = BigInt::from(0);
        let mut cnt = 0usize;
        for en in &self.hist {
            if (en.ledger as i64) > lo && en.ledger <= c {
                sum += BigInt::from(en.amt);
                cnt += 1;
            }
        }
        (sum, cnt)
    }
}
#[derive(Clone, Debug, PartialEq)]
struct PD {
    limit: i128,
    period: u32,
    hist: Vec<(u32, i128)>,
    cached: i128,
}

fn spending_dump(w: &World) -> Result<Vec<Option<PD>>, Violation> {
    let e = &w.e;
    let mut out = vec![];
    for s in 0..SLOTS.len() {
        let r = envx::call_t::<SpendingLimitData>(e, &w.policy, "get_spending_limit_data", args![e; w.rule_id(s), w.acct(s).clone()]);
        out.push(r.ok().map(|d| PD {
            limit: d.spending_limit,
            period: d.period_ledgers,
            hist: d.spending_history.iter().map(|x| (x.ledger_sequence, x.amount)).collect(),
            cached: d.cached_total_spent,
        }));
    }
    Ok(out)
}

fn big_to_i128_clamped(b: &BigInt) -> i128 {
    use num_traits::ToPrimitive;
    if *b < BigInt::from(0) {
        0
    } else {
        b.to_i128().unwrap_or(i128::MAX)
    }
}

/// invariants of the observable state against the model, checked after every step
fn spending_check_state(d: &[Option<PD>], model: &[Option<PM>], what: &str) -> R {
    for s in 0..SLOTS.len() {
        match (&d[s], &model[s]) {
            (None, None) => {}
            (Some(pd), Some(pm)) => {
                ensure!(
                    pd.limit == pm.limit && pd.period == pm.period,
                    "C14/spending/state/config-mismatch",
                    "{what}: slot {s} reports limit {} period {}, model limit {} period {}",
                    pd.limit,
                    pd.period,
                    pm.limit,
                    pm.period
                );
                ensure!(pd.hist.len() <= MAX_HISTORY, "C14/spending/history/longer-than-1000", "{what}: slot {s} stores {} history entries", pd.hist.len());
                let sum: BigInt = pd.hist.iter().map(|(_, a)| BigInt::from(*a)).sum();
                ensure!(
                    sum == BigInt::from(pd.cached),
                    "C14/spending/cache/not-sum-of-history",
                    "{what}: slot {s} cached_total_spent {} but stored history sums to {}",
                    pd.cached,
                    sum
                );
                // "a rejected attempt leaves no trace": the stored history is a suffix of the authorized transfers
                let k = pd.hist.len();
                let ok = k <= pm.hist.len() && pm.hist[pm.hist.len() - k..].iter().zip(pd.hist.iter()).all(|(m, (l, a))| m.ledger == *l && m.amt == *a);
                ensure!(
                    ok,
                    "C14/spending/history/not-a-suffix-of-authorized-transfers",
                    "{what}: slot {s} stored history (len {k}, tail {:?}) is not a suffix of the {} authorized transfers (tail {:?})",
                    pd.hist.iter().rev().take(3).collect::<Vec<_>>(),
                    pm.hist.len(),
                    pm.hist.iter().rev().take(3).collect::<Vec<_>>()
                );
            }
            (a, b) => bail!("C14/spending/state/installed-mismatch", "{what}: slot {s} getter installed = {}, model installed = {}", a.is_some(), b.is_some()),
        }
    }
    Ok(())
}

fn resolve_lim(l: &LimSel, m: Option<&PM>, c: u32) -> i128 {
    match l {
        LimSel::Lattice(i) => LIMITS[*i as usize % LIMITS.len()],
        LimSel::SpentPlus(d) => {
            let spent = m.map(|m| m.window(c).0).unwrap_or_else(|| BigInt::from(0));
            let v = spent + BigInt::from(*d);
            if v < BigInt::from(0) {
                -1
            } else {
                big_to_i128_clamped(&v)
            }
        }
        LimSel::Zero => 0,
        LimSel::Neg => -1,
    }
}

pub fn run_spending(case: &PCase, ctx: &mut Ctx) -> R {
    let n = case.n_signers.clamp(1, 3) as usize;
    let w = World::new(case.seq, Kind::Spending, n, 0b010, case.seed.is_some());
    let e = &w.e;
    let mut model: Vec<Option<PM>> = vec![None; SLOTS.len()];
    let dump = || spending_dump(&w);
    let limit0 = LIMITS[case.limit_sel as usize % LIMITS.len()];
    let period0 = case.period.max(1);

    // ---- set-up: install the main slot (exact entry)
    {
        let params = SpendingLimitAccountParams { spending_limit: limit0, period_ledgers: period0 };
        let args = args![e; params, w.rule(0, n), w.acct(0).clone()];
        let r = w.call_authorized("install", &args, 0, false);
        ensure!(r.is_ok(), "C14/spending/install/valid-install-refused", "set-up install(limit {limit0}, period {period0}) failed: {:?}", r);
        model[0] = Some(PM { limit: limit0, period: period0, hist: vec![] });
    }
    // ---- optional: history near the 1000-entry bound
    if let Some(sd) = &case.seed {
        let count = sd.count.clamp(1, 1000) as u64;
        let span: u64 = match sd.span % 4 {
            0 => 0,
            1 => 1,
            2 => (period0 as u64 - 1) / 2,
            _ => period0 as u64 - 1,
        }
        .min(period0 as u64 - 1)
        .min(3000);
        let amt: i128 = if limit0 < 2000 { 0 } else { (sd.amt % 2) as i128 };
        let start = envx::seq(e) as u64;
        let ledger_of = |i: u64| (start + if count > 1 { i * span / (count - 1) } else { 0 }) as u32;
        let via_api = sd.via_api && ctx.tier() == Tier::Thorough;
        let pm = model[0].as_mut().unwrap();
        if via_api {
            ctx.class("spending_seeded_via_api");
            let auth = w.subset(n, 1, 0);
            for i in 0..count {
                envx::set_seq(e, ledger_of(i));
                let args = args![e; w.ctx(&CtxKind::Transfer, amt), auth.clone(), w.rule(0, n), w.acct(0).clone()];
                let r = w.call_authorized("enforce", &args, 0, false);
                ensure!(r.is_ok(), "C14/spending/enforce/rejected-within-limit", "API fill: transfer {i} of {count} (amount {amt}, limit {limit0}) rejected: {:?}", r);
                pm.hist.push(Ent { ledger: ledger_of(i), amt, limit_at: limit0 });
            }
        } else {
            ctx.class("spending_seeded_storage");
            let mut hv: SVec<SpendingEntry> = SVec::new(e);
            for i in 0..count {
                hv.push_back(SpendingEntry { amount: amt, ledger_sequence: ledger_of(i) });
                pm.hist.push(Ent { ledger: ledger_of(i), amt, limit_at: limit0 });
            }
            let data = SpendingLimitData {
                spending_limit: limit0,
                period_ledgers: period0,
                spending_history: hv,
                cached_total_spent: amt * count as i128,
            };
            let key = SpendingLimitStorageKey::AccountContext(w.acct(0).clone(), w.rule_id(0));
            e.as_contract(&w.policy, || e.storage().persistent().set(&key, &data));
        }
        envx::set_seq(e, (start + span) as u32);
    }

    let mut before = dump()?;
    spending_check_state(&before, &model, "after set-up")?;
    let (mut accepted, mut rej_in_window, mut edge_crossed) = (0u32, false, false);

    for (step, op) in case.ops.iter().enumerate() {
        let c = envx::seq(e);
        match op {
            POp::Advance(a) => {
                let now = c as i64;
                let main = model.iter().flatten().next();
                let target: i64 = match a {
                    Adv::By(k) => now + *k as i64,
                    Adv::Period(d) => now + (main.map(|m| m.period as i64).unwrap_or(1) + *d as i64).max(0),
                    Adv::ToEdge { which, d } => match main {
                        Some(m) => {
                            let cands: Vec<i64> = m
                                .hist
                                .iter()
                                .map(|en| en.ledger as i64 + m.period as i64 + *d as i64)
                                .filter(|t| *t > now && *t - now <= MAX_JUMP)
                                .collect();
                            if cands.is_empty() {
                                now + (*d as i64 + 1)
                            } else {
                                ctx.class("spending_advance_to_edge");
                                cands[pick(*which, cands.len())]
                            }
                        }
                        None => now + 1,
                    },
                };
                let target = if target - now > MAX_JUMP { now + 1 } else { target };
                let target = target.clamp(now, u32::MAX as i64 / 2) as u32;
                // does an authorized transfer leave the window of some slot?
                for m in model.iter().flatten() {
                    let inside = |en: &Ent, at: u32| (en.ledger as i64) > at as i64 - m.period as i64;
                    if m.hist.iter().any(|en| inside(en, c) && !inside(en, target)) {
                        edge_crossed = true;
                        ctx.class("spending_advance_across_window_edge");
                    }
                }
                envx::set_seq(e, target);
                // the ledger is not contract state: nothing else to compare
                continue;
            }
            POp::Attempt { slot, ctx: ck, amt, signers, bad, surplus } => {
                let s = *slot as usize % SLOTS.len();
                let (limit, wsum, wcount) = match &model[s] {
                    Some(m) => {
                        let (a, b) = m.window(c);
                        (m.limit, a, b)
                    }
                    None => (100, BigInt::from(0), 0),
                };
                let amount: i128 = match amt {
                    Amt::Zero => 0,
                    Amt::One => 1,
                    Amt::Small(x) => *x as i128,
                    Amt::RemPlus(d) => big_to_i128_clamped(&(BigInt::from(limit) - &wsum + BigInt::from(*d))),
                    Amt::LimitPlus(d) => big_to_i128_clamped(&(BigInt::from(limit) + BigInt::from(*d))),
                    Amt::Large(i) => LARGE[*i as usize % LARGE.len()],
                };
                let k = (*signers as usize).min(n);
                let auth = w.subset(n, k, 0);
                let args = args![e; w.ctx(ck, amount), auth, w.rule(s, n), w.acct(s).clone()];
                let well_formed = *ck == CtxKind::Transfer;
                let within = &wsum + BigInt::from(amount) <= BigInt::from(limit);
                let has_room = wcount < MAX_HISTORY;
                let expected = model[s].is_some() && k > 0 && well_formed && within && has_room;

                let (can, can_failed) = w.can_enforce(&args);
                if can_failed {
                    ctx.class("can_enforce_call_failed");
                }
                probe_unauthorized(&w, ctx, "spending", "enforce", &args, s, bad, &before, &dump)?;
                let r = w.call_authorized("enforce", &args, s, *surplus);
                ctx.op(r.is_ok());
                let ok = r.is_ok();
                let after = dump()?;
                let what = format!(
                    "step {step} ledger {c} slot {s} {:?} amount {amount} signers {k}: limit {limit}, spent in window {wsum} over {wcount} entries, period {:?}",
                    ck,
                    model[s].as_ref().map(|m| m.period)
                );
                if ok {
                    // ---- safety (the statement)
                    ensure!(model[s].is_some(), "C14/spending/enforce/accepted-uninstalled", "{what}: enforce succeeded on a slot that is not installed");
                    ensure!(within, "C14/spending/window/limit-exceeded", "{what}: transfer authorized although window total would be {} > limit", &wsum + BigInt::from(amount));
                    ensure!(well_formed, "C14/spending/enforce/accepted-non-transfer-context", "{what}: enforce accepted a context that is not a well-formed transfer");
                    ensure!(k > 0, "C14/spending/enforce/accepted-without-signers", "{what}: enforce accepted an empty authenticated-signer list");
                    let m = model[s].as_mut().unwrap();
                    m.hist.push(Ent { ledger: c, amt: amount, limit_at: limit });
                    let pd = after[s].as_ref();
                    ensure!(pd.is_some(), "C14/spending/state/installed-mismatch", "{what}: no data after a successful enforce");
                    let pd = pd.unwrap();
                    ensure!(
                        BigInt::from(pd.cached) == &wsum + BigInt::from(amount),
                        "C14/spending/cache/not-window-sum",
                        "{what}: after the authorized transfer cached_total_spent = {}, model window sum = {}",
                        pd.cached,
                        &wsum + BigInt::from(amount)
                    );
                    ensure!(pd.hist.len() <= MAX_HISTORY, "C14/spending/history/longer-than-1000", "{what}: {} history entries", pd.hist.len());
                    for o in 0..SLOTS.len() {
                        if o != s {
                            ensure!(after[o] == before[o], "C14/spending/enforce/touched-other-slot", "{what}: slot {o} changed");
                        }
                    }
                    accepted += 1;
                    ctx.class("spending_accepted");
                    let mh = &model[s].as_ref().unwrap().hist;
                    if mh.len() >= 2 && mh[mh.len() - 2].ledger == c {
                        ctx.class("spending_accepted_same_ledger_as_previous");
                    }
                    if &wsum + BigInt::from(amount) == BigInt::from(limit) {
                        ctx.class("spending_accepted_exactly_at_limit");
                    }
                    if wcount == MAX_HISTORY - 1 {
                        ctx.class("spending_accepted_1000th_entry");
                    }
                } else {
                    ensure!(after == before, "C14/spending/enforce/failed-call-left-trace", "{what}: enforce failed but get_spending_limit_data changed");
                    // ---- exactness (module docs: accepted when within the limit, >= 1 signer, capacity left)
                    ensure!(!expected, "C14/spending/enforce/rejected-within-limit", "{what}: enforce rejected a transfer the documented rule accepts: {:?}", r);
                    if model[s].is_some() && k > 0 && well_formed {
                        if !within {
                            ctx.class("spending_rejected_over_limit");
                            if wcount > 0 {
                                rej_in_window = true;
                            }
                            if &wsum + BigInt::from(amount) == BigInt::from(limit) + BigInt::from(1) {
                                ctx.class("spending_rejected_one_over_limit");
                            }
                        } else {
                            ctx.class("spending_rejected_history_full");
                        }
                    } else if !well_formed {
                        ctx.class("spending_rejected_non_transfer");
                    } else if k == 0 {
                        ctx.class("spending_rejected_no_signers");
                    }
                }
                ensure!(
                    ok == can,
                    "C14/spending/enforce/disagrees-with-can_enforce",
                    "{what}: can_enforce = {can} (call failed: {can_failed}) but authorized enforce -> {:?}",
                    r
                );
                spending_check_state(&after, &model, &what)?;
                before = after;
            }
            POp::SetLimit { slot, lim, bad, surplus } => {
                let s = *slot as usize % SLOTS.len();
                let l = resolve_lim(lim, model[s].as_ref(), c);
                let args = args![e; l, w.rule(s, n), w.acct(s).clone()];
                probe_unauthorized(&w, ctx, "spending", "set_spending_limit", &args, s, bad, &before, &dump)?;
                let r = w.call_authorized("set_spending_limit", &args, s, *surplus);
                ctx.op(r.is_ok());
                let after = dump()?;
                let what = format!("step {step} set_spending_limit({l}) slot {s}");
                if r.is_ok() {
                    ensure!(l > 0, "C14/spending/set_spending_limit/non-positive-accepted", "{what}: succeeded");
                    ensure!(model[s].is_some(), "C14/spending/set_spending_limit/accepted-uninstalled", "{what}: succeeded on a slot that is not installed");
                    model[s].as_mut().unwrap().limit = l;
                    let mut want = before.clone();
                    want[s].as_mut().unwrap().limit = l;
                    ensure!(after == want, "C14/spending/set_spending_limit/changed-more-than-limit", "{what}: before {:?} after {:?}", before[s].as_ref().map(|d| (d.limit, d.period, d.hist.len(), d.cached)), after[s].as_ref().map(|d| (d.limit, d.period, d.hist.len(), d.cached)));
                    ctx.class("spending_set_limit_ok");
                } else {
                    ensure!(after == before, "C14/spending/set_spending_limit/failed-call-left-trace", "{what}: failed but state changed");
                    ensure!(!(l > 0 && model[s].is_some()), "C14/spending/set_spending_limit/valid-limit-refused", "{what}: failed: {:?}", r);
                    ctx.class("spending_set_limit_refused");
                }
                spending_check_state(&after, &model, &what)?;
                before = after;
            }
            POp::Install { slot, lim, period, bad, surplus } => {
                let s = *slot as usize % SLOTS.len();
                let l = resolve_lim(lim, model[s].as_ref(), c);
                let params = SpendingLimitAccountParams { spending_limit: l, period_ledgers: *period };
                let args = args![e; params, w.rule(s, n), w.acct(s).clone()];
                probe_unauthorized(&w, ctx, "spending", "install", &args, s, bad, &before, &dump)?;
                let r = w.call_authorized("install", &args, s, *surplus);
                ctx.op(r.is_ok());
                let after = dump()?;
                let what = format!("step {step} install(limit {l}, period {period}) slot {s}");
                let valid = l > 0 && *period > 0;
                if r.is_ok() {
                    ensure!(valid, "C14/spending/install/invalid-params-accepted", "{what}: succeeded");
                    ensure!(model[s].is_none(), "C14/spending/install/reinstall-accepted", "{what}: succeeded although already installed");
                    model[s] = Some(PM { limit: l, period: *period, hist: vec![] });
                    ctx.class("spending_install_ok");
                } else {
                    ensure!(after == before, "C14/spending/install/failed-call-left-trace", "{what}: failed but state changed");
                    ensure!(!(valid && model[s].is_none()), "C14/spending/install/valid-install-refused", "{what}: failed: {:?}", r);
                    ctx.class("spending_install_refused");
                }
                spending_check_state(&after, &model, &what)?;
                before = after;
            }
            POp::Uninstall { slot, bad, surplus } => {
                let s = *slot as usize % SLOTS.len();
                let args = args![e; w.rule(s, n), w.acct(s).clone()];
                probe_unauthorized(&w, ctx, "spending", "uninstall", &args, s, bad, &before, &dump)?;
                let r = w.call_authorized("uninstall", &args, s, *surplus);
                ctx.op(r.is_ok());
                let after = dump()?;
                let what = format!("step {step} uninstall slot {s}");
                if r.is_ok() {
                    model[s] = None;
                    ctx.class("spending_uninstall_ok");
                } else {
                    ensure!(after == before, "C14/spending/uninstall/failed-call-left-trace", "{what}: failed but state changed");
                    ensure!(model[s].is_none(), "C14/spending/uninstall/refused", "{what}: uninstall of an installed policy failed: {:?}", r);
                }
                spending_check_state(&after, &model, &what)?;
                before = after;
            }
        }
    }
    if accepted >= 1 && rej_in_window && edge_crossed {
        ctx.nontrivial = true;
        ctx.class("nontrivial");
        ctx.class("nontrivial_spending");
    }
    Ok(())
}


pub fn property() -> Property {
    Property {
        id: "C14",
        rule: "three generated subs against ThresholdPolicyContract / WeightedPolicy / SpendingLimitPolicyContract with a plain-actor smart account: \
               simple = rule with 0..15 signers, histories of install/set_threshold/uninstall/resize/check(can_enforce then enforce) with thresholds {0,1,n-1,n,n+1,MAX} and |authenticated| = threshold+{-1,0,1}; \
               weighted = weight maps (weights near u32::MAX, totals past it, keys = rule signers + <=2 extras), thresholds around the total / around a subset sum, set_signer_weight/set_threshold histories; \
               spending = limit from a positive lattice, period in {1,2,3,5,..,u32::MAX}, <=50 (thorough 80) ops: transfer attempts with amount {0,1,small,limit-spent+{-1,0,1},large}, \
               set_spending_limit, ledger advances to window edge -1/0/+1, non-transfer and malformed contexts, empty signer list, optional 998..1000-entry seeded history; \
               every state-changing call is first tried WITHOUT the account's exact entry (none / other account / wrong fn / wrong args) and then with it. \
               non-trivial: simple/weighted = both can_enforce answers occur in the case; spending = >=1 authorized transfer, >=1 over-limit rejection while an authorized transfer is in the same window, and an advance that moves an authorized transfer out of the window; distinct = distinct serialised case",
        subs: vec![
            gen_sub::<SimpleCase>("simple", 1000, 20000, simple_strategy, run_simple),
            gen_sub::<WCase>("weighted", 1000, 20000, weighted_strategy, run_weighted),
            gen_sub::<PCase>("spending", 1000, 20000, spending_strategy, run_spending),
        ],
        floors: vec![
            ("nontrivial_simple", 50, 500),
            ("nontrivial_weighted", 40, 400),
            ("nontrivial_spending", 50, 500),
            ("simple_exactly_at_threshold", 80, 800),
            ("simple_one_below_threshold", 60, 600),
            ("simple_install_refused_invalid", 130, 1300),
            ("weighted_exactly_at_threshold", 40, 400),
            ("weighted_one_below_threshold", 15, 150),
            ("weighted_install_sum_past_u32", 40, 400),
            ("weighted_set_weight_sum_past_u32", 20, 200),
            ("spending_accepted_exactly_at_limit", 170, 1700),
            ("spending_rejected_one_over_limit", 130, 1300),
            ("spending_advance_across_window_edge", 150, 1500),
            ("spending_rejected_non_transfer", 250, 2500),
            ("spending_rejected_no_signers", 100, 1000),
            ("spending_rejected_history_full", 2, 20),
            ("spending_accepted_1000th_entry", 1, 10),
            ("unauthorized_attempt", 3000, 30000),
        ],
        assumptions: vec![
            "Soroban native test host (storage, rollback of failed invocations, auth matching) is trusted",
            "the smart account is a plain actor: its authorization == an exact entry for the invocation is attached",
            "policy inputs domain: authenticated_signers is a duplicate-free subset of context_rule.signers; amounts >= 0; ledgers >= 1 and monotone",
            "weighted 'unreachable' = threshold > sum of configured weights (docs/code definition), not reachability by the rule's signers",
            "spending window = ledgers (c - period, c]: an entry at ledger c - period is outside (module docs: entries <= current - period are evicted)",
            "seeded 998..1000-entry histories are written through the pub storage types with the test host's mainnet resource limits lifted (an ~80 KB entry exceeds the 64 KiB mainnet ledger-entry limit)",
        ],
    }
}

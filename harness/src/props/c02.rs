//! C02 — not implemented yet.
use crate::engine::*;

pub fn property() -> Property {
    Property { id: "C02", rule: "", subs: vec![], floors: vec![], assumptions: vec![] }
}

//! C02 — Tokens move only with the holder's authorization or a live allowance.
//! Safety oracle written from the statement: a balance may decrease only in a call
//! whose exact authorization entry of the holder was attached, or in a
//! transfer_from/burn_from with the spender's entry attached and a live, sufficient
//! allowance (which then drops by exactly the amount).  Allowances never exceed
//! "last approved minus spent", are zero after live_until, and change only through
//! the owner's approve or by being spent.

use super::ftcore::*;
use crate::engine::*;
use crate::envx;
use proptest::prelude::*;
use serde::{Deserialize, Serialize};
use std::collections::BTreeMap;

#[derive(Clone, Debug, Serialize, Deserialize)]
pub struct Case {
    pub flavor: Flavor,
    pub n: u8,
    pub seq: u32,
    pub small_ttl: bool,
    pub ops: Vec<Op>,
}

fn weights(f: Flavor) -> OpWeights {
    OpWeights {
        mint: if f.has_mint() { 3 } else { 0 },
        transfer: 4,
        transfer_from: 8,
        approve: 7,
        burn: if f.has_burn() { 2 } else { 0 },
        burn_from: if f.has_burn() { 5 } else { 0 },
        advance: 5,
        list: 0,
        pause: 0,
        exact_auth: 8,
        spend_profile: true,
    }
}

fn strategy_for(f: Flavor, tier: Tier) -> BoxedStrategy<Case> {
    let max_ops = tier.pick(40usize, 80usize);
    (2u8..=4, 100u32..5000, proptest::bool::weighted(0.5), proptest::collection::vec(op_strategy(&weights(f)), 1..max_ops))
        .prop_map(move |(n, seq, small_ttl, ops)| Case { flavor: f, n, seq, small_ttl, ops })
        .boxed()
}

/// (amount, live_until) per (owner, spender) as last approved minus spent
#[derive(Default)]
struct AllowModel {
    m: BTreeMap<(usize, usize), (i128, u32)>,
}
impl AllowModel {
    fn visible(&self, o: usize, s: usize, now: u32) -> i128 {
        match self.m.get(&(o, s)) {
            Some((a, until)) if *until >= now => *a,
            _ => 0,
        }
    }
}

fn fname(k: Kind) -> &'static str {
    match k {
        Kind::Mint => "mint",
        Kind::Burn => "burn",
        Kind::BurnFrom => "burn_from",
        Kind::Transfer => "transfer",
        Kind::TransferFrom => "transfer_from",
        Kind::Approve => "approve",
        Kind::List => "list",
        Kind::Pause => "pause",
    }
}

fn check_allowances(t: &Tok, d: &Dump, am: &AllowModel, what: &str, ctx: &mut Ctx) -> R {
    let now = envx::seq(&t.e);
    let n = d.bal.len();
    for o in 0..n {
        for s in 0..n {
            let vis = am.visible(o, s, now);
            ensure!(
                d.allow[o][s] <= vis,
                "C02/allowance/exceeds-approved-minus-spent",
                "{what}: allowance({o},{s}) = {} at ledger {now} but last approved minus spent (and expiry {:?}) allows at most {vis}",
                d.allow[o][s],
                am.m.get(&(o, s))
            );
            if d.allow[o][s] < vis {
                ctx.class("allowance_stricter_than_model");
            }
        }
    }
    Ok(())
}

pub fn run(case: &Case, ctx: &mut Ctx) -> R {
    let max_ttl = if case.small_ttl { 300 } else { envx::BIG_TTL };
    let t = Tok::setup(case.flavor, case.n as usize, case.seq, max_ttl);
    let e = &t.e;
    // all gates open: C16 owns the gates
    if case.flavor.is_allow() {
        t.setup_lists(0xffff).map_err(|er| violation("C02/setup/list", er))?;
    }
    // working capital so that spends can succeed: mint (or distribute the constructor supply)
    let mut d = t.dump();
    for i in 0..t.accts.len() {
        if case.flavor.has_mint() {
            let mut margs = vec![soroban_sdk::IntoVal::into_val(&t.accts[i], e), soroban_sdk::IntoVal::into_val(&(1000i128 + i as i128), e)];
            if case.flavor == Flavor::Rwa {
                margs.push(soroban_sdk::IntoVal::into_val(&t.admin, e));
            }
            let c = Call {
                func: "mint",
                args: margs,
                required: if case.flavor.mint_needs_auth() { vec![t.admin.clone()] } else { vec![] },
                amount_arg: Some(1),
            };
            let (r, _) = exec(&t, &c, &AuthMode::Exact);
            ensure!(r.is_ok(), "C02/setup/mint", "set-up mint failed: {:?}", r);
        } else if i > 0 {
            let c = Call {
                func: "transfer",
                args: vec![
                    soroban_sdk::IntoVal::into_val(&t.accts[0], e),
                    soroban_sdk::IntoVal::into_val(&t.accts[i], e),
                    soroban_sdk::IntoVal::into_val(&(1000i128 + i as i128), e),
                ],
                required: vec![t.accts[0].clone()],
                amount_arg: Some(2),
            };
            let (r, _) = exec(&t, &c, &AuthMode::Exact);
            ensure!(r.is_ok(), "C02/setup/distribute", "set-up transfer failed: {:?}", r);
        }
    }
    d = { let _ = d; t.dump() };

    let mut am = AllowModel::default();
    let mut hist = Hist::default();
    let (mut ok_spend, mut rej_auth, mut rej_spend) = (false, false, false);

    for (step, op) in case.ops.iter().enumerate() {
        let r = match t.resolve(op, &d, &mut hist) {
            Step::Advanced => {
                d = t.dump();
                check_allowances(&t, &d, &am, "advance", ctx)?;
                continue;
            }
            Step::Skipped => {
                ctx.class("skipped_op");
                continue;
            }
            Step::Call(r) => r,
        };
        let now = envx::seq(e);
        let f = fname(r.kind);
        let what = format!("step {step} {f}({:?}) at ledger {now}", op);
        let (res, exact) = exec(&t, &r.call, &r.mode);
        let d2 = t.dump();
        ctx.op(res.is_ok());
        let spend_pair = match r.kind {
            Kind::TransferFrom | Kind::BurnFrom => Some((r.from.unwrap(), r.spender.unwrap())),
            _ => None,
        };
        let approve_pair = if r.kind == Kind::Approve { Some((r.from.unwrap(), r.spender.unwrap())) } else { None };
        let pre_vis = spend_pair.map(|(o, s)| am.visible(o, s, now));

        if res.is_ok() {
            let n = d.bal.len();
            let decreased: Vec<usize> = (0..n).filter(|i| d2.bal[*i] < d.bal[*i]).collect();
            let allow_changed: Vec<(usize, usize)> =
                (0..n).flat_map(|o| (0..n).map(move |s| (o, s))).filter(|(o, s)| d2.allow[*o][*s] != d.allow[*o][*s]).collect();
            if !exact {
                // nobody documented to authorize this call did so exactly
                ensure!(
                    decreased.is_empty(),
                    format!("C02/{f}/balance-decreased-without-authorization"),
                    "{what}: auth mode {:?} (required authorizer's exact entry NOT attached) succeeded and decreased balances of {:?}",
                    r.mode,
                    decreased
                );
                ensure!(
                    allow_changed.is_empty(),
                    format!("C02/{f}/allowance-changed-without-authorization"),
                    "{what}: auth mode {:?} succeeded and changed allowances {:?}",
                    r.mode,
                    allow_changed
                );
                ctx.class("unauthorized_noop_success");
            }
            for i in &decreased {
                let justified = match r.kind {
                    Kind::Transfer | Kind::Burn => r.from == Some(*i) && exact,
                    Kind::TransferFrom | Kind::BurnFrom => {
                        r.from == Some(*i) && exact && pre_vis.unwrap() >= r.amount && r.amount >= 0
                    }
                    _ => false,
                };
                ensure!(
                    justified,
                    format!("C02/{f}/unjustified-balance-decrease"),
                    "{what}: balance of holder {i} went {} -> {} ; holder authorized: {}, model allowance before: {:?}, amount {}",
                    d.bal[*i],
                    d2.bal[*i],
                    matches!(r.kind, Kind::Transfer | Kind::Burn) && exact,
                    pre_vis,
                    r.amount
                );
            }
            // a successful allowance-based movement needs a live, sufficient allowance even when no balance decreased
            if let Some((o, s)) = spend_pair {
                if r.amount > 0 {
                    ensure!(
                        pre_vis.unwrap() >= r.amount,
                        format!("C02/{f}/spent-without-live-allowance"),
                        "{what}: succeeded for amount {} although the allowance ({o},{s}) approved-minus-spent (with expiry) is {:?}",
                        r.amount,
                        pre_vis
                    );
                    // drops by exactly the amount
                    let before = d.allow[o][s];
                    let after = d2.allow[o][s];
                    ensure!(
                        after == before - r.amount,
                        format!("C02/{f}/allowance-not-reduced-exactly"),
                        "{what}: allowance({o},{s}) went {before} -> {after}, expected {}",
                        before - r.amount
                    );
                    let ent = am.m.entry((o, s)).or_insert((0, 0));
                    ent.0 -= r.amount;
                    ok_spend = true;
                    ctx.class("allowance_spend_ok");
                }
            }
            if let Some((o, s)) = approve_pair {
                // exact (checked above via allow_changed when !exact); the owner approved (amount, live)
                if exact {
                    ctx.class("approve_ok");
                    am.m.insert((o, s), (r.amount, r.live));
                    if d2.allow[o][s] != am.visible(o, s, now) {
                        ctx.class("approve_visible_differs");
                    }
                }
            }
            // allowances of unrelated pairs must not move within one call
            for (o, s) in &allow_changed {
                let related = spend_pair == Some((*o, *s)) || approve_pair == Some((*o, *s));
                ensure!(
                    related,
                    format!("C02/{f}/foreign-allowance-changed"),
                    "{what}: allowance({o},{s}) changed {} -> {} in a call that neither approves nor spends it",
                    d.allow[*o][*s],
                    d2.allow[*o][*s]
                );
            }
        } else {
            ensure!(d2 == d, format!("C02/{f}/failed-call-changed-state"), "{what}: failed but state changed");
            if !exact {
                rej_auth = true;
                ctx.class(&format!("rejected_auth_mode"));
            } else if let Some((o, s)) = spend_pair {
                if r.amount >= 0 && d.bal[o] >= r.amount && am.visible(o, s, now) < r.amount {
                    rej_spend = true;
                    let expired = am.m.get(&(o, s)).map(|(a, u)| *u < now && *a >= r.amount).unwrap_or(false);
                    ctx.class(if expired { "rejected_spend_expired" } else { "rejected_spend_insufficient" });
                } else if r.amount >= 0 && d.bal[o] >= r.amount {
                    ctx.class("refused_against_model");
                }
            }
        }
        check_allowances(&t, &d2, &am, &what, ctx)?;
        // entry-point view of the touched pair agrees with the bulk read
        if let Some((o, s)) = spend_pair.or(approve_pair) {
            let hs = t.holders();
            let a = t.api_allowance(&hs[o], &hs[s]).map_err(|er| violation("C02/api/allowance-failed", er))?;
            ensure!(a == d2.allow[o][s], "C02/api/allowance-mismatch", "{what}: allowance() = {a}, storage read = {}", d2.allow[o][s]);
        }
        d = d2;
    }
    if ok_spend && rej_auth && rej_spend {
        ctx.nontrivial = true;
        ctx.class("nontrivial");
    }
    Ok(())
}

macro_rules! flavor_sub {
    ($name:expr, $f:expr, $q:expr, $t:expr) => {{
        fn strat(tier: Tier) -> BoxedStrategy<Case> {
            strategy_for($f, tier)
        }
        gen_sub::<Case>($name, $q, $t, strat, run)
    }};
}

pub fn property() -> Property {
    Property {
        id: "C02",
        rule: "case = (flavour with all gates open, 2..4 funded accounts, start ledger, small or large max TTL, history of <=40 (thorough 80) ops \
               approve/transfer/transfer_from/burn/burn_from/mint/advance(to allowance expiry -1/0/+1) each with an auth mode Exact|Drop|Swap|Tamper|Surplus); \
               non-trivial = contains a successful allowance spend AND a call rejected for its auth mode AND a spend rejected for expiry/insufficient allowance; distinct = distinct serialised case",
        subs: vec![
            flavor_sub!("plain", Flavor::Plain, 2500, 50000),
            flavor_sub!("allow", Flavor::Allow, 1200, 24000),
            flavor_sub!("block", Flavor::Block, 1200, 24000),
            flavor_sub!("votes", Flavor::Votes, 1200, 24000),
            flavor_sub!("ex-pausable", Flavor::ExPausable, 800, 16000),
            flavor_sub!("ex-capped", Flavor::ExCapped, 500, 10000),
            flavor_sub!("ex-allowlist", Flavor::ExAllow, 800, 16000),
            flavor_sub!("ex-blocklist", Flavor::ExBlock, 500, 10000),
            flavor_sub!("ex-votes", Flavor::ExVotes, 500, 10000),
            gen_sub::<super::vaultx::VxCase>("vault", 1500, 30000, super::vaultx::strategy_c02, super::vaultx::run_c02),
            flavor_sub!("rwa", Flavor::Rwa, 800, 16000),
        ],
        floors: vec![],
        assumptions: vec![
            "Soroban native test host (auth-tree matching, temporary-entry TTL, rollback) is trusted",
            "plain actors are contract addresses with an accept-all account contract: 'X authorized the call' == 'an entry for X with exactly this invocation was attached'",
            "list/pause gates are held open (owned by C16); RWA supervisory operations are out of scope as the statement says",
        ],
    }
}

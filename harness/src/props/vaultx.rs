//! Vault-share flavour for C01 (supply conservation + deposit/withdraw/transfer event replay)
//! and C02 (shares leave an owner only with the owner's entry or an operator's entry plus a
//! live share allowance that drops by exactly the burned shares).  Uses the C05 driver.
//! Each property asserts only its own clauses (`Mode`).

use super::c05::{decode_vault_event, VAuth, VCall, VDump, VKind, VaultEnv, N_ACTORS};
use crate::engine::*;
use crate::envx;
use crate::gen::pick;
use num_bigint::BigInt;
use proptest::prelude::*;
use serde::{Deserialize, Serialize};
use std::collections::BTreeMap;

#[derive(Clone, Copy, PartialEq, Eq, Debug)]
pub enum Mode {
    C01,
    C02,
}

#[derive(Clone, Debug, Serialize, Deserialize)]
pub enum VxAmt {
    Abs(#[serde(with = "crate::gen::i128_str")] i128),
    /// k/4 of the holder's asset balance (deposit) / max_withdraw (withdraw) / share balance (mint, redeem)
    Frac(u8),
    /// holder's share balance + d (redeem) resp. max_withdraw + d (withdraw)
    MaxPlus(i8),
    /// share allowance(holder, operator) + d (redeem by operator)
    AllowPlus(i8),
}

#[derive(Clone, Debug, Serialize, Deserialize, PartialEq, Eq)]
pub enum VxAllow {
    Keep,
    Needed,
    NeededMinus1,
    Plenty,
}

#[derive(Clone, Debug, Serialize, Deserialize)]
pub enum VxOp {
    Entry { kind: VKind, amt: VxAmt, receiver: u16, holder: u16, operator: Option<u16>, allow: VxAllow, auth: VAuth },
    ShareTransfer { from: u16, to: u16, amt: VxAmt, with_auth: bool },
    ShareApprove { owner: u16, spender: u16, amt: VxAmt, with_auth: bool },
    Donate { by: u16, amt: VxAmt },
}

#[derive(Clone, Debug, Serialize, Deserialize)]
pub struct VxCase {
    pub offset: u32,
    pub prefund: bool,
    pub ops: Vec<VxOp>,
}

fn amt_strategy() -> BoxedStrategy<VxAmt> {
    prop_oneof![
        4 => prop_oneof![Just(0i128), Just(1), Just(2), Just(3), Just(7), 0i128..=5000, Just(-1i128)].prop_map(VxAmt::Abs),
        4 => (0u8..=4).prop_map(VxAmt::Frac),
        3 => (-2i8..=1).prop_map(VxAmt::MaxPlus),
        3 => (-2i8..=1).prop_map(VxAmt::AllowPlus),
    ]
    .boxed()
}
fn auth_strategy(exact: u32) -> BoxedStrategy<VAuth> {
    prop_oneof![
        exact => Just(VAuth::Exact),
        1 => Just(VAuth::Drop),
        1 => any::<u16>().prop_map(VAuth::Swap),
        1 => Just(VAuth::DropSub),
        1 => Just(VAuth::Tamper),
        1 => any::<u16>().prop_map(VAuth::Surplus),
    ]
    .boxed()
}
pub fn strategy(tier: Tier, exact: u32) -> BoxedStrategy<VxCase> {
    let kind = prop_oneof![Just(VKind::Deposit), Just(VKind::Mint), Just(VKind::Withdraw), Just(VKind::Redeem)];
    let allow = prop_oneof![
        2 => Just(VxAllow::Keep),
        4 => Just(VxAllow::Needed),
        2 => Just(VxAllow::NeededMinus1),
        2 => Just(VxAllow::Plenty)
    ];
    let op = prop_oneof![
        10 => (kind, amt_strategy(), any::<u16>(), any::<u16>(), proptest::option::weighted(0.55, any::<u16>()), allow, auth_strategy(exact))
            .prop_map(|(kind, amt, receiver, holder, operator, allow, auth)| VxOp::Entry { kind, amt, receiver, holder, operator, allow, auth }),
        2 => (any::<u16>(), any::<u16>(), amt_strategy(), proptest::bool::weighted(0.85))
            .prop_map(|(from, to, amt, with_auth)| VxOp::ShareTransfer { from, to, amt, with_auth }),
        2 => (any::<u16>(), any::<u16>(), amt_strategy(), proptest::bool::weighted(0.85))
            .prop_map(|(owner, spender, amt, with_auth)| VxOp::ShareApprove { owner, spender, amt, with_auth }),
        1 => (any::<u16>(), amt_strategy()).prop_map(|(by, amt)| VxOp::Donate { by, amt }),
    ];
    (0u32..=10, any::<bool>(), proptest::collection::vec(op, 1..tier.pick(26usize, 50usize)))
        .prop_map(|(offset, prefund, ops)| VxCase { offset, prefund, ops })
        .boxed()
}

fn sum(v: &[i128]) -> BigInt {
    v.iter().map(|x| BigInt::from(*x)).sum()
}

fn c01_state(d: &VDump, replay: &[BigInt], what: &str) -> R {
    ensure!(
        sum(&d.share_bal) == BigInt::from(d.share_supply),
        "C01/vault/supply-ne-sum",
        "{what}: share total_supply {} != sum of share balances {:?}",
        d.share_supply,
        d.share_bal
    );
    for (i, b) in d.share_bal.iter().enumerate() {
        ensure!(*b >= 0, "C01/vault/negative-balance", "{what}: share balance[{i}] = {b}");
        ensure!(
            replay[i] == BigInt::from(*b),
            "C01/vault/event-replay-mismatch",
            "{what}: replaying deposit/withdraw/transfer events gives share balance[{i}] = {} but the vault reports {b}",
            replay[i]
        );
    }
    Ok(())
}

pub fn run(case: &VxCase, ctx: &mut Ctx, mode: Mode) -> R {
    let v = VaultEnv::setup(case.offset, 100);
    let e = &v.e;
    let parties = v.parties();
    let np = parties.len();
    for i in 0..N_ACTORS {
        v.fund(i, 20_000 + 1000 * i as i128).map_err(|er| violation("vault/setup/fund", er))?;
    }
    let mut replay: Vec<BigInt> = vec![BigInt::from(0); np];
    // share-allowance model: last approved minus spent (the ledger never moves; approvals live far ahead)
    let mut sh_allow: BTreeMap<(usize, usize), i128> = BTreeMap::new();
    let mut as_allow: BTreeMap<(usize, usize), i128> = BTreeMap::new();
    let mut d = v.dump();

    let mut ops: Vec<VxOp> = vec![];
    if mode == Mode::C02 {
        // every user owns shares, so that operator-initiated exits have something to burn
        for u in 0..3u16 {
            ops.push(VxOp::Entry {
                kind: VKind::Deposit,
                amt: VxAmt::Abs(3000 + u as i128),
                receiver: u * 16384 + 100,
                holder: u * 16384 + 100,
                operator: None,
                allow: VxAllow::Keep,
                auth: VAuth::Exact,
            });
        }
    }
    if case.prefund {
        ops.push(VxOp::Entry {
            kind: VKind::Deposit,
            amt: VxAmt::Abs(5000),
            receiver: 0,
            holder: 0,
            operator: None,
            allow: VxAllow::Keep,
            auth: VAuth::Exact,
        });
    }
    ops.extend(case.ops.iter().cloned());

    let (mut ok_entry, mut ok_exit, mut failed, mut ok_operator_exit, mut rej_auth, mut rej_allow) = (false, false, false, false, false, false);
    let pfx = if mode == Mode::C01 { "C01" } else { "C02" };

    for (step, op) in ops.iter().enumerate() {
        let what = format!("step {step} {:?}", op);
        match op {
            VxOp::Donate { by, amt } => {
                let by = pick(*by, N_ACTORS);
                let a = match amt {
                    VxAmt::Abs(x) => *x,
                    VxAmt::Frac(k) => d.asset_bal[by] / 4 * (*k as i128).min(4),
                    _ => 1,
                };
                let r = v.donate(by, a);
                ctx.op(r.is_ok());
                let d2 = v.dump();
                if mode == Mode::C01 {
                    ensure!(d2.share_supply == d.share_supply && d2.share_bal == d.share_bal, "C01/vault/donation-changed-shares", "{what}: a direct asset donation changed share state");
                }
                d = d2;
            }
            VxOp::ShareApprove { owner, spender, amt, with_auth } => {
                let o = pick(*owner, N_ACTORS);
                let s = pick(*spender, N_ACTORS);
                let a = match amt {
                    VxAmt::Abs(x) => *x,
                    VxAmt::Frac(k) => d.share_bal[o] / 4 * (*k as i128).min(4),
                    VxAmt::MaxPlus(dd) | VxAmt::AllowPlus(dd) => d.share_bal[o].saturating_add(*dd as i128),
                };
                let r = if *with_auth {
                    v.share_approve(o, s, a)
                } else {
                    envx::no_auth(e);
                    envx::call(e, &v.vault, "approve", args![e; v.actors[o].clone(), v.actors[s].clone(), a, v.live]).map(|_| ())
                };
                ctx.op(r.is_ok());
                let d2 = v.dump();
                if r.is_ok() {
                    if mode == Mode::C02 {
                        ensure!(*with_auth, "C02/vault.approve/allowance-changed-without-owner", "{what}: approve without the owner's entry succeeded");
                    }
                    sh_allow.insert((o, s), a);
                } else if mode == Mode::C01 {
                    ensure!(d2 == d, "C01/vault/failed-call-changed-state", "{what}: failed but state changed");
                }
                if mode == Mode::C01 {
                    ensure!(d2.share_supply == d.share_supply && d2.share_bal == d.share_bal, "C01/vault/approve-changed-balances", "{what}");
                }
                d = d2;
            }
            VxOp::ShareTransfer { from, to, amt, with_auth } => {
                let f = pick(*from, N_ACTORS);
                let t = pick(*to, N_ACTORS);
                let a = match amt {
                    VxAmt::Abs(x) => *x,
                    VxAmt::Frac(k) => d.share_bal[f] / 4 * (*k as i128).min(4),
                    VxAmt::MaxPlus(dd) | VxAmt::AllowPlus(dd) => d.share_bal[f].saturating_add(*dd as i128),
                };
                let r = if *with_auth {
                    v.share_transfer(f, t, a)
                } else {
                    envx::no_auth(e);
                    envx::call(e, &v.vault, "transfer", args![e; v.actors[f].clone(), v.actors[t].clone(), a]).map(|_| ())
                };
                ctx.op(r.is_ok());
                let evs = if r.is_ok() { envx::events_of(e, &v.vault) } else { vec![] };
                let d2 = v.dump();
                if r.is_ok() {
                    if mode == Mode::C02 {
                        let dec: Vec<usize> = (0..np).filter(|i| d2.share_bal[*i] < d.share_bal[*i]).collect();
                        ensure!(
                            dec.is_empty() || (*with_auth && dec == vec![f]),
                            "C02/vault.transfer/unjustified-balance-decrease",
                            "{what}: share balances of {:?} decreased (holder authorized: {with_auth})",
                            dec
                        );
                    }
                    if mode == Mode::C01 {
                        ensure!(d2.share_supply == d.share_supply, "C01/vault/transfer-changed-supply", "{what}");
                        let mut n = 0;
                        for ev in &evs {
                            if ev.topic_sym(0).as_deref() == Some("transfer") {
                                n += 1;
                                let (Some(x), Some(y)) = (ev.topic_addr(e, 1), ev.topic_addr(e, 2)) else {
                                    bail!("C01/vault/malformed-transfer-event", "{what}")
                                };
                                let amt = ev.data_field("amount").and_then(|s| envx::scval_i128(&s)).or(envx::scval_i128(&ev.data));
                                let (Some(i), Some(j), Some(am)) = (parties.iter().position(|p| *p == x), parties.iter().position(|p| *p == y), amt) else {
                                    bail!("C01/vault/malformed-transfer-event", "{what}")
                                };
                                replay[i] -= BigInt::from(am);
                                replay[j] += BigInt::from(am);
                            }
                        }
                        ensure!(n == 1, "C01/vault/wrong-events", "{what}: {n} transfer events for one share transfer");
                    }
                } else {
                    failed = true;
                    if mode == Mode::C01 {
                        ensure!(d2 == d, "C01/vault/failed-call-changed-state", "{what}: failed but state changed");
                    }
                }
                d = d2;
            }
            VxOp::Entry { kind, amt, receiver, holder, operator, allow, auth } => {
                let h = pick(*holder, N_ACTORS);
                let rcv = pick(*receiver, N_ACTORS);
                let opr = operator.map(|o| pick(o, N_ACTORS)).unwrap_or(h);
                // resolve the amount
                let maxw = if *kind == VKind::Withdraw { v.q_addr("max_withdraw", h).unwrap_or(0) } else { 0 };
                let a = match (kind, amt) {
                    (_, VxAmt::Abs(x)) => *x,
                    (VKind::Deposit, VxAmt::Frac(k)) => d.asset_bal[h] / 4 * (*k as i128).min(4),
                    (VKind::Deposit, VxAmt::MaxPlus(dd)) | (VKind::Deposit, VxAmt::AllowPlus(dd)) => d.asset_bal[h].saturating_add(*dd as i128),
                    (VKind::Mint, VxAmt::Frac(k)) => 250 * *k as i128,
                    (VKind::Mint, VxAmt::MaxPlus(dd)) | (VKind::Mint, VxAmt::AllowPlus(dd)) => 100i128.saturating_add(*dd as i128),
                    (VKind::Withdraw, VxAmt::Frac(k)) => maxw / 4 * (*k as i128).min(4),
                    (VKind::Withdraw, VxAmt::MaxPlus(dd)) | (VKind::Withdraw, VxAmt::AllowPlus(dd)) => maxw.saturating_add(*dd as i128),
                    (VKind::Redeem, VxAmt::Frac(k)) => d.share_bal[h] / 4 * (*k as i128).min(4) + if *k >= 4 { d.share_bal[h] % 4 } else { 0 },
                    (VKind::Redeem, VxAmt::MaxPlus(dd)) => d.share_bal[h].saturating_add(*dd as i128),
                    (VKind::Redeem, VxAmt::AllowPlus(dd)) => d.share_allow[h][opr].saturating_add(*dd as i128),
                };
                // what the operation will pull / burn (previews; a failing preview leaves 0 and the op is expected to fail)
                let pull = match kind {
                    VKind::Deposit => a,
                    VKind::Mint => v.q_amount("preview_mint", a).unwrap_or(0),
                    _ => 0,
                };
                let burn = match kind {
                    VKind::Withdraw => v.q_amount("preview_withdraw", a).unwrap_or(0),
                    VKind::Redeem => a,
                    _ => 0,
                };
                // optional pre-approval for operator != holder
                if opr != h {
                    let needed = if kind.is_entry() { pull } else { burn };
                    let val = match allow {
                        VxAllow::Keep => None,
                        VxAllow::Needed => Some(needed),
                        VxAllow::NeededMinus1 => Some(needed - 1),
                        VxAllow::Plenty => Some(needed.saturating_add(1000)),
                    };
                    if let Some(val) = val {
                        if val >= 0 {
                            if kind.is_entry() {
                                if v.asset_approve(h, opr, val).is_ok() {
                                    as_allow.insert((h, opr), val);
                                }
                            } else if v.share_approve(h, opr, val).is_ok() {
                                sh_allow.insert((h, opr), val);
                            }
                            d = v.dump();
                        }
                    }
                }
                let c = VCall { kind: *kind, amount: a, receiver: rcv, holder: h, operator: opr, pull_assets: pull };
                let (res, exact, evs) = v.exec(&c, auth);
                ctx.op(res.is_ok());
                let d2 = v.dump();
                let f = kind.func();
                match &res {
                    Err(_) => {
                        failed = true;
                        if !exact {
                            rej_auth = true;
                            ctx.class("vault_rejected_auth_mode");
                        } else if opr != h && !kind.is_entry() && burn > 0 && d.share_bal[h] >= burn && d.share_allow[h][opr] < burn {
                            rej_allow = true;
                            ctx.class("vault_rejected_insufficient_share_allowance");
                        }
                        if mode == Mode::C01 {
                            ensure!(d2 == d, "C01/vault/failed-call-changed-state", "{what}: {f} failed but state changed");
                        } else {
                            ensure!(d2 == d, format!("C02/vault.{f}/failed-call-changed-state"), "{what}: failed but state changed");
                        }
                    }
                    Ok(ret) => {
                        let shares = match kind {
                            VKind::Deposit | VKind::Withdraw => *ret,
                            VKind::Mint | VKind::Redeem => a,
                        };
                        if kind.is_entry() {
                            ok_entry = true;
                        } else {
                            ok_exit = true;
                        }
                        if mode == Mode::C01 {
                            let delta = BigInt::from(d2.share_supply) - BigInt::from(d.share_supply);
                            let want = if kind.is_entry() { BigInt::from(shares) } else { -BigInt::from(shares) };
                            ensure!(delta == want, format!("C01/vault.{f}/supply-delta"), "{what}: share supply moved by {delta}, expected {want}");
                            // exactly one deposit / withdraw event with the exact parties and numbers
                            let dec: Vec<_> = evs.iter().filter_map(|ev| decode_vault_event(e, ev)).collect();
                            let want_name = if kind.is_entry() { "deposit" } else { "withdraw" };
                            ensure!(
                                dec.len() == 1 && dec[0].0 == want_name,
                                "C01/vault/wrong-events",
                                "{what}: vault events {:?}, expected exactly one `{want_name}`",
                                dec.iter().map(|x| x.0.clone()).collect::<Vec<_>>()
                            );
                            let (_, t, _assets, ev_shares) = &dec[0];
                            // deposit: [operator, from, receiver] -> receiver is credited; withdraw: [operator, receiver, owner] -> owner is debited
                            let who = &t[2];
                            let Some(i) = parties.iter().position(|p| p == who) else { bail!("C01/vault/event-unknown-party", "{what}") };
                            if kind.is_entry() {
                                replay[i] += BigInt::from(*ev_shares);
                            } else {
                                replay[i] -= BigInt::from(*ev_shares);
                            }
                        }
                        if mode == Mode::C02 {
                            // shares: only the owner's balance may decrease, justified by owner entry or operator entry + live allowance
                            let dec: Vec<usize> = (0..np).filter(|i| d2.share_bal[*i] < d.share_bal[*i]).collect();
                            if !exact {
                                ensure!(
                                    dec.is_empty() && (0..N_ACTORS).all(|i| d2.asset_bal[i] >= d.asset_bal[i]),
                                    format!("C02/vault.{f}/balance-decreased-without-authorization"),
                                    "{what}: auth mode {:?} succeeded and decreased balances",
                                    auth
                                );
                            }
                            for i in &dec {
                                let burned = d.share_bal[*i] - d2.share_bal[*i];
                                let model_allow = sh_allow.get(&(h, opr)).copied().unwrap_or(0);
                                let justified = !kind.is_entry() && *i == h && exact && (opr == h || model_allow >= burned);
                                ensure!(
                                    justified,
                                    format!("C02/vault.{f}/unjustified-share-decrease"),
                                    "{what}: share balance of party {i} fell by {burned}; owner {h}, operator {opr}, exact entry {exact}, share allowance approved-minus-spent {model_allow}"
                                );
                                if opr != h {
                                    let before = d.share_allow[h][opr];
                                    let after = d2.share_allow[h][opr];
                                    ensure!(
                                        after == before - burned,
                                        format!("C02/vault.{f}/share-allowance-not-reduced-exactly"),
                                        "{what}: share allowance({h},{opr}) went {before} -> {after}, but {burned} shares were burned"
                                    );
                                    *sh_allow.entry((h, opr)).or_insert(0) -= burned;
                                    ok_operator_exit = true;
                                    ctx.class("vault_operator_exit_ok");
                                }
                            }
                            // assets pulled from `from` by an operator need the asset allowance
                            if kind.is_entry() {
                                let pulled = d.asset_bal[h] - d2.asset_bal[h];
                                if pulled > 0 && opr != h {
                                    let model_allow = as_allow.get(&(h, opr)).copied().unwrap_or(0);
                                    ensure!(
                                        exact && model_allow >= pulled,
                                        format!("C02/vault.{f}/assets-pulled-without-allowance"),
                                        "{what}: {pulled} assets pulled from {h} by operator {opr} with asset allowance approved-minus-spent {model_allow}"
                                    );
                                    *as_allow.entry((h, opr)).or_insert(0) -= pulled;
                                }
                            }
                        }
                    }
                }
                d = d2;
            }
        }
        if mode == Mode::C01 {
            c01_state(&d, &replay, &what)?;
        } else {
            // allowances never exceed approved minus spent
            for ((o, s), a) in &sh_allow {
                ensure!(
                    d.share_allow[*o][*s] <= *a,
                    "C02/vault/share-allowance-exceeds-approved-minus-spent",
                    "{what}: share allowance({o},{s}) = {} > approved minus spent {a}",
                    d.share_allow[*o][*s]
                );
            }
        }
    }
    let _ = pfx;
    match mode {
        Mode::C01 => {
            if ok_entry && ok_exit && failed {
                ctx.nontrivial = true;
                ctx.class("nontrivial");
                ctx.class("nontrivial_vault");
            }
        }
        Mode::C02 => {
            if ok_operator_exit && rej_auth && rej_allow {
                ctx.nontrivial = true;
                ctx.class("nontrivial");
                ctx.class("nontrivial_vault");
            }
        }
    }
    Ok(())
}

pub fn run_c01(case: &VxCase, ctx: &mut Ctx) -> R {
    run(case, ctx, Mode::C01)
}
pub fn run_c02(case: &VxCase, ctx: &mut Ctx) -> R {
    run(case, ctx, Mode::C02)
}
pub fn strategy_c01(tier: Tier) -> BoxedStrategy<VxCase> {
    strategy(tier, 25)
}
pub fn strategy_c02(tier: Tier) -> BoxedStrategy<VxCase> {
    strategy(tier, 6)
}

//! Shared driver for the fungible-token flavours (used by C01, C02, C16):
//! set-up of each flavour, operation vocabulary, selector resolution,
//! explicit-authorization execution and bulk state dumps.  Oracles live in the
//! property modules.

use crate::envx::{self, call, Inv};
use crate::gen::pick;
use proptest::prelude::*;
use serde::{Deserialize, Serialize};
use soroban_sdk::xdr::{AccountId, PublicKey, ScAddress, ScVal, Uint256};
use soroban_sdk::{Address, Env, IntoVal, MuxedAddress, String as SString, Symbol, TryFromVal, Val, Vec as SVec};
use stellar_tokens::fungible::Base;

#[derive(Clone, Copy, Debug, Serialize, Deserialize, PartialEq, Eq, PartialOrd, Ord)]
pub enum Flavor {
    Plain,
    Allow,
    Block,
    Votes,
    ExPausable,
    ExCapped,
    ExAllow,
    ExBlock,
    ExVotes,
    /// harness RWA token (library `RWA::*`) with permissive compliance / identity mocks; only the holder-initiated
    /// entry points (transfer, transfer_from, approve) and the operator's mint are driven through this driver
    Rwa,
}
impl Flavor {
    pub fn name(self) -> &'static str {
        match self {
            Flavor::Plain => "plain",
            Flavor::Allow => "allow",
            Flavor::Block => "block",
            Flavor::Votes => "votes",
            Flavor::ExPausable => "ex-pausable",
            Flavor::ExCapped => "ex-capped",
            Flavor::ExAllow => "ex-allowlist",
            Flavor::ExBlock => "ex-blocklist",
            Flavor::ExVotes => "ex-votes",
            Flavor::Rwa => "rwa",
        }
    }
    pub fn has_mint(self) -> bool {
        !matches!(self, Flavor::ExAllow | Flavor::ExBlock)
    }
    pub fn has_burn(self) -> bool {
        !matches!(self, Flavor::ExCapped | Flavor::ExBlock | Flavor::ExVotes | Flavor::Rwa)
    }
    pub fn has_list(self) -> bool {
        matches!(self, Flavor::Allow | Flavor::Block | Flavor::ExAllow | Flavor::ExBlock)
    }
    pub fn is_allow(self) -> bool {
        matches!(self, Flavor::Allow | Flavor::ExAllow)
    }
    pub fn is_block(self) -> bool {
        matches!(self, Flavor::Block | Flavor::ExBlock)
    }
    pub fn has_pause(self) -> bool {
        matches!(self, Flavor::ExPausable)
    }
    /// does mint need an authorizer (the capped example's mint is open)
    pub fn mint_needs_auth(self) -> bool {
        !matches!(self, Flavor::ExCapped)
    }
}

pub const EX_INITIAL_SUPPLY: i128 = 1_000_000;
pub const EX_CAP: i128 = 5_000;

/// Amount selector, resolved against the observed state at execution time.
#[derive(Clone, Debug, Serialize, Deserialize)]
pub enum Amt {
    Abs(#[serde(with = "crate::gen::i128_str")] i128),
    /// num/4 of the holder's balance
    OfBal(u8),
    /// holder balance + d
    BalPlus(i8),
    /// allowance(holder, spender) + d   (falls back to balance + d when no spender)
    AllowPlus(i8),
    /// i128::MAX - supply + d  (mint overflow boundary)
    SupplyGap(i8),
    /// cap - supply + d (capped flavour; otherwise like SupplyGap)
    CapGap(i8),
    /// min(holder balance, allowance(holder, spender)) + d — the largest spend that can succeed, +-d
    MinBalAllow(i8),
}

/// amounts biased towards spends that can succeed (C02)
pub fn amt_strategy_spend() -> BoxedStrategy<Amt> {
    prop_oneof![
        3 => (0i128..=60).prop_map(Amt::Abs),
        2 => crate::gen::amount_any().prop_map(Amt::Abs),
        2 => (0u8..=4).prop_map(Amt::OfBal),
        2 => (-2i8..=2).prop_map(Amt::BalPlus),
        3 => (-2i8..=2).prop_map(Amt::AllowPlus),
        5 => (-2i8..=1).prop_map(Amt::MinBalAllow),
    ]
    .boxed()
}

/// approve amounts that are mostly positive and of the order of the balances (C02)
pub fn amt_strategy_approve() -> BoxedStrategy<Amt> {
    prop_oneof![
        5 => (1i128..=1500).prop_map(Amt::Abs),
        2 => crate::gen::amount_any().prop_map(Amt::Abs),
        2 => (1u8..=4).prop_map(Amt::OfBal),
        2 => (-1i8..=2).prop_map(Amt::BalPlus),
        1 => Just(Amt::Abs(0)),
    ]
    .boxed()
}

pub fn amt_strategy() -> BoxedStrategy<Amt> {
    prop_oneof![
        5 => crate::gen::amount_any().prop_map(Amt::Abs),
        3 => (0u8..=4).prop_map(Amt::OfBal),
        3 => (-2i8..=2).prop_map(Amt::BalPlus),
        3 => (-2i8..=2).prop_map(Amt::AllowPlus),
        1 => (-2i8..=2).prop_map(Amt::SupplyGap),
        1 => (-2i8..=2).prop_map(Amt::CapGap),
    ]
    .boxed()
}

/// live_until selector
#[derive(Clone, Debug, Serialize, Deserialize)]
pub enum Live {
    /// current ledger + d
    Rel(i32),
    /// max_live_until_ledger + d
    MaxPlus(i8),
    Abs(u32),
}
pub fn live_strategy() -> BoxedStrategy<Live> {
    prop_oneof![
        6 => prop_oneof![Just(-1i32), Just(0), Just(1), Just(2), 3i32..60, -5i32..0].prop_map(Live::Rel),
        2 => (-2i8..=2).prop_map(Live::MaxPlus),
        1 => prop_oneof![Just(0u32), Just(u32::MAX), Just(1u32)].prop_map(Live::Abs),
    ]
    .boxed()
}

#[derive(Clone, Debug, Serialize, Deserialize, PartialEq, Eq)]
pub enum AuthMode {
    /// every documented authorizer, exact invocation
    Exact,
    /// drop the i-th required authorizer (all of them if there is only one)
    Drop(u8),
    /// somebody else signs in place of the i-th required authorizer
    Swap(u8, u16),
    /// the i-th authorizer signs the same function with one argument changed
    Tamper(u8, u8),
    /// Exact plus an unrelated entry
    Surplus(u16),
}
pub fn auth_strategy(exact_weight: u32) -> BoxedStrategy<AuthMode> {
    prop_oneof![
        exact_weight => Just(AuthMode::Exact),
        2 => (0u8..2).prop_map(AuthMode::Drop),
        2 => (0u8..2, any::<u16>()).prop_map(|(i, a)| AuthMode::Swap(i, a)),
        2 => (0u8..2, 0u8..4).prop_map(|(i, k)| AuthMode::Tamper(i, k)),
        1 => any::<u16>().prop_map(AuthMode::Surplus),
    ]
    .boxed()
}

#[derive(Clone, Debug, Serialize, Deserialize)]
pub enum Op {
    Mint { to: u16, amt: Amt, auth: AuthMode },
    Transfer { from: u16, to: u16, amt: Amt, muxed: Option<u64>, auth: AuthMode },
    /// `live_pair`: when Some and some (owner, spender) pair currently has a non-zero allowance, use that pair
    TransferFrom { spender: u16, from: u16, to: u16, amt: Amt, auth: AuthMode, live_pair: Option<u16> },
    Approve { owner: u16, spender: u16, amt: Amt, live: Live, auth: AuthMode },
    Burn { from: u16, amt: Amt, auth: AuthMode },
    BurnFrom { spender: u16, from: u16, amt: Amt, auth: AuthMode, live_pair: Option<u16> },
    /// advance the ledger: Rel(k) or to the expiry of some allowance (+d)
    Advance { k: u32 },
    AdvanceToExpiry { which: u16, d: i8 },
    /// allow/disallow resp. block/unblock (`on` = put on the list)
    ListSet { who: u16, on: bool, auth: AuthMode },
    Pause { on: bool, by_owner: bool, auth: AuthMode },
}

pub struct OpWeights {
    pub mint: u32,
    pub transfer: u32,
    pub transfer_from: u32,
    pub approve: u32,
    pub burn: u32,
    pub burn_from: u32,
    pub advance: u32,
    pub list: u32,
    pub pause: u32,
    pub exact_auth: u32,
    /// use the spend-friendly amount profile
    pub spend_profile: bool,
}

pub fn op_strategy(w: &OpWeights) -> BoxedStrategy<Op> {
    let a = auth_strategy(w.exact_auth);
    let amt_strategy = || if w.spend_profile { amt_strategy_spend() } else { amt_strategy() };
    prop_oneof![
        w.mint => (any::<u16>(), amt_strategy(), a.clone()).prop_map(|(to, amt, auth)| Op::Mint { to, amt, auth }),
        w.transfer => (any::<u16>(), any::<u16>(), amt_strategy(), proptest::option::weighted(0.15, any::<u64>()), a.clone())
            .prop_map(|(from, to, amt, muxed, auth)| Op::Transfer { from, to, amt, muxed, auth }),
        w.transfer_from => (any::<u16>(), any::<u16>(), any::<u16>(), amt_strategy(), a.clone(), proptest::option::weighted(0.6, any::<u16>()))
            .prop_map(|(spender, from, to, amt, auth, live_pair)| Op::TransferFrom { spender, from, to, amt, auth, live_pair }),
        w.approve => (any::<u16>(), any::<u16>(), if w.spend_profile { amt_strategy_approve() } else { amt_strategy() }, live_strategy(), a.clone())
            .prop_map(|(owner, spender, amt, live, auth)| Op::Approve { owner, spender, amt, live, auth }),
        w.burn => (any::<u16>(), amt_strategy(), a.clone()).prop_map(|(from, amt, auth)| Op::Burn { from, amt, auth }),
        w.burn_from => (any::<u16>(), any::<u16>(), amt_strategy(), a.clone(), proptest::option::weighted(0.6, any::<u16>()))
            .prop_map(|(spender, from, amt, auth, live_pair)| Op::BurnFrom { spender, from, amt, auth, live_pair }),
        w.advance => prop_oneof![
            3 => prop_oneof![Just(0u32), Just(1), Just(2), 3u32..80, 500u32..700].prop_map(|k| Op::Advance { k }),
            3 => (any::<u16>(), -1i8..=1).prop_map(|(which, d)| Op::AdvanceToExpiry { which, d }),
        ],
        w.list => (any::<u16>(), any::<bool>(), a.clone()).prop_map(|(who, on, auth)| Op::ListSet { who, on, auth }),
        w.pause => (any::<bool>(), proptest::bool::weighted(0.85), a.clone()).prop_map(|(on, by_owner, auth)| Op::Pause { on, by_owner, auth }),
    ]
    .boxed()
}

/// Observed state of a token (bulk read through the library getters in one frame).
#[derive(Clone, Debug, PartialEq, Eq)]
pub struct Dump {
    pub supply: i128,
    /// balances of accts[0..n] then sink
    pub bal: Vec<i128>,
    /// allowance[owner][spender]
    pub allow: Vec<Vec<i128>>,
    /// list membership per account (allowed / blocked), empty when no list
    pub listed: Vec<bool>,
    pub paused: bool,
}

pub struct Tok {
    pub e: Env,
    pub addr: Address,
    pub flavor: Flavor,
    /// mint authority (admin / owner)
    pub admin: Address,
    /// list manager (operator argument of allow/block entry points)
    pub manager: Address,
    /// actors; index n (last) is the account-typed sink that only ever receives
    pub accts: Vec<Address>,
    pub sink: Address,
}

fn s(e: &Env, x: &str) -> SString {
    SString::from_str(e, x)
}

pub fn account_address(e: &Env, tag: u8) -> Address {
    let sc = ScVal::Address(ScAddress::Account(AccountId(PublicKey::PublicKeyTypeEd25519(Uint256([tag; 32])))));
    Address::try_from_val(e, &sc).expect("account address")
}

impl Tok {
    pub fn setup(flavor: Flavor, n: usize, seq: u32, max_ttl: u32) -> Tok {
        use crate::contracts::ft::*;
        use crate::examples as ex;
        let e = envx::new_env(seq, max_ttl);
        let admin = envx::actor(&e);
        let manager = envx::actor(&e);
        let mut accts = envx::actors(&e, n);
        let sink = account_address(&e, 7);
        let addr = match flavor {
            Flavor::Plain => e.register(ft_base::FtBase, (admin.clone(),)),
            Flavor::Allow => e.register(ft_allow::FtAllow, (admin.clone(),)),
            Flavor::Block => e.register(ft_block::FtBlock, (admin.clone(),)),
            Flavor::Votes => e.register(ft_votes::FtVotes, (admin.clone(),)),
            Flavor::ExPausable => e.register(
                ex::fungible_pausable::contract::ExampleContract,
                (s(&e, "P"), s(&e, "P"), admin.clone(), EX_INITIAL_SUPPLY),
            ),
            Flavor::ExCapped => e.register(ex::fungible_capped::contract::ExampleContract, (EX_CAP,)),
            Flavor::ExAllow => e.register(
                ex::fungible_allowlist::contract::ExampleContract,
                (s(&e, "A"), s(&e, "A"), admin.clone(), manager.clone(), EX_INITIAL_SUPPLY),
            ),
            Flavor::ExBlock => e.register(
                ex::fungible_blocklist::contract::ExampleContract,
                (s(&e, "B"), s(&e, "B"), admin.clone(), manager.clone(), EX_INITIAL_SUPPLY),
            ),
            Flavor::ExVotes => e.register(ex::fungible_votes::contract::ExampleContract, (admin.clone(),)),
            Flavor::Rwa => super::c04::rwa_token_setup(&e, &admin, false).expect("rwa set-up").token,
        };
        // the admin holds the constructor-minted supply in three examples: make it a named account
        if matches!(flavor, Flavor::ExPausable | Flavor::ExAllow | Flavor::ExBlock) {
            accts[0] = admin.clone();
        }
        let manager = if matches!(flavor, Flavor::ExAllow | Flavor::ExBlock) { manager } else { admin.clone() };
        Tok { e, addr, flavor, admin, manager, accts, sink }
    }

    /// all holders whose balance is tracked: accts + sink
    pub fn holders(&self) -> Vec<Address> {
        let mut v = self.accts.clone();
        v.push(self.sink.clone());
        v
    }
    pub fn acct(&self, sel: u16) -> Address {
        self.accts[pick(sel, self.accts.len())].clone()
    }
    pub fn acct_idx(&self, sel: u16) -> usize {
        pick(sel, self.accts.len())
    }

    pub fn dump(&self) -> Dump {
        let e = &self.e;
        let hs = self.holders();
        let flavor = self.flavor;
        e.as_contract(&self.addr, || {
            let supply = Base::total_supply(e);
            let bal: Vec<i128> = hs.iter().map(|a| Base::balance(e, a)).collect();
            let allow: Vec<Vec<i128>> =
                hs.iter().map(|o| hs.iter().map(|sp| Base::allowance(e, o, sp)).collect()).collect();
            let listed: Vec<bool> = if flavor.is_allow() {
                hs.iter().map(|a| stellar_tokens::fungible::allowlist::AllowList::allowed(e, a)).collect()
            } else if flavor.is_block() {
                hs.iter().map(|a| stellar_tokens::fungible::blocklist::BlockList::blocked(e, a)).collect()
            } else {
                vec![]
            };
            let paused = if flavor.has_pause() { stellar_contract_utils::pausable::paused(e) } else { false };
            Dump { supply, bal, allow, listed, paused }
        })
    }

    /// public-API reads (entry points) for the given holder indices
    pub fn api_balance(&self, a: &Address) -> Result<i128, String> {
        envx::call_t::<i128>(&self.e, &self.addr, "balance", args![&self.e; a.clone()])
    }
    pub fn api_supply(&self) -> Result<i128, String> {
        envx::call_t::<i128>(&self.e, &self.addr, "total_supply", args![&self.e])
    }
    pub fn api_allowance(&self, o: &Address, sp: &Address) -> Result<i128, String> {
        envx::call_t::<i128>(&self.e, &self.addr, "allowance", args![&self.e; o.clone(), sp.clone()])
    }

    pub fn resolve_amt(&self, amt: &Amt, d: &Dump, holder: usize, spender: Option<usize>) -> i128 {
        let bal = d.bal[holder];
        match amt {
            Amt::Abs(x) => *x,
            Amt::OfBal(k) => bal / 4 * (*k as i128).min(4) + if *k >= 4 { bal % 4 } else { 0 },
            Amt::BalPlus(dd) => bal.saturating_add(*dd as i128),
            Amt::AllowPlus(dd) => match spender {
                Some(sp) => d.allow[holder][sp].saturating_add(*dd as i128),
                None => bal.saturating_add(*dd as i128),
            },
            Amt::SupplyGap(dd) => (i128::MAX - d.supply).saturating_add(*dd as i128),
            Amt::MinBalAllow(dd) => match spender {
                Some(sp) => d.allow[holder][sp].min(bal).saturating_add(*dd as i128),
                None => bal.saturating_add(*dd as i128),
            },
            Amt::CapGap(dd) => {
                if self.flavor == Flavor::ExCapped {
                    (EX_CAP - d.supply).saturating_add(*dd as i128)
                } else {
                    (i128::MAX - d.supply).saturating_add(*dd as i128)
                }
            }
        }
    }
    pub fn resolve_live(&self, l: &Live) -> u32 {
        let seq = self.e.ledger().sequence();
        match l {
            Live::Rel(d) => (seq as i64 + *d as i64).clamp(0, u32::MAX as i64) as u32,
            Live::MaxPlus(d) => (self.e.ledger().max_live_until_ledger() as i64 + *d as i64).clamp(0, u32::MAX as i64) as u32,
            Live::Abs(x) => *x,
        }
    }
}

/// A fully resolved call: function, arguments, documented authorizers.
#[derive(Clone, Debug)]
pub struct Call {
    pub func: &'static str,
    pub args: Vec<Val>,
    /// addresses whose authorization the documented contract requires
    pub required: Vec<Address>,
    /// index in `args` of the amount (for Tamper), if any
    pub amount_arg: Option<usize>,
}

impl Call {
    pub fn svec(&self, e: &Env) -> SVec<Val> {
        let mut v = SVec::new(e);
        for a in &self.args {
            v.push_back(*a);
        }
        v
    }
}

/// Attach authorizations according to `mode` and invoke.  Returns (result, effective_exact):
/// `effective_exact` is true iff every required authorizer's exact entry was attached.
pub fn exec(t: &Tok, c: &Call, mode: &AuthMode) -> (Result<Val, String>, bool) {
    let e = &t.e;
    let inv = Inv { contract: t.addr.clone(), func: c.func.to_string(), args: c.args.clone(), subs: vec![] };
    let mut entries: Vec<(Address, Inv)> = c.required.iter().map(|a| (a.clone(), inv.clone())).collect();
    let mut exact = true;
    let nreq = c.required.len();
    match mode {
        AuthMode::Exact => {}
        AuthMode::Drop(i) => {
            if nreq > 0 {
                let i = (*i as usize) % nreq;
                entries.remove(i);
                exact = false;
            }
        }
        AuthMode::Swap(i, other) => {
            if nreq > 0 {
                let i = (*i as usize) % nreq;
                // somebody who is not required for this call
                let pool: Vec<Address> = t
                    .accts
                    .iter()
                    .chain([&t.admin, &t.manager])
                    .filter(|a| !c.required.contains(a))
                    .cloned()
                    .collect();
                if !pool.is_empty() {
                    let o = pool[pick(*other, pool.len())].clone();
                    entries[i].0 = o;
                    exact = false;
                }
            }
        }
        AuthMode::Tamper(i, k) => {
            if nreq > 0 && !c.args.is_empty() {
                let i = (*i as usize) % nreq;
                let mut args = c.args.clone();
                let mut changed = false;
                if let (Some(ai), true) = (c.amount_arg, *k % 2 == 0) {
                    if let Ok(x) = i128::try_from_val(e, &args[ai]) {
                        let y = if *k == 0 { x.wrapping_add(1) } else { x.wrapping_sub(1) };
                        args[ai] = y.into_val(e);
                        changed = true;
                    }
                }
                if !changed {
                    // replace the first address argument that differs from a fresh address
                    let fresh = t.sink.clone();
                    for a in args.iter_mut() {
                        if let Ok(ad) = Address::try_from_val(e, a) {
                            if ad != fresh {
                                *a = fresh.clone().into_val(e);
                                changed = true;
                                break;
                            }
                        }
                    }
                }
                if changed {
                    entries[i].1.args = args;
                    exact = false;
                }
            }
        }
        AuthMode::Surplus(o) => {
            let who = t.acct(*o);
            let junk = Inv {
                contract: t.addr.clone(),
                func: "approve".into(),
                args: vec![who.clone().into_val(e), who.clone().into_val(e), 1i128.into_val(e), 0u32.into_val(e)],
                subs: vec![],
            };
            if !c.required.contains(&who) {
                entries.push((who, junk));
            }
        }
    }
    let refs: Vec<(&Address, &Inv)> = entries.iter().map(|(a, i)| (a, i)).collect();
    envx::set_auth(e, &refs);
    let r = call(e, &t.addr, c.func, c.svec(e));
    envx::no_auth(e);
    (r, exact)
}

pub fn muxed_to(_e: &Env, base: &Address, id: u64) -> MuxedAddress {
    use soroban_sdk::testutils::MuxedAddress as _;
    MuxedAddress::new(base.clone(), id)
}

pub fn sym(e: &Env, x: &str) -> Symbol {
    Symbol::new(e, x)
}


// ---------------------------------------------------------------- op resolution

#[derive(Clone, Copy, Debug, PartialEq, Eq)]
pub enum Kind {
    Mint,
    Burn,
    BurnFrom,
    Transfer,
    TransferFrom,
    Approve,
    List,
    Pause,
}

/// An operation resolved against the observed state `d`.
#[derive(Clone, Debug)]
pub struct Resolved {
    pub call: Call,
    pub mode: AuthMode,
    pub kind: Kind,
    pub amount: i128,
    /// holder index (into `holders()`) losing tokens, if any
    pub from: Option<usize>,
    /// holder index receiving tokens, if any
    pub to: Option<usize>,
    /// spender / operator index for *_from and approve
    pub spender: Option<usize>,
    /// resolved live_until (approve)
    pub live: u32,
    /// list op: (account index, put on the list?)
    pub list: Option<(usize, bool)>,
    /// pause op: (pause?, caller is the owner?)
    pub pause: Option<(bool, bool)>,
    pub muxed: bool,
}

/// history-derived selector pools
#[derive(Default)]
pub struct Hist {
    pub expiries: Vec<u32>,
    pub pairs: Vec<(usize, usize)>,
}

pub enum Step {
    /// ledger moved (already applied)
    Advanced,
    /// operation does not exist for this flavour
    Skipped,
    Call(Resolved),
}

impl Tok {
    pub fn sink_idx(&self) -> usize {
        self.accts.len()
    }
    /// Resolve a generated op.  `hist` collects live_until values and pairs of approvals (for state-relative selectors).
    pub fn resolve(&self, op: &Op, d: &Dump, hist: &mut Hist) -> Step {
        let e = &self.e;
        let f = self.flavor;
        let blank = |call: Call, mode: &AuthMode, kind: Kind, amount: i128| Resolved {
            call,
            mode: mode.clone(),
            kind,
            amount,
            from: None,
            to: None,
            spender: None,
            live: 0,
            list: None,
            pause: None,
            muxed: false,
        };
        match op {
            Op::Advance { k } => {
                envx::advance(e, *k);
                Step::Advanced
            }
            Op::AdvanceToExpiry { which, d: dd } => {
                if !hist.expiries.is_empty() {
                    let target = hist.expiries[pick(*which, hist.expiries.len())] as i64 + *dd as i64;
                    let now = envx::seq(e) as i64;
                    if target > now && target - now < 100_000 {
                        envx::set_seq(e, target as u32);
                    }
                }
                Step::Advanced
            }
            Op::Mint { to, amt, auth } => {
                if !f.has_mint() {
                    return Step::Skipped;
                }
                let ti = self.acct_idx(*to);
                let a = self.resolve_amt(amt, d, ti, None);
                let req = if f.mint_needs_auth() { vec![self.admin.clone()] } else { vec![] };
                let mut margs: Vec<Val> = vec![self.accts[ti].clone().into_val(e), a.into_val(e)];
                if f == Flavor::Rwa {
                    // RWAToken::mint(to, amount, operator)
                    margs.push(self.admin.clone().into_val(e));
                }
                let mut r = blank(
                    Call { func: "mint", args: margs, required: req, amount_arg: Some(1) },
                    auth,
                    Kind::Mint,
                    a,
                );
                r.to = Some(ti);
                Step::Call(r)
            }
            Op::Transfer { from, to, amt, muxed, auth } => {
                let fi = self.acct_idx(*from);
                let a = self.resolve_amt(amt, d, fi, None);
                let (to_val, ti): (Val, usize) = match muxed {
                    Some(id) => (muxed_to(e, &self.sink, *id).into_val(e), self.sink_idx()),
                    None => {
                        let ti = self.acct_idx(*to);
                        (self.accts[ti].clone().into_val(e), ti)
                    }
                };
                let mut r = blank(
                    Call {
                        func: "transfer",
                        args: vec![self.accts[fi].clone().into_val(e), to_val, a.into_val(e)],
                        required: vec![self.accts[fi].clone()],
                        amount_arg: Some(2),
                    },
                    auth,
                    Kind::Transfer,
                    a,
                );
                r.from = Some(fi);
                r.to = Some(ti);
                r.muxed = muxed.is_some();
                Step::Call(r)
            }
            Op::TransferFrom { spender, from, to, amt, auth, live_pair } => {
                let (fi, si) = self.spend_pair(d, hist, *from, *spender, *live_pair);
                let ti = self.acct_idx(*to);
                let a = self.resolve_amt(amt, d, fi, Some(si));
                let mut r = blank(
                    Call {
                        func: "transfer_from",
                        args: vec![
                            self.accts[si].clone().into_val(e),
                            self.accts[fi].clone().into_val(e),
                            self.accts[ti].clone().into_val(e),
                            a.into_val(e),
                        ],
                        required: vec![self.accts[si].clone()],
                        amount_arg: Some(3),
                    },
                    auth,
                    Kind::TransferFrom,
                    a,
                );
                r.from = Some(fi);
                r.to = Some(ti);
                r.spender = Some(si);
                Step::Call(r)
            }
            Op::Approve { owner, spender, amt, live, auth } => {
                let oi = self.acct_idx(*owner);
                let si = self.acct_idx(*spender);
                let a = self.resolve_amt(amt, d, oi, Some(si));
                let l = self.resolve_live(live);
                hist.expiries.push(l);
                if !hist.pairs.contains(&(oi, si)) {
                    hist.pairs.push((oi, si));
                }
                let mut r = blank(
                    Call {
                        func: "approve",
                        args: vec![
                            self.accts[oi].clone().into_val(e),
                            self.accts[si].clone().into_val(e),
                            a.into_val(e),
                            l.into_val(e),
                        ],
                        required: vec![self.accts[oi].clone()],
                        amount_arg: Some(2),
                    },
                    auth,
                    Kind::Approve,
                    a,
                );
                r.from = Some(oi);
                r.spender = Some(si);
                r.live = l;
                Step::Call(r)
            }
            Op::Burn { from, amt, auth } => {
                if !f.has_burn() {
                    return Step::Skipped;
                }
                let fi = self.acct_idx(*from);
                let a = self.resolve_amt(amt, d, fi, None);
                let mut r = blank(
                    Call {
                        func: "burn",
                        args: vec![self.accts[fi].clone().into_val(e), a.into_val(e)],
                        required: vec![self.accts[fi].clone()],
                        amount_arg: Some(1),
                    },
                    auth,
                    Kind::Burn,
                    a,
                );
                r.from = Some(fi);
                Step::Call(r)
            }
            Op::BurnFrom { spender, from, amt, auth, live_pair } => {
                if !f.has_burn() {
                    return Step::Skipped;
                }
                let (fi, si) = self.spend_pair(d, hist, *from, *spender, *live_pair);
                let a = self.resolve_amt(amt, d, fi, Some(si));
                let mut r = blank(
                    Call {
                        func: "burn_from",
                        args: vec![self.accts[si].clone().into_val(e), self.accts[fi].clone().into_val(e), a.into_val(e)],
                        required: vec![self.accts[si].clone()],
                        amount_arg: Some(2),
                    },
                    auth,
                    Kind::BurnFrom,
                    a,
                );
                r.from = Some(fi);
                r.spender = Some(si);
                Step::Call(r)
            }
            Op::ListSet { who, on, auth } => {
                if !f.has_list() {
                    return Step::Skipped;
                }
                let wi = self.acct_idx(*who);
                let mut r = blank(self.list_call(wi, *on), auth, Kind::List, 0);
                r.list = Some((wi, *on));
                Step::Call(r)
            }
            Op::Pause { on, by_owner, auth } => {
                if !f.has_pause() {
                    return Step::Skipped;
                }
                let caller = if *by_owner { self.admin.clone() } else { self.accts[self.accts.len() - 1].clone() };
                let by_owner = caller == self.admin;
                let mut r = blank(
                    Call {
                        func: if *on { "pause" } else { "unpause" },
                        args: vec![caller.clone().into_val(e)],
                        required: vec![caller],
                        amount_arg: None,
                    },
                    auth,
                    Kind::Pause,
                    0,
                );
                r.pause = Some((*on, by_owner));
                Step::Call(r)
            }
        }
    }

    /// (owner, spender) for an allowance-based op: a pair with a live allowance when asked for and available
    pub fn spend_pair(&self, d: &Dump, hist: &Hist, from: u16, spender: u16, live_pair: Option<u16>) -> (usize, usize) {
        if let Some(sel) = live_pair {
            // a third of the time: any pair that was ever approved (possibly expired or spent by now)
            if sel % 3 == 0 && !hist.pairs.is_empty() {
                return hist.pairs[pick(sel, hist.pairs.len())];
            }
            let n = self.accts.len();
            let live: Vec<(usize, usize)> =
                (0..n).flat_map(|o| (0..n).map(move |s| (o, s))).filter(|(o, s)| d.allow[*o][*s] > 0).collect();
            if !live.is_empty() {
                return live[pick(sel, live.len())];
            }
        }
        (self.acct_idx(from), self.acct_idx(spender))
    }

    /// allow/disallow resp. block/unblock call for holder index `wi`
    pub fn list_call(&self, wi: usize, on: bool) -> Call {
        let e = &self.e;
        let func = match (self.flavor.is_allow(), on) {
            (true, true) => "allow_user",
            (true, false) => "disallow_user",
            (false, true) => "block_user",
            (false, false) => "unblock_user",
        };
        let hs = self.holders();
        Call {
            func,
            args: vec![hs[wi].clone().into_val(e), self.manager.clone().into_val(e)],
            required: vec![self.manager.clone()],
            amount_arg: None,
        }
    }

    /// set-up: bring list membership of all holders to `mask` with exact authorization
    pub fn setup_lists(&self, mask: u16) -> Result<(), String> {
        if !self.flavor.has_list() {
            return Ok(());
        }
        let d = self.dump();
        for i in 0..self.holders().len() {
            let want = (mask >> i) & 1 == 1;
            if want != d.listed[i] {
                let c = self.list_call(i, want);
                let (r, _) = exec(self, &c, &AuthMode::Exact);
                r.map_err(|e| format!("list set-up {} failed: {e}", c.func))?;
            }
        }
        Ok(())
    }
}

// ---------------------------------------------------------------- documented preconditions

/// Non-gate preconditions of an amount operation, from the library documentation,
/// evaluated on the OBSERVED state `d` (balances, visible allowances, supply).
pub fn base_preconditions(t: &Tok, r: &Resolved, d: &Dump) -> Result<(), &'static str> {
    let now = t.e.ledger().sequence();
    let a = r.amount;
    match r.kind {
        Kind::Mint => {
            if a < 0 {
                return Err("negative");
            }
            let Some(sum) = d.supply.checked_add(a) else { return Err("overflow") };
            if t.flavor == Flavor::ExCapped && sum > EX_CAP {
                return Err("cap");
            }
            Ok(())
        }
        Kind::Transfer | Kind::Burn => {
            if a < 0 {
                return Err("negative");
            }
            if d.bal[r.from.unwrap()] < a {
                return Err("balance");
            }
            Ok(())
        }
        Kind::TransferFrom | Kind::BurnFrom => {
            if a < 0 {
                return Err("negative");
            }
            if d.allow[r.from.unwrap()][r.spender.unwrap()] < a {
                return Err("allowance");
            }
            if d.bal[r.from.unwrap()] < a {
                return Err("balance");
            }
            Ok(())
        }
        Kind::Approve => {
            if a < 0 {
                return Err("negative");
            }
            if r.live > t.e.ledger().max_live_until_ledger() {
                return Err("live_until");
            }
            if a > 0 && r.live < now {
                return Err("live_until");
            }
            Ok(())
        }
        Kind::List | Kind::Pause => Ok(()),
    }
}

/// Which documented gate (list membership / pause) is closed for this operation, if any.
pub fn closed_gate(t: &Tok, r: &Resolved, d: &Dump) -> Option<&'static str> {
    let f = t.flavor;
    if f.has_pause() && d.paused && matches!(r.kind, Kind::Mint | Kind::Transfer | Kind::TransferFrom | Kind::Burn | Kind::BurnFrom) {
        return Some("paused");
    }
    if f.has_list() {
        // `bad(i)`: holder i fails the vetting
        let bad = |i: usize| if f.is_allow() { !d.listed[i] } else { d.listed[i] };
        match r.kind {
            Kind::Transfer | Kind::TransferFrom => {
                if bad(r.from.unwrap()) {
                    return Some("from");
                }
                if bad(r.to.unwrap()) {
                    return Some("to");
                }
            }
            Kind::Approve => {
                if bad(r.from.unwrap()) {
                    return Some("owner");
                }
            }
            Kind::Burn | Kind::BurnFrom => {
                if bad(r.from.unwrap()) {
                    return Some("from");
                }
            }
            _ => {}
        }
    }
    None
}

pub fn kind_name(k: Kind) -> &'static str {
    match k {
        Kind::Mint => "mint",
        Kind::Burn => "burn",
        Kind::BurnFrom => "burn_from",
        Kind::Transfer => "transfer",
        Kind::TransferFrom => "transfer_from",
        Kind::Approve => "approve",
        Kind::List => "list",
        Kind::Pause => "pause",
    }
}

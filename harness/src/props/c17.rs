//! C17 — Merkle proofs verify only true membership; each leaf is claimed once.
//!
//! Independent oracle: trees, proofs and the reference fold are built here with the RustCrypto
//! `sha2` / `sha3` crates (SHA-256 and Keccak-256), leaf pre-images are serialised with the
//! `stellar-xdr` types by hand (an `ScVal::Map` with the struct's field names as sorted symbol
//! keys).  Nothing of `stellar_contract_utils::crypto` is used on the oracle side.
//!
//! Sub-checks
//! * `verify-sorted`   — `Verifier::<H>::verify` on sorted-pair trees (odd node promoted, or the
//!                       OpenZeppelin merkle-tree heap layout): unbalanced shapes, every leaf honest,
//!                       one probe of every corruption kind (+ extras) per tree, both hashers.
//! * `verify-indexed`  — `Verifier::<H>::verify_with_index` on positional trees padded to 2^k with
//!                       DISTINCT filler leaves (DESIGN §7), incl. the wrong-index corruptions.
//! * `exhaustive-small`— deterministic: n = 1..=17, every leaf, every index value 0..=2^len, every
//!                       drop position, every swap pair.
//! * `distrib`         — histories on the harness distributor (both hashers, both claim functions,
//!                       settable root).
//! * `airdrop`, `voting` — histories on the two examples (token balances / vote tallies).

use crate::engine::*;
use crate::envx;
use crate::gen::pick;
use proptest::prelude::*;
use serde::{Deserialize, Serialize};
use serde_json::json;
use sha2::Digest as _;
use soroban_sdk::xdr::{Int128Parts, Limits, ScAddress, ScMap, ScMapEntry, ScSymbol, ScVal, WriteXdr};
use soroban_sdk::{Address, BytesN, Env};
use std::collections::BTreeSet;

type H32 = [u8; 32];

// =============================================================== independent reference

#[derive(Clone, Copy, Debug, PartialEq, Eq, Serialize, Deserialize)]
pub enum Hk {
    Sha256,
    Keccak,
}
impl Hk {
    fn tag(self) -> &'static str {
        match self {
            Hk::Sha256 => "sha256",
            Hk::Keccak => "keccak256",
        }
    }
}

fn hash(hk: Hk, parts: &[&[u8]]) -> H32 {
    match hk {
        Hk::Sha256 => {
            let mut h = sha2::Sha256::new();
            for p in parts {
                h.update(p);
            }
            h.finalize().into()
        }
        Hk::Keccak => {
            let mut h = sha3::Keccak256::new();
            for p in parts {
                h.update(p);
            }
            h.finalize().into()
        }
    }
}
fn h_pos(hk: Hk, l: &H32, r: &H32) -> H32 {
    hash(hk, &[l, r])
}
fn h_sorted(hk: Hk, a: &H32, b: &H32) -> H32 {
    if a <= b {
        h_pos(hk, a, b)
    } else {
        h_pos(hk, b, a)
    }
}

/// harness-side pseudo-random bytes: a pure function of (seed, tag, i)
fn derive(seed: u64, tag: &str, i: u32) -> H32 {
    hash(Hk::Sha256, &[b"verif-c17", &seed.to_le_bytes(), tag.as_bytes(), &i.to_le_bytes()])
}
fn derive_u64(seed: u64, tag: &str, i: u32) -> u64 {
    let d = derive(seed, tag, i);
    u64::from_le_bytes(d[..8].try_into().unwrap())
}

/// `n` distinct pseudo-random leaves; the first `prefix` bytes are common to all of them
/// (so that the sorted-pair comparison is decided late in the byte string).
fn gen_leaves(seed: u64, n: usize, prefix: usize) -> Vec<H32> {
    let prefix = prefix.min(30);
    let pre = derive(seed, "prefix", 0);
    let mut out: Vec<H32> = Vec::with_capacity(n);
    let mut ctr = 0u32;
    while out.len() < n {
        let mut l = derive(seed, "leaf", ctr);
        ctr += 1;
        l[..prefix].copy_from_slice(&pre[..prefix]);
        if !out.contains(&l) {
            out.push(l);
        }
    }
    out
}

#[derive(Clone, Copy, Debug, PartialEq, Eq, Serialize, Deserialize)]
pub enum Form {
    /// sorted-pair, an odd node is promoted unchanged to the next level
    SortedPromote,
    /// sorted-pair, OpenZeppelin merkle-tree (JS) complete-binary-tree array layout
    SortedHeap,
    /// positional, padded to 2^k with distinct fillers
    Positional,
}
impl Form {
    fn positional(self) -> bool {
        self == Form::Positional
    }
}

#[derive(Clone, Debug)]
struct Tree {
    hk: Hk,
    form: Form,
    root: H32,
    leaves: Vec<H32>,
    proofs: Vec<Vec<H32>>,
}

fn build_tree(form: Form, hk: Hk, leaves: &[H32], seed: u64) -> Tree {
    let n = leaves.len();
    assert!(n >= 1);
    let (root, proofs) = match form {
        Form::SortedPromote => {
            let mut levels: Vec<Vec<H32>> = vec![leaves.to_vec()];
            while levels.last().unwrap().len() > 1 {
                let cur = levels.last().unwrap();
                let mut next = Vec::with_capacity(cur.len().div_ceil(2));
                for c in cur.chunks(2) {
                    if c.len() == 2 {
                        next.push(h_sorted(hk, &c[0], &c[1]));
                    } else {
                        next.push(c[0]); // promoted unchanged
                    }
                }
                levels.push(next);
            }
            let root = levels.last().unwrap()[0];
            let proofs = (0..n)
                .map(|i| {
                    let mut pos = i;
                    let mut p = vec![];
                    for lvl in &levels[..levels.len() - 1] {
                        let sib = pos ^ 1;
                        if sib < lvl.len() {
                            p.push(lvl[sib]);
                        }
                        pos >>= 1;
                    }
                    p
                })
                .collect();
            (root, proofs)
        }
        Form::SortedHeap => {
            let len = 2 * n - 1;
            let mut t = vec![[0u8; 32]; len];
            for (i, l) in leaves.iter().enumerate() {
                t[len - 1 - i] = *l;
            }
            for i in (0..len - n).rev() {
                t[i] = h_sorted(hk, &t[2 * i + 1], &t[2 * i + 2]);
            }
            let proofs = (0..n)
                .map(|i| {
                    let mut pos = len - 1 - i;
                    let mut p = vec![];
                    while pos > 0 {
                        let sib = if pos % 2 == 1 { pos + 1 } else { pos - 1 };
                        p.push(t[sib]);
                        pos = (pos - 1) / 2;
                    }
                    p
                })
                .collect();
            (t[0], proofs)
        }
        Form::Positional => {
            let size = n.next_power_of_two();
            let mut level: Vec<H32> = leaves.to_vec();
            let mut ctr = 0u32;
            while level.len() < size {
                let f = derive(seed, "filler", ctr);
                ctr += 1;
                if !level.contains(&f) {
                    level.push(f);
                }
            }
            let mut levels = vec![level];
            while levels.last().unwrap().len() > 1 {
                let cur = levels.last().unwrap();
                let next: Vec<H32> = cur.chunks(2).map(|c| h_pos(hk, &c[0], &c[1])).collect();
                levels.push(next);
            }
            let root = levels.last().unwrap()[0];
            let proofs = (0..n)
                .map(|i| {
                    let mut pos = i;
                    let mut p = vec![];
                    for lvl in &levels[..levels.len() - 1] {
                        p.push(lvl[pos ^ 1]);
                        pos >>= 1;
                    }
                    p
                })
                .collect();
            (root, proofs)
        }
    };
    Tree { hk, form, root, leaves: leaves.to_vec(), proofs }
}

/// One verifier input.  `index` is only meaningful for the positional form.
#[derive(Clone, Debug, PartialEq, Eq)]
struct Input {
    proof: Vec<H32>,
    root: H32,
    leaf: H32,
    index: u32,
}

/// Reference fold written from the documentation of `verify` / `verify_with_index`.
/// `None` = the documented error cases of `verify_with_index` (proof length >= 32, index out of
/// bounds for the proof length).
fn ref_verify(hk: Hk, positional: bool, inp: &Input) -> Option<bool> {
    let mut cur = inp.leaf;
    if positional {
        let len = inp.proof.len();
        if len >= 32 || (inp.index as u64) >= (1u64 << len) {
            return None;
        }
        let mut idx = inp.index;
        for p in &inp.proof {
            cur = if idx & 1 == 0 { h_pos(hk, &cur, p) } else { h_pos(hk, p, &cur) };
            idx >>= 1;
        }
    } else {
        for p in &inp.proof {
            cur = h_sorted(hk, &cur, p);
        }
    }
    Some(cur == inp.root)
}

fn honest(t: &Tree, i: usize) -> Input {
    Input { proof: t.proofs[i].clone(), root: t.root, leaf: t.leaves[i], index: i as u32 }
}

// =============================================================== corruptions

#[derive(Clone, Copy, Debug, PartialEq, Eq, Serialize, Deserialize)]
pub enum Kind {
    LeafBit,
    NonMember,
    ProofBit,
    Swap,
    DropFirst,
    DropLast,
    DropMid,
    Append,
    /// extend the proof to 31 / 32 / 33 / 40 elements (the positional verifier documents a bound of 32 levels)
    AppendMany,
    Insert,
    RootBit,
    OtherRoot,
    ProofOf,
    IdxPlus1,
    IdxMinus1,
    IdxFlip,
    IdxHigh,
    IdxOther,
}
impl Kind {
    fn name(self) -> &'static str {
        match self {
            Kind::LeafBit => "leaf-bit-flip",
            Kind::NonMember => "non-member",
            Kind::ProofBit => "proof-bit-flip",
            Kind::Swap => "proof-swap",
            Kind::DropFirst => "proof-drop-first",
            Kind::DropLast => "proof-drop-last",
            Kind::DropMid => "proof-drop-middle",
            Kind::Append => "proof-append",
            Kind::AppendMany => "proof-append-many",
            Kind::Insert => "proof-insert",
            Kind::RootBit => "root-bit-flip",
            Kind::OtherRoot => "other-root",
            Kind::ProofOf => "other-leafs-proof",
            Kind::IdxPlus1 => "index-plus-1",
            Kind::IdxMinus1 => "index-minus-1",
            Kind::IdxFlip => "index-bit-flip",
            Kind::IdxHigh => "index-high-bits",
            Kind::IdxOther => "index-of-other-leaf",
        }
    }
    fn is_index(self) -> bool {
        matches!(self, Kind::IdxPlus1 | Kind::IdxMinus1 | Kind::IdxFlip | Kind::IdxHigh | Kind::IdxOther)
    }
    fn is_proof_only(self) -> bool {
        matches!(self, Kind::ProofBit | Kind::Swap | Kind::DropFirst | Kind::DropLast | Kind::DropMid | Kind::Append | Kind::AppendMany | Kind::Insert)
    }
}
const COMMON_KINDS: [Kind; 13] = [
    Kind::LeafBit,
    Kind::NonMember,
    Kind::ProofBit,
    Kind::Swap,
    Kind::DropFirst,
    Kind::DropLast,
    Kind::DropMid,
    Kind::Append,
    Kind::AppendMany,
    Kind::Insert,
    Kind::RootBit,
    Kind::OtherRoot,
    Kind::ProofOf,
];
const INDEX_KINDS: [Kind; 5] = [Kind::IdxPlus1, Kind::IdxMinus1, Kind::IdxFlip, Kind::IdxHigh, Kind::IdxOther];
const PROOF_KINDS: [Kind; 8] = [Kind::ProofBit, Kind::Swap, Kind::DropFirst, Kind::DropLast, Kind::DropMid, Kind::Append, Kind::AppendMany, Kind::Insert];

/// A corruption: kind + raw parameters resolved against the tree at run time.
#[derive(Clone, Debug, Serialize, Deserialize)]
pub struct Probe {
    pub kind: Kind,
    /// selector of the attacked leaf
    pub leaf: u16,
    pub a: u16,
    pub b: u16,
    pub r: u64,
}

fn flip_bit(x: &mut H32, bit: usize) {
    x[bit / 8] ^= 1 << (bit % 8);
}

/// The proof-level corruptions (shared by the verifier probes and the distributor histories).
/// `None`: not applicable to this proof (too short …).
fn corrupt_proof(kind: Kind, proof: &[H32], root: &H32, leaf: &H32, a: u16, b: u16, r: u64) -> Option<Vec<H32>> {
    let len = proof.len();
    let mut p = proof.to_vec();
    let extra = |p: &Vec<H32>| -> H32 {
        match pick(b, 4) {
            1 if !p.is_empty() => p[pick(a, p.len())],
            2 => *root,
            3 => *leaf,
            _ => derive(r, "extra", 0),
        }
    };
    match kind {
        Kind::ProofBit => {
            if len == 0 {
                return None;
            }
            flip_bit(&mut p[pick(a, len)], pick(b, 256));
        }
        Kind::Swap => {
            if len < 2 {
                return None;
            }
            let i = pick(a, len);
            let mut j = pick(b, len - 1);
            if j >= i {
                j += 1;
            }
            p.swap(i, j);
        }
        Kind::DropFirst => {
            if len == 0 {
                return None;
            }
            p.remove(0);
        }
        Kind::DropLast => {
            if len == 0 {
                return None;
            }
            p.pop();
        }
        Kind::DropMid => {
            if len < 3 {
                return None;
            }
            p.remove(1 + pick(a, len - 2));
        }
        Kind::Append => {
            let x = extra(&p);
            p.push(x);
        }
        Kind::AppendMany => {
            let target = [31usize, 32, 33, 40][pick(a, 4)];
            let mut k = 0u32;
            while p.len() < target {
                let x = if k == 0 { extra(&p) } else { derive(r, "extra-many", k) };
                p.push(x);
                k += 1;
            }
        }
        Kind::Insert => {
            let x = extra(&p);
            p.insert(pick(r as u16, len + 1), x);
        }
        _ => return None,
    }
    Some(p)
}

/// Build the corrupted input for a probe; `None` = not applicable.
fn corrupt(t: &Tree, alt_roots: &[H32], pr: &Probe) -> Option<(usize, Input)> {
    let n = t.leaves.len();
    let i = pick(pr.leaf, n);
    let mut inp = honest(t, i);
    let len = inp.proof.len();
    match pr.kind {
        k if k.is_proof_only() => {
            inp.proof = corrupt_proof(k, &inp.proof, &inp.root, &inp.leaf, pr.a, pr.b, pr.r)?;
        }
        Kind::LeafBit => flip_bit(&mut inp.leaf, pick(pr.a, 256)),
        Kind::NonMember => {
            let x = derive(pr.r, "nonmember", 0);
            if t.leaves.contains(&x) {
                return None;
            }
            inp.leaf = x;
        }
        Kind::RootBit => flip_bit(&mut inp.root, pick(pr.a, 256)),
        Kind::OtherRoot => {
            let k = alt_roots.len() + 3;
            inp.root = match pick(pr.a, k) {
                x if x < alt_roots.len() => alt_roots[x],
                x if x == alt_roots.len() => [0u8; 32],
                x if x == alt_roots.len() + 1 => inp.leaf,
                _ => derive(pr.r, "root", 0),
            };
        }
        Kind::ProofOf => {
            if n < 2 {
                return None;
            }
            let mut j = pick(pr.a, n - 1);
            if j >= i {
                j += 1;
            }
            inp.proof = t.proofs[j].clone();
        }
        Kind::IdxPlus1 => inp.index += 1,
        Kind::IdxMinus1 => {
            if inp.index == 0 {
                return None;
            }
            inp.index -= 1;
        }
        Kind::IdxFlip => {
            if len == 0 {
                return None;
            }
            inp.index ^= 1 << pick(pr.a, len);
        }
        Kind::IdxHigh => {
            // len < 32 always here (n <= 300)
            let hi_bits = 32 - len;
            inp.index = match pick(pr.b, 4) {
                0 => inp.index | (1u32 << (len + pick(pr.a, hi_bits))),
                1 => inp.index | (1u32 << len), // exactly index + 2^len
                2 => u32::MAX,
                _ => {
                    let hi = ((pr.r as u32) | 1) as u64; // non-zero
                    (inp.index as u64 | ((hi << len) & 0xffff_ffff)) as u32 | (1u32 << (len + pick(pr.a, hi_bits)))
                }
            };
        }
        Kind::IdxOther => {
            if n < 2 {
                return None;
            }
            let mut j = pick(pr.a, n - 1);
            if j >= i {
                j += 1;
            }
            inp.index = j as u32;
        }
        _ => return None,
    }
    Some((i, inp))
}

// =============================================================== soroban glue

fn b32(e: &Env, x: &H32) -> BytesN<32> {
    BytesN::from_array(e, x)
}
fn bvec(e: &Env, xs: &[H32]) -> soroban_sdk::Vec<BytesN<32>> {
    let mut v = soroban_sdk::Vec::new(e);
    for x in xs {
        v.push_back(b32(e, x));
    }
    v
}

fn lib_fn(hk: Hk, positional: bool) -> &'static str {
    match (hk, positional) {
        (Hk::Sha256, false) => "verify_sha",
        (Hk::Keccak, false) => "verify_kec",
        (Hk::Sha256, true) => "verify_idx_sha",
        (Hk::Keccak, true) => "verify_idx_kec",
    }
}
fn entry_name(positional: bool) -> &'static str {
    if positional {
        "verify_with_index"
    } else {
        "verify"
    }
}

fn call_verify(e: &Env, lib: &Address, hk: Hk, positional: bool, inp: &Input) -> Result<bool, String> {
    if positional {
        envx::call_t::<bool>(e, lib, lib_fn(hk, true), args![e; bvec(e, &inp.proof), b32(e, &inp.root), b32(e, &inp.leaf), inp.index])
    } else {
        envx::call_t::<bool>(e, lib, lib_fn(hk, false), args![e; bvec(e, &inp.proof), b32(e, &inp.root), b32(e, &inp.leaf)])
    }
}

fn hx(x: &H32) -> String {
    hex::encode(&x[..6])
}
fn describe(inp: &Input) -> String {
    format!(
        "leaf {}.. index {} root {}.. proof[{}] [{}]",
        hx(&inp.leaf),
        inp.index,
        hx(&inp.root),
        inp.proof.len(),
        inp.proof.iter().map(hx).collect::<Vec<_>>().join(",")
    )
}

// =============================================================== verifier sub-checks

#[derive(Clone, Debug, Serialize, Deserialize)]
pub struct VCase {
    pub form: Form,
    pub n: u16,
    pub seed: u64,
    /// number of leading bytes common to all leaves (0..=30)
    pub prefix: u8,
    pub probes: Vec<Probe>,
}

#[derive(Default)]
struct Tally {
    accepted: u64,
    rejected: u64,
}

/// honest probe: must be accepted
fn check_honest(e: &Env, lib: &Address, t: &Tree, i: usize, ctx: &mut Ctx, tally: &mut Tally) -> R {
    let pos = t.form.positional();
    let inp = honest(t, i);
    if ref_verify(t.hk, pos, &inp) != Some(true) {
        bail!("C17/harness-internal/builder-inconsistent", "reference fold rejects the builder's own proof: {}", describe(&inp));
    }
    let r = call_verify(e, lib, t.hk, pos, &inp);
    ctx.op(matches!(r, Ok(true)));
    ensure!(
        matches!(r, Ok(true)),
        format!("C17/{}/honest-proof-rejected/{}", entry_name(pos), t.hk.tag()),
        "n={} leaf #{i}, {:?} tree, honest proof gave {:?}: {}",
        t.leaves.len(),
        t.form,
        r,
        describe(&inp)
    );
    tally.accepted += 1;
    Ok(())
}

/// corrupted probe: must be rejected (false or failure)
fn check_corrupted(e: &Env, lib: &Address, t: &Tree, i: usize, kind: &str, inp: &Input, ctx: &mut Ctx, tally: &mut Tally) -> R {
    let pos = t.form.positional();
    if *inp == honest(t, i) {
        ctx.class("discarded_identical");
        return Ok(());
    }
    let rv = ref_verify(t.hk, pos, inp);
    if rv == Some(true) {
        // not a corruption for the scheme (would need a hash collision, or the mutated value is
        // not folded) — never demanded to be rejected
        ctx.class("discarded_not_a_corruption");
        return Ok(());
    }
    let r = call_verify(e, lib, t.hk, pos, inp);
    ctx.op(matches!(r, Ok(true)));
    ensure!(
        !matches!(r, Ok(true)),
        format!("C17/{}/corruption-accepted/{}", entry_name(pos), kind),
        "n={} leaf #{i}, {:?} {} tree: corrupted input accepted. honest: {} | corrupted: {}",
        t.leaves.len(),
        t.form,
        t.hk.tag(),
        describe(&honest(t, i)),
        describe(inp)
    );
    tally.rejected += 1;
    ctx.class(&format!("rejected:{kind}"));
    match (&r, rv) {
        (Err(_), None) => ctx.class("out_of_bounds_failed"),
        (Ok(false), None) => ctx.class("out_of_bounds_returned_false"),
        (Err(_), Some(false)) => ctx.class("rejected_by_failure_where_false_expected"),
        _ => {}
    }
    Ok(())
}

fn honest_sample(n: usize) -> Vec<usize> {
    if n <= 64 {
        (0..n).collect()
    } else {
        // generous sample: 64 evenly spaced leaves incl. first and last
        let mut s: BTreeSet<usize> = (0..64).map(|k| k * (n - 1) / 63).collect();
        s.insert(n - 1);
        s.into_iter().collect()
    }
}

fn alt_roots_for(t: &Tree, seed: u64) -> Vec<H32> {
    let n = t.leaves.len();
    let other_hk = if t.hk == Hk::Sha256 { Hk::Keccak } else { Hk::Sha256 };
    let other_form = match t.form {
        Form::Positional => Form::SortedPromote,
        Form::SortedPromote => Form::SortedHeap,
        Form::SortedHeap => Form::Positional,
    };
    let other_leaves = gen_leaves(seed ^ 0x9e37_79b9_7f4a_7c15, n, 0);
    let mut shuffled = t.leaves.clone();
    shuffled.rotate_left(1);
    vec![
        build_tree(t.form, other_hk, &t.leaves, seed).root,
        build_tree(t.form, t.hk, &other_leaves, seed).root,
        build_tree(other_form, t.hk, &t.leaves, seed).root,
        build_tree(t.form, t.hk, &shuffled, seed).root,
    ]
}

pub fn run_verify(case: &VCase, ctx: &mut Ctx) -> R {
    let n = (case.n.max(1)) as usize;
    let leaves = gen_leaves(case.seed, n, case.prefix as usize);
    let mut both = true;
    for hk in [Hk::Sha256, Hk::Keccak] {
        let t = build_tree(case.form, hk, &leaves, case.seed);
        let alts = alt_roots_for(&t, case.seed);
        let e = envx::new_env(100, envx::BIG_TTL);
        let lib = e.register(crate::contracts::c17::merkle_lib::MerkleLib, ());
        let mut tally = Tally::default();
        for i in honest_sample(n) {
            check_honest(&e, &lib, &t, i, ctx, &mut tally)?;
        }
        for pr in &case.probes {
            if pr.kind.is_index() && !case.form.positional() {
                continue;
            }
            match corrupt(&t, &alts, pr) {
                None => ctx.class("inapplicable"),
                Some((i, inp)) => {
                    // the attacked leaf's honest proof is always among the accepted probes
                    if n > 64 {
                        check_honest(&e, &lib, &t, i, ctx, &mut tally)?;
                    }
                    check_corrupted(&e, &lib, &t, i, pr.kind.name(), &inp, ctx, &mut tally)?;
                }
            }
        }
        both &= tally.accepted >= 1 && tally.rejected >= 5;
        ctx.class_n("trees", 1);
    }
    if n >= 3 && !n.is_power_of_two() {
        ctx.class("unbalanced_tree");
        if both {
            ctx.nontrivial = true;
            ctx.class("nontrivial");
        }
    }
    if n == 1 {
        ctx.class("single_leaf_tree");
    }
    Ok(())
}

fn n_strategy(tier: Tier) -> BoxedStrategy<u16> {
    match tier {
        Tier::Quick => prop_oneof![
            6 => 1u16..=40,
            2 => proptest::sample::select(vec![1u16, 2, 3, 4, 5, 6, 7, 8, 9, 15, 16, 17, 31, 32, 33]),
        ]
        .boxed(),
        Tier::Thorough => prop_oneof![
            4 => 1u16..=40,
            4 => 1u16..=300,
            2 => proptest::sample::select(vec![1u16, 2, 3, 5, 7, 9, 17, 33, 63, 64, 65, 127, 128, 129, 255, 256, 257, 300]),
        ]
        .boxed(),
    }
}

fn probe_of(kind: BoxedStrategy<Kind>) -> BoxedStrategy<Probe> {
    (kind, any::<u16>(), any::<u16>(), any::<u16>(), any::<u64>()).prop_map(|(kind, leaf, a, b, r)| Probe { kind, leaf, a, b, r }).boxed()
}

fn vcase_strategy(forms: Vec<Form>, tier: Tier) -> BoxedStrategy<VCase> {
    let positional = forms.contains(&Form::Positional);
    let mut kinds: Vec<Kind> = COMMON_KINDS.to_vec();
    if positional {
        kinds.extend(INDEX_KINDS);
    }
    // one probe of every kind per tree …
    let fixed: Vec<BoxedStrategy<Probe>> = kinds.iter().map(|k| probe_of(Just(*k).boxed())).collect();
    // … plus extras (index kinds weighted up for the positional form)
    let mut extra_kinds = kinds.clone();
    if positional {
        extra_kinds.extend(INDEX_KINDS);
        extra_kinds.extend(INDEX_KINDS);
    }
    let extras = proptest::collection::vec(probe_of(proptest::sample::select(extra_kinds).boxed()), 0..tier.pick(12usize, 24usize));
    let prefix = prop_oneof![5 => Just(0u8), 2 => 1u8..=30, 1 => Just(30u8)];
    (proptest::sample::select(forms), n_strategy(tier), any::<u64>(), prefix, fixed, extras)
        .prop_map(|(form, n, seed, prefix, mut fixed, extras)| {
            fixed.extend(extras);
            VCase { form, n, seed, prefix, probes: fixed }
        })
        .boxed()
}
fn sorted_strategy(tier: Tier) -> BoxedStrategy<VCase> {
    vcase_strategy(vec![Form::SortedPromote, Form::SortedPromote, Form::SortedHeap], tier)
}
fn indexed_strategy(tier: Tier) -> BoxedStrategy<VCase> {
    vcase_strategy(vec![Form::Positional], tier)
}

// --------------------------------------------------------------- exhaustive small trees

fn exhaustive_slabs(tier: Tier) -> u64 {
    tier.pick(17, 40)
}

fn run_exhaustive(_tier: Tier, slab: u64, ctx: &mut Ctx, out: &mut FixedOut) -> R {
    let n = slab as usize + 1;
    let seed = 0xC17_0000 + slab;
    let leaves = gen_leaves(seed, n, if n % 3 == 0 { 29 } else { 0 });
    let mut tally = Tally::default();
    for form in [Form::SortedPromote, Form::SortedHeap, Form::Positional] {
        for hk in [Hk::Sha256, Hk::Keccak] {
            let t = build_tree(form, hk, &leaves, seed);
            let e = envx::new_env(100, envx::BIG_TTL);
            let lib = e.register(crate::contracts::c17::merkle_lib::MerkleLib, ());
            out.failing = Some(json!({"n": n, "form": format!("{form:?}"), "hasher": hk.tag()}));
            for i in 0..n {
                check_honest(&e, &lib, &t, i, ctx, &mut tally)?;
                let h = honest(&t, i);
                let len = h.proof.len();
                // every drop position
                for d in 0..len {
                    let mut inp = h.clone();
                    inp.proof.remove(d);
                    check_corrupted(&e, &lib, &t, i, "proof-drop-each", &inp, ctx, &mut tally)?;
                }
                // every swap pair
                for a in 0..len {
                    for b in a + 1..len {
                        let mut inp = h.clone();
                        inp.proof.swap(a, b);
                        check_corrupted(&e, &lib, &t, i, "proof-swap-each", &inp, ctx, &mut tally)?;
                    }
                }
                // every other member's leaf with this proof
                for j in 0..n {
                    if j != i {
                        let mut inp = h.clone();
                        inp.leaf = t.leaves[j];
                        check_corrupted(&e, &lib, &t, i, "other-member-leaf", &inp, ctx, &mut tally)?;
                    }
                }
                if form.positional() {
                    // every index value 0..=2^len (2^len itself is out of bounds)
                    for idx in 0..=(1u32 << len) {
                        if idx != h.index {
                            let mut inp = h.clone();
                            inp.index = idx;
                            check_corrupted(&e, &lib, &t, i, "index-each", &inp, ctx, &mut tally)?;
                        }
                    }
                    // index + k*2^len for every k that fits a few high bits
                    for bit in len..32 {
                        let mut inp = h.clone();
                        inp.index |= 1u32 << bit;
                        check_corrupted(&e, &lib, &t, i, "index-high-bits", &inp, ctx, &mut tally)?;
                    }
                }
            }
            ctx.class_n("trees", 1);
        }
    }
    out.failing = None;
    out.evaluations += 1;
    if n >= 3 && !n.is_power_of_two() && tally.accepted >= 1 && tally.rejected >= 5 {
        out.nontrivial.push(hash_str(&format!("c17-exhaustive-{n}")));
        ctx.class("nontrivial");
    }
    if out.samples.is_empty() && n == 5 {
        out.samples.push(json!({"exhaustive_n": n, "accepted": tally.accepted, "rejected": tally.rejected}));
    }
    Ok(())
}

// =============================================================== claim histories

#[derive(Clone, Copy, Debug, PartialEq, Eq, Serialize, Deserialize)]
pub enum Target {
    /// harness distributor: hasher and claim function
    Distrib { keccak: bool, indexed: bool },
    /// examples/fungible-merkle-airdrop
    Airdrop,
    /// examples/merkle-voting
    Voting,
}

#[derive(Clone, Debug, Serialize, Deserialize)]
pub enum Who {
    Any(u16),
    /// a position whose index is already claimed (falls back to Any)
    Claimed(u16),
    /// a position whose index is not yet claimed (falls back to Any)
    Unclaimed(u16),
}

#[derive(Clone, Debug, Serialize, Deserialize)]
pub enum DataVar {
    Honest,
    /// amount + d (d != 0)
    AmountPlus(i8),
    /// another account as the receiver / voter
    OtherAddress(u16),
    /// the index field of another position of the same tree
    IndexOf(u16),
    /// index + d
    IndexPlus(i8),
}

#[derive(Clone, Debug, Serialize, Deserialize)]
pub enum ProofVar {
    Honest,
    /// honest proof of another position of the same tree
    OfLeaf(u16),
    /// honest proof of the same position in the OTHER tree
    OtherTree,
    Corrupt { kind: Kind, a: u16, b: u16, r: u64 },
    Empty,
}

#[derive(Clone, Debug, Serialize, Deserialize)]
pub enum RootSel {
    Tree(u8),
    Random(u64),
}

#[derive(Clone, Debug, Serialize, Deserialize)]
pub enum HOp {
    /// claim with leaf data and proof taken from tree `tree` (0 = A, 1 = B), then varied
    Claim { tree: u8, who: Who, data: DataVar, proof: ProofVar, approve: bool },
    SetRoot(RootSel),
    Advance(u32),
}

#[derive(Clone, Debug, Serialize, Deserialize)]
pub struct HCase {
    pub target: Target,
    pub n: u8,
    pub n2: u8,
    pub seed: u64,
    /// sorted form only: indices are scattered unique values instead of 0..n
    pub scattered: bool,
    /// bit (p % 16): tree B's leaf at position p is byte-identical to tree A's
    pub same_data: u16,
    /// distributor only: root A is set before the history starts
    pub init_root: bool,
    /// airdrop only: funding = total allocation * min(fund,4) / 4
    pub fund: u8,
    pub ops: Vec<HOp>,
}

#[derive(Clone, Debug, PartialEq, Eq)]
struct LeafData {
    index: u32,
    who: usize,
    amount: i128,
}

struct DTree {
    data: Vec<LeafData>,
    tree: Tree,
}

fn sym(s: &str) -> ScVal {
    ScVal::Symbol(ScSymbol(s.try_into().expect("symbol")))
}
fn sc_i128(x: i128) -> ScVal {
    ScVal::I128(Int128Parts { hi: (x >> 64) as i64, lo: x as u64 })
}
/// XDR of a `#[contracttype]` struct: an ScVal map keyed by the field names, keys sorted.
fn struct_xdr(fields: Vec<(&str, ScVal)>) -> Vec<u8> {
    let mut f = fields;
    f.sort_by(|x, y| x.0.as_bytes().cmp(y.0.as_bytes()));
    let ents: Vec<ScMapEntry> = f.into_iter().map(|(k, v)| ScMapEntry { key: sym(k), val: v }).collect();
    ScVal::Map(Some(ScMap(ents.try_into().expect("map")))).to_xdr(Limits::none()).expect("xdr")
}
fn leaf_preimage(target: Target, d: &LeafData, accts: &[Address]) -> Vec<u8> {
    let addr = ScVal::Address(ScAddress::try_from(&accts[d.who]).expect("addr"));
    match target {
        Target::Voting => struct_xdr(vec![("index", ScVal::U32(d.index)), ("account", addr), ("voting_power", sc_i128(d.amount))]),
        _ => struct_xdr(vec![("index", ScVal::U32(d.index)), ("address", addr), ("amount", sc_i128(d.amount))]),
    }
}

fn target_hk(t: Target) -> Hk {
    match t {
        Target::Distrib { keccak: true, .. } => Hk::Keccak,
        _ => Hk::Sha256,
    }
}
fn target_positional(t: Target) -> bool {
    matches!(t, Target::Distrib { indexed: true, .. })
}
fn target_entry(t: Target) -> &'static str {
    match t {
        Target::Distrib { indexed: false, .. } => "verify_and_set_claimed",
        Target::Distrib { indexed: true, .. } => "verify_with_index_and_set_claimed",
        Target::Airdrop => "airdrop.claim",
        Target::Voting => "voting.vote",
    }
}

struct World {
    e: Env,
    target: Target,
    addr: Address,
    token: Option<Address>,
    accts: Vec<Address>,
}

impl World {
    fn claim(&self, d: &LeafData, proof: &[H32], approve: bool) -> Result<(), String> {
        let e = &self.e;
        let who = self.accts[d.who].clone();
        let pv = bvec(e, proof);
        let r = match self.target {
            Target::Distrib { indexed, .. } => {
                let leaf = crate::contracts::c17::leaf::Leaf { index: d.index, address: who, amount: d.amount };
                envx::call(e, &self.addr, if indexed { "claim_indexed" } else { "claim_sorted" }, args![e; leaf, pv])
            }
            Target::Airdrop => envx::call(e, &self.addr, "claim", args![e; d.index, who, d.amount, pv]),
            Target::Voting => {
                let vd = crate::examples::merkle_voting::contract::VoteData { index: d.index, account: who, voting_power: d.amount };
                envx::call(e, &self.addr, "vote", args![e; vd, pv, approve])
            }
        };
        r.map(|_| ())
    }
    /// public entry point
    fn api_is_claimed(&self, i: u32) -> Result<bool, String> {
        let f = if self.target == Target::Voting { "has_voted" } else { "is_claimed" };
        envx::call_t::<bool>(&self.e, &self.addr, f, args![&self.e; i])
    }
    /// bulk read of the claimed flags (distributor: `dump` entry point; examples: the library's
    /// public getter inside the contract's context)
    fn flags(&self, idx: &[u32]) -> Result<Vec<bool>, String> {
        let e = &self.e;
        match self.target {
            Target::Distrib { .. } => {
                let mut v = soroban_sdk::Vec::<u32>::new(e);
                for i in idx {
                    v.push_back(*i);
                }
                let r = envx::call_t::<soroban_sdk::Vec<bool>>(e, &self.addr, "dump", args![e; v])?;
                Ok(r.iter().collect())
            }
            _ => Ok(e.as_contract(&self.addr, || {
                idx.iter()
                    .map(|i| {
                        stellar_contract_utils::merkle_distributor::MerkleDistributor::<stellar_contract_utils::crypto::sha256::Sha256>::is_claimed(e, *i)
                    })
                    .collect()
            })),
        }
    }
    fn balances(&self) -> Vec<i128> {
        let e = &self.e;
        let tok = self.token.as_ref().expect("token");
        let mut hs = self.accts.clone();
        hs.push(self.addr.clone());
        e.as_contract(tok, || hs.iter().map(|a| stellar_tokens::fungible::Base::balance(e, a)).collect())
    }
    fn api_balance(&self, a: &Address) -> Result<i128, String> {
        envx::call_t::<i128>(&self.e, self.token.as_ref().expect("token"), "balance", args![&self.e; a.clone()])
    }
}

fn build_dtree(case: &HCase, which: u8, accts: &[Address], a: Option<&DTree>) -> DTree {
    let target = case.target;
    let hk = target_hk(target);
    let positional = target_positional(target);
    let seed = case.seed ^ ((which as u64) << 60);
    let n = if which == 0 { case.n } else { case.n2 }.max(1) as usize;
    let scattered = case.scattered && !positional;
    let mut used: BTreeSet<u32> = BTreeSet::new();
    let mut data: Vec<LeafData> = vec![];
    for p in 0..n {
        // tree B shares indices (and, per `same_data`, whole leaves) with tree A
        let from_a = a.and_then(|a| a.data.get(p));
        let mut index = match from_a {
            Some(l) => l.index,
            None => {
                if scattered {
                    if p == n - 1 && case.seed & 1 == 1 {
                        u32::MAX
                    } else {
                        ((derive_u64(seed, "idx", p as u32) % 1000) as u32) * 64 + p as u32
                    }
                } else {
                    p as u32
                }
            }
        };
        while used.contains(&index) {
            index = index.wrapping_add(64);
        }
        used.insert(index);
        let same = from_a.is_some() && (case.same_data >> (p % 16)) & 1 == 1;
        let l = if same {
            from_a.unwrap().clone()
        } else {
            // amounts 1..=1000, occasionally 0
            let amount = if derive_u64(seed, "zero", p as u32) % 16 == 0 { 0 } else { (derive_u64(seed, "amt", p as u32) % 1000) as i128 + 1 };
            LeafData { index, who: (derive_u64(seed, "who", p as u32) % accts.len() as u64) as usize, amount }
        };
        data.push(l);
    }
    // leaf hashes must be distinct (they are: indices are unique)
    let leaves: Vec<H32> = data.iter().map(|d| hash(hk, &[&leaf_preimage(target, d, accts)])).collect();
    let form = if positional {
        Form::Positional
    } else if case.seed & 2 == 2 {
        Form::SortedHeap
    } else {
        Form::SortedPromote
    };
    DTree { data, tree: build_tree(form, hk, &leaves, seed) }
}

pub fn run_history(case: &HCase, ctx: &mut Ctx) -> R {
    let target = case.target;
    let hk = target_hk(target);
    let positional = target_positional(target);
    let entry = target_entry(target);
    let e = envx::new_env(1000, envx::BIG_TTL);
    let n_acct = (case.n.max(1) as usize).min(4) + 1;
    let accts: Vec<Address> = envx::actors(&e, n_acct);

    let ta = build_dtree(case, 0, &accts, None);
    let tb = build_dtree(case, 1, &accts, Some(&ta));
    let trees = [ta, tb];

    // ---- set-up
    let total: i128 = trees[0].data.iter().map(|d| d.amount).sum();
    let funding: i128 = total * (case.fund.min(4) as i128) / 4;
    let mut current_root: Option<H32> = None;
    let w = match target {
        Target::Distrib { keccak, .. } => {
            let addr = if keccak {
                e.register(crate::contracts::c17::distrib_kec::DistribKec, ())
            } else {
                e.register(crate::contracts::c17::distrib_sha::DistribSha, ())
            };
            World { e: e.clone(), target, addr, token: None, accts: accts.clone() }
        }
        Target::Airdrop => {
            let admin = envx::actor(&e);
            let source = envx::actor(&e);
            e.mock_all_auths_allowing_non_root_auth();
            let token = e.register(crate::contracts::ft::ft_base::FtBase, (admin.clone(),));
            let r = envx::call(&e, &token, "mint", args![&e; source.clone(), funding]);
            ensure!(r.is_ok(), "C17/harness-internal/setup-mint", "token mint failed: {:?}", r);
            let addr = e.register(
                crate::examples::fungible_merkle_airdrop::contract::AirdropContract,
                (b32(&e, &trees[0].tree.root), token.clone(), funding, source.clone()),
            );
            envx::no_auth(&e);
            current_root = Some(trees[0].tree.root);
            World { e: e.clone(), target, addr, token: Some(token), accts: accts.clone() }
        }
        Target::Voting => {
            let addr = e.register(crate::examples::merkle_voting::contract::MerkleVoting, (b32(&e, &trees[0].tree.root),));
            current_root = Some(trees[0].tree.root);
            World { e: e.clone(), target, addr, token: None, accts: accts.clone() }
        }
    };
    envx::no_auth(&e);
    let is_distrib = matches!(target, Target::Distrib { .. });
    if is_distrib && case.init_root {
        let r = envx::call(&e, &w.addr, "set_root", args![&e; b32(&e, &trees[0].tree.root)]);
        ensure!(r.is_ok(), "C17/set_root/failed", "initial set_root failed: {:?}", r);
        current_root = Some(trees[0].tree.root);
    }

    // ---- model
    let mut universe: BTreeSet<u32> = [0u32, 1, u32::MAX].into_iter().collect();
    for t in &trees {
        for d in &t.data {
            universe.insert(d.index);
            universe.insert(d.index.wrapping_add(1));
        }
    }
    let mut claimed: BTreeSet<u32> = BTreeSet::new();
    let mut bal: Vec<i128> = if target == Target::Airdrop { w.balances() } else { vec![] };
    if target == Target::Airdrop {
        let mut want = vec![0i128; accts.len()];
        want.push(funding);
        ensure!(bal == want, "C17/harness-internal/setup-balances", "unexpected initial balances {:?} vs {:?}", bal, want);
    }
    let mut tally: (i128, i128) = (0, 0);

    let mut n_ok = 0u32;
    let mut n_repeat_refused = 0u32;
    let mut n_invalid_refused = 0u32;

    // full state comparison
    let check_state = |w: &World, universe: &BTreeSet<u32>, claimed: &BTreeSet<u32>, current_root: &Option<H32>, bal: &Vec<i128>, tally: &(i128, i128), after: &str, failed_call: bool| -> R {
        let idx: Vec<u32> = universe.iter().copied().collect();
        let flags = w.flags(&idx).map_err(|er| violation("C17/is_claimed/read-failed", er))?;
        for (i, f) in idx.iter().zip(flags.iter()) {
            let want = claimed.contains(i);
            if *f != want {
                let sig = if failed_call {
                    format!("C17/{entry}/failed-claim-changed-flag")
                } else if want {
                    "C17/is_claimed/claimed-flag-lost".to_string()
                } else {
                    "C17/is_claimed/flag-set-without-valid-claim".to_string()
                };
                return Err(violation(sig, format!("after {after}: is_claimed({i}) = {f}, model says {want}")));
            }
        }
        if matches!(w.target, Target::Distrib { .. }) {
            let r = envx::call_t::<BytesN<32>>(&w.e, &w.addr, "get_root", args![&w.e]);
            match (current_root, r) {
                (Some(root), Ok(got)) => {
                    ensure!(got.to_array() == *root, "C17/get_root/wrong-root", "after {after}: get_root {} != last set root {}", hex::encode(got.to_array()), hex::encode(root))
                }
                (Some(_), Err(er)) => bail!("C17/get_root/failed", "after {after}: get_root failed although a root is set: {er}"),
                (None, Ok(got)) => bail!("C17/get_root/unset-root-returned", "after {after}: get_root returned {} before any set_root", hex::encode(got.to_array())),
                (None, Err(_)) => {}
            }
        }
        if w.target == Target::Airdrop {
            let got = w.balances();
            ensure!(
                got == *bal,
                if failed_call { "C17/airdrop.claim/failed-claim-moved-tokens" } else { "C17/airdrop.claim/payout-mismatch" },
                "after {after}: token balances (accounts.., airdrop contract) {:?}, model {:?}",
                got,
                bal
            );
        }
        if w.target == Target::Voting {
            let r = envx::call_t::<(i128, i128)>(&w.e, &w.addr, "get_vote_results", args![&w.e]);
            match r {
                Ok(got) => ensure!(
                    got == *tally,
                    if failed_call { "C17/voting.vote/failed-vote-counted" } else { "C17/voting.vote/tally-mismatch" },
                    "after {after}: (pro, against) = {:?}, model {:?}",
                    got,
                    tally
                ),
                Err(er) => bail!("C17/voting.get_vote_results/failed", "after {after}: {er}"),
            }
        }
        Ok(())
    };
    check_state(&w, &universe, &claimed, &current_root, &bal, &tally, "set-up", false)?;

    for (step, op) in case.ops.iter().enumerate() {
        match op {
            HOp::Advance(k) => {
                envx::advance(&e, *k);
                check_state(&w, &universe, &claimed, &current_root, &bal, &tally, &format!("step {step} advance({k})"), false)?;
            }
            HOp::SetRoot(sel) => {
                if !is_distrib {
                    ctx.class("skipped_op");
                    continue;
                }
                let root = match sel {
                    RootSel::Tree(k) => trees[(*k & 1) as usize].tree.root,
                    RootSel::Random(r) => derive(*r, "random-root", 0),
                };
                let r = envx::call(&e, &w.addr, "set_root", args![&e; b32(&e, &root)]);
                ctx.op(r.is_ok());
                ensure!(r.is_ok(), "C17/set_root/failed", "step {step}: set_root failed: {:?}", r);
                if current_root.is_some() && current_root != Some(root) {
                    ctx.class("root_changed");
                }
                current_root = Some(root);
                check_state(&w, &universe, &claimed, &current_root, &bal, &tally, &format!("step {step} set_root"), false)?;
            }
            HOp::Claim { tree, who, data, proof, approve } => {
                let ti = (*tree & 1) as usize;
                let src = &trees[ti];
                let n = src.data.len();
                // resolve the position against the model
                let p = match who {
                    Who::Any(s) => pick(*s, n),
                    Who::Claimed(s) | Who::Unclaimed(s) => {
                        let want = matches!(who, Who::Claimed(_));
                        let cands: Vec<usize> = (0..n).filter(|p| claimed.contains(&src.data[*p].index) == want).collect();
                        if cands.is_empty() {
                            pick(*s, n)
                        } else {
                            cands[pick(*s, cands.len())]
                        }
                    }
                };
                let honest_d = src.data[p].clone();
                let mut d = honest_d.clone();
                match data {
                    DataVar::Honest => {}
                    DataVar::AmountPlus(k) => d.amount += if *k == 0 { 1 } else { *k as i128 },
                    DataVar::OtherAddress(s) => d.who = (d.who + 1 + pick(*s, accts.len() - 1)) % accts.len(),
                    DataVar::IndexOf(s) => d.index = src.data[pick(*s, n)].index,
                    DataVar::IndexPlus(k) => d.index = d.index.wrapping_add(if *k == 0 { 1 } else { *k as i32 as u32 }),
                }
                let honest_p = src.tree.proofs[p].clone();
                let leaf_hash = hash(hk, &[&leaf_preimage(target, &d, &accts)]);
                let pf: Vec<H32> = match proof {
                    ProofVar::Honest => honest_p.clone(),
                    ProofVar::OfLeaf(s) => src.tree.proofs[pick(*s, n)].clone(),
                    ProofVar::OtherTree => {
                        let o = &trees[1 - ti];
                        if p < o.data.len() {
                            o.tree.proofs[p].clone()
                        } else {
                            o.tree.proofs[o.data.len() - 1].clone()
                        }
                    }
                    ProofVar::Corrupt { kind, a, b, r } => match corrupt_proof(*kind, &honest_p, &src.tree.root, &leaf_hash, *a, *b, *r) {
                        Some(x) => x,
                        None => {
                            ctx.class("inapplicable");
                            honest_p.clone()
                        }
                    },
                    ProofVar::Empty => vec![],
                };
                universe.insert(d.index);

                // validity of the submitted (leaf, proof) against the CURRENT root, by the reference fold
                let ref_valid = match current_root {
                    None => false,
                    Some(root) => ref_verify(hk, positional, &Input { proof: pf.clone(), root, leaf: leaf_hash, index: d.index }) == Some(true),
                };
                let honest_by_construction = d == honest_d && pf == honest_p && current_root == Some(src.tree.root);
                if honest_by_construction && !ref_valid {
                    bail!("C17/harness-internal/builder-inconsistent", "step {step}: reference fold rejects an honest claim");
                }
                if !honest_by_construction && ref_valid {
                    // e.g. both trees contain the identical leaf at an identical path
                    ctx.class("variant_still_valid");
                }
                let pre_claimed = claimed.contains(&d.index);
                // preconditions outside the Merkle logic
                let payable = match target {
                    Target::Airdrop => d.amount >= 0 && *bal.last().unwrap() >= d.amount,
                    _ => true,
                };
                let r = w.claim(&d, &pf, *approve);
                ctx.op(r.is_ok());
                let what = format!(
                    "step {step} {entry}(tree {}, position {p}, index {}, amount {}, data {:?}, proof {:?})",
                    if ti == 0 { "A" } else { "B" },
                    d.index,
                    d.amount,
                    data,
                    proof
                );
                match &r {
                    Ok(()) => {
                        let class = if current_root.is_none() {
                            "no-root"
                        } else if current_root != Some(src.tree.root) && d == honest_d && pf == honest_p {
                            "proof-for-other-root"
                        } else if d != honest_d {
                            "altered-leaf-data"
                        } else {
                            "altered-proof"
                        };
                        ensure!(ref_valid, format!("C17/{entry}/invalid-proof-accepted/{class}"), "{what} succeeded without a valid proof against the current root");
                        ensure!(!pre_claimed, format!("C17/{entry}/double-claim"), "{what} succeeded although index {} was already claimed", d.index);
                        ensure!(payable, "C17/airdrop.claim/paid-without-funds", "{what} succeeded although the contract holds {:?}", bal.last());
                        claimed.insert(d.index);
                        n_ok += 1;
                        ctx.class("claim_ok");
                        if current_root == Some(trees[1].tree.root) && trees[1].tree.root != trees[0].tree.root {
                            ctx.class("claim_ok_after_root_change");
                        }
                        match target {
                            Target::Airdrop => {
                                let last = bal.len() - 1;
                                bal[last] -= d.amount;
                                bal[d.who] += d.amount;
                            }
                            Target::Voting => {
                                if *approve {
                                    tally.0 += d.amount;
                                } else {
                                    tally.1 += d.amount;
                                }
                            }
                            _ => {}
                        }
                    }
                    Err(er) => {
                        if ref_valid && !pre_claimed && payable {
                            bail!(format!("C17/{entry}/honest-claim-refused"), "{what}: valid proof for an unclaimed index against the current root was refused: {er}");
                        }
                        if ref_valid && pre_claimed {
                            n_repeat_refused += 1;
                            ctx.class("repeat_claim_refused");
                            if !honest_by_construction || ti == 1 {
                                ctx.class("repeat_claim_refused_via_other_tree");
                            }
                        } else if !ref_valid {
                            n_invalid_refused += 1;
                            ctx.class("invalid_claim_refused");
                            if !matches!(data, DataVar::Honest) {
                                ctx.class("altered_data_refused");
                            } else if !matches!(proof, ProofVar::Honest) {
                                ctx.class("altered_proof_refused");
                            } else {
                                ctx.class("stale_root_proof_refused");
                            }
                        } else {
                            ctx.class("underfunded_claim_refused");
                        }
                    }
                }
                check_state(&w, &universe, &claimed, &current_root, &bal, &tally, &what, r.is_err())?;
                // public entry points for the touched index / receiver
                let got = w.api_is_claimed(d.index).map_err(|er| violation("C17/is_claimed/read-failed", er))?;
                ensure!(
                    got == claimed.contains(&d.index),
                    "C17/is_claimed/entry-point-mismatch",
                    "{what}: is_claimed({}) = {got}, model {}",
                    d.index,
                    claimed.contains(&d.index)
                );
                if target == Target::Airdrop {
                    let b = w.api_balance(&accts[d.who]).map_err(|er| violation("C17/airdrop.token/balance-failed", er))?;
                    ensure!(b == bal[d.who], "C17/airdrop.claim/payout-mismatch", "{what}: balance() of the receiver = {b}, model {}", bal[d.who]);
                }
            }
        }
    }
    if n_ok >= 1 && n_repeat_refused >= 1 && n_invalid_refused >= 1 {
        ctx.nontrivial = true;
        ctx.class("nontrivial");
        ctx.class("nontrivial_history");
    }
    Ok(())
}

fn hop_strategy(distrib: bool) -> BoxedStrategy<HOp> {
    let who = prop_oneof![3 => any::<u16>().prop_map(Who::Any), 3 => any::<u16>().prop_map(Who::Claimed), 4 => any::<u16>().prop_map(Who::Unclaimed)];
    let data = prop_oneof![
        12 => Just(DataVar::Honest),
        2 => prop_oneof![Just(1i8), Just(-1i8), any::<i8>()].prop_map(DataVar::AmountPlus),
        1 => any::<u16>().prop_map(DataVar::OtherAddress),
        2 => any::<u16>().prop_map(DataVar::IndexOf),
        1 => prop_oneof![Just(1i8), Just(-1i8), any::<i8>()].prop_map(DataVar::IndexPlus),
    ];
    let proof = prop_oneof![
        12 => Just(ProofVar::Honest),
        2 => any::<u16>().prop_map(ProofVar::OfLeaf),
        2 => Just(ProofVar::OtherTree),
        3 => (proptest::sample::select(PROOF_KINDS.to_vec()), any::<u16>(), any::<u16>(), any::<u64>()).prop_map(|(kind, a, b, r)| ProofVar::Corrupt { kind, a, b, r }),
        1 => Just(ProofVar::Empty),
    ];
    let claim = (prop_oneof![3 => Just(0u8), 2 => Just(1u8)], who, data, proof, any::<bool>())
        .prop_map(|(tree, who, data, proof, approve)| HOp::Claim { tree, who, data, proof, approve });
    let set_root = prop_oneof![4 => (0u8..2).prop_map(RootSel::Tree), 1 => any::<u64>().prop_map(RootSel::Random)].prop_map(HOp::SetRoot);
    let adv = prop_oneof![3 => 0u32..100, 1 => Just(17280u32 * 31), 1 => Just(600_000u32)].prop_map(HOp::Advance);
    if distrib {
        prop_oneof![12 => claim, 3 => set_root, 1 => adv].boxed()
    } else {
        prop_oneof![14 => claim, 1 => adv].boxed()
    }
}

fn hcase_strategy(target: BoxedStrategy<Target>, distrib: bool, tier: Tier) -> BoxedStrategy<HCase> {
    let nmax = tier.pick(12u8, 40u8);
    let n = prop_oneof![1 => Just(1u8), 1 => Just(2u8), 6 => 3u8..=nmax];
    let n2 = prop_oneof![1 => Just(1u8), 7 => 2u8..=nmax];
    let fund = prop_oneof![5 => Just(4u8), 1 => 0u8..4];
    let ops = proptest::collection::vec(hop_strategy(distrib), 0..=25);
    (target, n, n2, any::<u64>(), any::<bool>(), any::<u16>(), proptest::bool::weighted(0.85), fund, ops)
        .prop_map(|(target, n, n2, seed, scattered, same_data, init_root, fund, ops)| HCase { target, n, n2, seed, scattered, same_data, init_root, fund, ops })
        .boxed()
}
fn distrib_strategy(tier: Tier) -> BoxedStrategy<HCase> {
    let t = (any::<bool>(), any::<bool>()).prop_map(|(keccak, indexed)| Target::Distrib { keccak, indexed }).boxed();
    hcase_strategy(t, true, tier)
}
fn airdrop_strategy(tier: Tier) -> BoxedStrategy<HCase> {
    hcase_strategy(Just(Target::Airdrop).boxed(), false, tier)
}
fn voting_strategy(tier: Tier) -> BoxedStrategy<HCase> {
    hcase_strategy(Just(Target::Voting).boxed(), false, tier)
}

pub fn property() -> Property {
    Property {
        id: "C17",
        rule: "verify-* case = (tree form, n in 1..=40 (thorough ..=300) distinct pseudo-random leaves from a seed, common-prefix length, \
               one probe of every corruption kind + extras); trees built with sha2/sha3 for BOTH hashers (sorted-pair with promoted odd node or OZ heap layout; \
               positional padded to 2^k with distinct fillers); every leaf's honest proof must verify, every corruption must be rejected. \
               non-trivial (verify-*, exhaustive-small) = n >= 3, n not a power of two, and for both hashers >= 1 accepted and >= 5 rejected probes. \
               history case = (target, two trees A/B sharing indices, <= 25 ops: claims with honest/altered data and proofs from either tree, set_root, advance); \
               non-trivial (histories) = >= 1 successful claim, >= 1 refused repeat claim carrying a valid proof, >= 1 refused invalid claim; distinct = distinct serialised case",
        subs: vec![
            gen_sub::<VCase>("verify-sorted", 300, 5000, sorted_strategy, run_verify),
            gen_sub::<VCase>("verify-indexed", 300, 5000, indexed_strategy, run_verify),
            Box::new(Fixed { name: "exhaustive-small", slabs: exhaustive_slabs, run: run_exhaustive }),
            gen_sub::<HCase>("distrib", 600, 12000, distrib_strategy, run_history),
            gen_sub::<HCase>("airdrop", 300, 6000, airdrop_strategy, run_history),
            gen_sub::<HCase>("voting", 300, 6000, voting_strategy, run_history),
        ],
        // <= 1/10 of the minimum measured over seeds 0..5 (quick) / seed 0 (thorough)
        floors: vec![
            ("nontrivial", 100, 1800),
            ("nontrivial_history", 50, 900),
            ("unbalanced_tree", 40, 800),
            ("single_leaf_tree", 1, 20),
            ("rejected:proof-swap", 140, 3000),
            ("rejected:proof-drop-middle", 120, 3000),
            ("rejected:index-minus-1", 70, 2000),
            ("rejected:index-high-bits", 900, 6000),
            ("out_of_bounds_failed", 1000, 8000),
            ("claim_ok", 180, 3900),
            ("claim_ok_after_root_change", 15, 400),
            ("repeat_claim_refused", 130, 2300),
            ("repeat_claim_refused_via_other_tree", 12, 250),
            ("altered_data_refused", 390, 8000),
            ("altered_proof_refused", 280, 5900),
            ("stale_root_proof_refused", 200, 4700),
            ("underfunded_claim_refused", 5, 100),
        ],
        assumptions: vec![
            "Soroban native test host (sha256/keccak256 host functions, XDR serialisation of contract types, storage, rollback) is trusted",
            "SHA-256 / Keccak-256 collisions are not encountered (a corrupted input whose reference fold still equals the root is discarded and counted)",
            "claimed flags are observed through is_claimed / has_voted; persistent-entry expiry is not observable in the native test host (auto-restore)",
        ],
    }
}

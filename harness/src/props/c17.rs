//! C17 — not implemented yet.
use crate::engine::*;

pub fn property() -> Property {
    Property { id: "C17", rule: "", subs: vec![], floors: vec![], assumptions: vec![] }
}

//! C04 — RWA tokens never pass the compliance, identity, freeze and pause gates.
//!
//! One generated sub-check: histories over the whole `RWAToken` + `Pausable` + `FungibleToken` surface of
//! the harness RWA token (`contracts::c04::rwa_tok::RwaTok`, thin wiring of `RWA::*`), with scripted
//! collaborator mocks behind `ComplianceClient` / `IdentityVerifierClient`.  A tenth of the cases put the
//! library's own modular compliance contract (`rwa::compliance::storage`) between the token and the mock.
//!
//! The reference model is written from the property statement and the documentation, the observed state
//! (balances, frozen amounts, address flags, pause flag, supply) is compared with it after every step,
//! and the compliance notification log is compared with the exact expected delta after every step.

use crate::contracts::c04::{lib_compliance::LibCompliance, mock_compliance, mock_compliance::MockCompliance, mock_compliance::Note, mock_idv::MockIdVerifier, rwa_tok::RwaTok};
use crate::engine::*;
use crate::envx::{self, call, Inv};
use crate::gen::pick;
use proptest::prelude::*;
use serde::{Deserialize, Serialize};
use soroban_sdk::{symbol_short, Address, Env, IntoVal, TryFromVal, Val, Vec as SVec};
use std::collections::BTreeSet;
use stellar_tokens::fungible::Base;
use stellar_tokens::rwa::compliance::ComplianceHook;
use stellar_tokens::rwa::RWA;

// ------------------------------------------------------------------ public set-up helper (also for an RWA flavour of C01/C02)

/// Addresses of a freshly wired RWA token and its collaborators.
pub struct RwaSetup {
    /// the `RwaTok` contract
    pub token: Address,
    /// the address the token knows as its compliance contract (`MockCompliance`, or `LibCompliance` in front of it)
    pub compliance: Address,
    /// the `MockCompliance` instance holding the scripted answers and the notification log
    pub mock: Address,
    /// the `MockIdVerifier` instance
    pub idv: Address,
    /// library-compliance wiring only: a second module on the CanTransfer / CanCreate hooks with its own scripted
    /// answers (the library compliance approves only if EVERY module approves)
    pub mock2: Option<Address>,
}

/// Registers `MockCompliance`, `MockIdVerifier` (and `LibCompliance` when `lib_compliance`) and an `RwaTok`
/// administered by `admin` (any plain actor from `envx::actor`).  Everything starts PERMISSIVE: every identity
/// verifies, `can_transfer` / `can_create` answer true, nothing is frozen or paused, no recovery target is set.
///
/// Entry points of the token (all arguments by value):
/// * operator only (`operator` must be `admin` and must authorize the exact invocation):
///   `mint(to, amount, operator)`, `burn(user, amount, operator)`, `forced_transfer(from, to, amount, operator)`,
///   `recover_balance(old, new, operator) -> bool`, `set_address_frozen(user, freeze, operator)`,
///   `freeze_partial_tokens(user, amount, operator)`, `unfreeze_partial_tokens(user, amount, operator)`,
///   `pause(caller)`, `unpause(caller)`;
/// * holders (SEP-41): `transfer(from, to, amount)` (auth `from`), `transfer_from(spender, from, to, amount)`
///   (auth `spender`), `approve(owner, spender, amount, live_until_ledger)` (auth `owner`);
/// * getters: `balance`, `total_supply`, `allowance`, `is_frozen`, `get_frozen_tokens`, `paused`, `compliance`,
///   `identity_verifier`.
/// Scripting: `MockCompliance::{set_can_transfer(bool), set_can_create(bool), log(), clear_log()}` on `mock`,
/// `MockIdVerifier::{set_identity(account, bool), set_default(bool), set_recovery_target(old, Option<Address>)}` on `idv`
/// (none of them needs authorization).
pub fn rwa_token_setup(e: &Env, admin: &Address, lib_compliance: bool) -> Result<RwaSetup, String> {
    let mock = e.register(MockCompliance, ());
    let idv = e.register(MockIdVerifier, ());
    let compliance = if lib_compliance { e.register(LibCompliance, ()) } else { mock.clone() };
    let token = e.register(RwaTok, (admin.clone(), compliance.clone(), idv.clone()));
    if lib_compliance {
        envx::no_auth(e);
        call(e, &compliance, "bind_token", args![e; token.clone()]).map_err(|er| format!("bind_token: {er}"))?;
        for hook in [ComplianceHook::Transferred, ComplianceHook::Created, ComplianceHook::Destroyed, ComplianceHook::CanTransfer, ComplianceHook::CanCreate] {
            call(e, &compliance, "add_module_to", args![e; hook, mock.clone()]).map_err(|er| format!("add_module_to: {er}"))?;
        }
    }
    let mock2 = if lib_compliance {
        let m2 = e.register(MockCompliance, ());
        for hook in [ComplianceHook::CanTransfer, ComplianceHook::CanCreate] {
            call(e, &compliance, "add_module_to", args![e; hook, m2.clone()]).map_err(|er| format!("add_module_to (second module): {er}"))?;
        }
        Some(m2)
    } else {
        None
    };
    Ok(RwaSetup { token, compliance, mock, idv, mock2 })
}

// ------------------------------------------------------------------ case

/// Amount selector, resolved against the model at execution time (`h` = the holder the op is about).
#[derive(Clone, Debug, Serialize, Deserialize)]
pub enum Amt {
    Abs(#[serde(with = "crate::gen::i128_str")] i128),
    /// k/4 of the balance
    OfBal(u8),
    /// balance + d
    BalPlus(i8),
    /// free balance (balance - frozen) + d
    FreePlus(i8),
    /// frozen amount + d
    FrozenPlus(i8),
    /// allowance(holder, spender) + d (free + d when there is no spender)
    AllowPlus(i8),
    /// min(free, allowance) + d — the largest allowance spend that can pass the freeze gate, +-d
    MinFreeAllow(i8),
    /// i128::MAX - supply + d
    SupplyGap(i8),
}

/// authorization of a holder-initiated call
#[derive(Clone, Debug, Serialize, Deserialize, PartialEq, Eq)]
pub enum HAuth {
    Exact,
    /// nobody authorizes
    Drop,
    /// somebody else authorizes the same invocation
    Swap(u16),
}
/// authorization of a supervisory call
#[derive(Clone, Debug, Serialize, Deserialize, PartialEq, Eq)]
pub enum OAuth {
    Exact,
    /// operator = admin, but no authorization entry
    NoAuth,
    /// an investor names itself as operator and authorizes the call
    Impostor(u16),
}

#[derive(Clone, Debug, Serialize, Deserialize)]
pub enum NewSel {
    /// the scripted recovery target of the old account (falls back to `Acct(0)` when none)
    Target,
    Acct(u16),
}

#[derive(Clone, Debug, Serialize, Deserialize)]
pub enum Op {
    Mint { to: u16, amt: Amt, auth: OAuth },
    Transfer { from: u16, to: u16, amt: Amt, auth: HAuth },
    /// `live_pair`: when Some and some (owner, spender) pair has a non-zero allowance, use that pair
    TransferFrom { spender: u16, from: u16, to: u16, amt: Amt, auth: HAuth, live_pair: Option<u16> },
    Approve { owner: u16, spender: u16, amt: Amt, live: i32, auth: HAuth },
    ForcedTransfer { from: u16, to: u16, amt: Amt, auth: OAuth },
    Burn { from: u16, amt: Amt, auth: OAuth },
    Recover { old: u16, new: NewSel, auth: OAuth },
    SetRecovery { old: u16, target: Option<u16> },
    SetAddressFrozen { who: u16, on: bool, auth: OAuth },
    FreezePartial { who: u16, amt: Amt, auth: OAuth },
    UnfreezePartial { who: u16, amt: Amt, auth: OAuth },
    Pause { on: bool, auth: OAuth },
    SetIdentity { who: u16, ok: bool },
    /// `second`: address the second compliance module (library-compliance wiring only; otherwise the only one)
    SetCanTransfer {
        ok: bool,
        #[serde(default)]
        second: bool,
    },
    SetCanCreate {
        ok: bool,
        #[serde(default)]
        second: bool,
    },
    Advance { k: u32 },
}

#[derive(Clone, Debug, Serialize, Deserialize)]
pub struct Case {
    /// number of investor accounts (3..=4)
    pub n: u8,
    pub seq: u32,
    /// put the library's modular compliance contract between the token and the mock
    pub lib_compliance: bool,
    /// initial mints (one per account, 0 = none)
    pub init: Vec<u16>,
    /// initial partial freeze per account: k/4 of the initial balance
    pub init_freeze: Vec<u8>,
    /// initial approvals (owner, spender, amount), live for 200 ledgers
    pub init_allow: Vec<(u16, u16, u16)>,
    /// initially scripted recovery target per account
    pub init_target: Vec<Option<u16>>,
    pub ops: Vec<Op>,
}

fn hauth() -> BoxedStrategy<HAuth> {
    prop_oneof![18 => Just(HAuth::Exact), 1 => Just(HAuth::Drop), 1 => any::<u16>().prop_map(HAuth::Swap)].boxed()
}
fn oauth() -> BoxedStrategy<OAuth> {
    prop_oneof![24 => Just(OAuth::Exact), 1 => Just(OAuth::NoAuth), 1 => any::<u16>().prop_map(OAuth::Impostor)].boxed()
}
/// amounts of holder-initiated movements: mostly around the free balance / allowance
fn amt_move() -> BoxedStrategy<Amt> {
    prop_oneof![
        8 => (-1i8..=0).prop_map(Amt::FreePlus),
        3 => Just(Amt::FreePlus(1)),
        3 => (0u8..=4).prop_map(Amt::OfBal),
        3 => (0i128..=40).prop_map(Amt::Abs),
        2 => (-1i8..=1).prop_map(Amt::BalPlus),
        2 => (-1i8..=1).prop_map(Amt::AllowPlus),
        1 => (-1i8..=1).prop_map(Amt::FrozenPlus),
        1 => crate::gen::amount_any().prop_map(Amt::Abs),
    ]
    .boxed()
}
/// amounts of allowance spends: mostly the largest spend that passes, and one above the free balance
fn amt_spend() -> BoxedStrategy<Amt> {
    prop_oneof![
        7 => Just(Amt::MinFreeAllow(0)),
        3 => Just(Amt::MinFreeAllow(-1)),
        2 => Just(Amt::MinFreeAllow(1)),
        2 => Just(Amt::FreePlus(1)),
        1 => (0i8..=1).prop_map(Amt::AllowPlus),
        4 => (0i128..=40).prop_map(Amt::Abs),
        2 => (0u8..=4).prop_map(Amt::OfBal),
        1 => crate::gen::amount_any().prop_map(Amt::Abs),
    ]
    .boxed()
}
/// amounts of supervisory movements: around free (no unfreeze needed / one token unfrozen) and balance
fn amt_sup() -> BoxedStrategy<Amt> {
    prop_oneof![
        5 => (-1i8..=2).prop_map(Amt::FreePlus),
        4 => (-1i8..=1).prop_map(Amt::BalPlus),
        3 => (0u8..=4).prop_map(Amt::OfBal),
        2 => (0i128..=60).prop_map(Amt::Abs),
        1 => (-1i8..=1).prop_map(Amt::FrozenPlus),
        1 => crate::gen::amount_any().prop_map(Amt::Abs),
    ]
    .boxed()
}
fn amt_freeze() -> BoxedStrategy<Amt> {
    prop_oneof![
        4 => (-1i8..=1).prop_map(Amt::FreePlus),
        4 => (1u8..=3).prop_map(Amt::OfBal),
        3 => (0i128..=60).prop_map(Amt::Abs),
        1 => crate::gen::amount_any().prop_map(Amt::Abs),
    ]
    .boxed()
}
fn amt_unfreeze() -> BoxedStrategy<Amt> {
    prop_oneof![
        5 => (-1i8..=1).prop_map(Amt::FrozenPlus),
        3 => (0i128..=30).prop_map(Amt::Abs),
        1 => crate::gen::amount_any().prop_map(Amt::Abs),
    ]
    .boxed()
}
fn amt_mint() -> BoxedStrategy<Amt> {
    prop_oneof![
        12 => (0i128..=400).prop_map(Amt::Abs),
        2 => crate::gen::amount_any().prop_map(Amt::Abs),
        1 => (-1i8..=1).prop_map(Amt::SupplyGap),
    ]
    .boxed()
}
fn amt_approve() -> BoxedStrategy<Amt> {
    prop_oneof![
        6 => (1i128..=600).prop_map(Amt::Abs),
        3 => (-1i8..=1).prop_map(Amt::BalPlus),
        2 => (-1i8..=1).prop_map(Amt::FreePlus),
        1 => crate::gen::amount_any().prop_map(Amt::Abs),
    ]
    .boxed()
}

fn op_strategy() -> BoxedStrategy<Op> {
    let s = any::<u16>;
    prop_oneof![
        7 => (s(), amt_mint(), oauth()).prop_map(|(to, amt, auth)| Op::Mint { to, amt, auth }),
        16 => (s(), s(), amt_move(), hauth()).prop_map(|(from, to, amt, auth)| Op::Transfer { from, to, amt, auth }),
        15 => (s(), s(), s(), amt_spend(), hauth(), proptest::option::weighted(0.85, s()))
            .prop_map(|(spender, from, to, amt, auth, live_pair)| Op::TransferFrom { spender, from, to, amt, auth, live_pair }),
        10 => (s(), s(), amt_approve(), prop_oneof![8 => 0i32..60, 1 => -2i32..0, 1 => Just(i32::MAX)], hauth())
            .prop_map(|(owner, spender, amt, live, auth)| Op::Approve { owner, spender, amt, live, auth }),
        7 => (s(), s(), amt_sup(), oauth()).prop_map(|(from, to, amt, auth)| Op::ForcedTransfer { from, to, amt, auth }),
        6 => (s(), amt_sup(), oauth()).prop_map(|(from, amt, auth)| Op::Burn { from, amt, auth }),
        6 => (s(), prop_oneof![4 => Just(NewSel::Target), 1 => s().prop_map(NewSel::Acct)], oauth()).prop_map(|(old, new, auth)| Op::Recover { old, new, auth }),
        5 => (s(), proptest::option::weighted(0.85, s())).prop_map(|(old, target)| Op::SetRecovery { old, target }),
        6 => (s(), proptest::bool::weighted(0.5), oauth()).prop_map(|(who, on, auth)| Op::SetAddressFrozen { who, on, auth }),
        8 => (s(), amt_freeze(), oauth()).prop_map(|(who, amt, auth)| Op::FreezePartial { who, amt, auth }),
        4 => (s(), amt_unfreeze(), oauth()).prop_map(|(who, amt, auth)| Op::UnfreezePartial { who, amt, auth }),
        4 => (proptest::bool::weighted(0.5), oauth()).prop_map(|(on, auth)| Op::Pause { on, auth }),
        6 => (s(), proptest::bool::weighted(0.45)).prop_map(|(who, ok)| Op::SetIdentity { who, ok }),
        3 => (proptest::bool::weighted(0.45), proptest::bool::weighted(0.4)).prop_map(|(ok, second)| Op::SetCanTransfer { ok, second }),
        2 => (proptest::bool::weighted(0.45), proptest::bool::weighted(0.4)).prop_map(|(ok, second)| Op::SetCanCreate { ok, second }),
        2 => prop_oneof![Just(0u32), Just(1), 2u32..70, 500u32..700].prop_map(|k| Op::Advance { k }),
    ]
    .boxed()
}

fn strategy(tier: Tier) -> BoxedStrategy<Case> {
    let max_ops = tier.pick(35usize, 70usize);
    (
        3u8..=4,
        100u32..3000,
        proptest::bool::weighted(0.1),
        proptest::collection::vec(prop_oneof![1 => Just(0u16), 5 => 1u16..=300], 4),
        proptest::collection::vec(prop_oneof![3 => Just(0u8), 2 => 1u8..=3], 4),
        proptest::collection::vec((any::<u16>(), any::<u16>(), 1u16..=400), 0..=3),
        proptest::collection::vec(proptest::option::weighted(0.5, any::<u16>()), 4),
        // one plain vector: a lower size bound would keep shrinking from removing operations
        proptest::collection::vec(op_strategy(), 1..=max_ops),
    )
        .prop_map(|(n, seq, lib_compliance, init, init_freeze, init_allow, init_target, ops)| Case { n, seq, lib_compliance, init, init_freeze, init_allow, init_target, ops })
        .boxed()
}

// ------------------------------------------------------------------ world, observation, model

struct World {
    e: Env,
    tok: Address,
    mock: Address,
    mock2: Option<Address>,
    idv: Address,
    admin: Address,
    accts: Vec<Address>,
}

/// Observable token state (bulk read through the library getters in one frame).
#[derive(Clone, Debug, PartialEq, Eq)]
struct Obs {
    supply: i128,
    bal: Vec<i128>,
    frozen: Vec<i128>,
    addr_frozen: Vec<bool>,
    paused: bool,
    /// allowance[owner][spender] as visible now
    allow: Vec<Vec<i128>>,
}

/// Reference model = predicted observable state + the scripted collaborator state (owned by the test).
#[derive(Clone, Debug)]
struct Model {
    o: Obs,
    id_ok: Vec<bool>,
    can_transfer: bool,
    can_create: bool,
    /// per-module scripted answers [first, second]; `can_transfer` / `can_create` above are their conjunction
    ct: [bool; 2],
    cc: [bool; 2],
    target: Vec<Option<usize>>,
}

impl World {
    fn observe(&self) -> Obs {
        let e = &self.e;
        let hs = &self.accts;
        e.as_contract(&self.tok, || Obs {
            supply: Base::total_supply(e),
            bal: hs.iter().map(|a| Base::balance(e, a)).collect(),
            frozen: hs.iter().map(|a| RWA::get_frozen_tokens(e, a)).collect(),
            addr_frozen: hs.iter().map(|a| RWA::is_frozen(e, a)).collect(),
            paused: stellar_contract_utils::pausable::paused(e),
            allow: hs.iter().map(|o| hs.iter().map(|s| Base::allowance(e, o, s)).collect()).collect(),
        })
    }
    fn read_log(&self) -> Vec<Note> {
        let e = &self.e;
        e.as_contract(&self.mock, || {
            let v: SVec<Note> = e.storage().persistent().get(&symbol_short!("log")).unwrap_or(SVec::new(e));
            v.iter().collect()
        })
    }
    /// invoke a token entry point with exactly one (or no) authorization entry for this very invocation
    fn invoke(&self, func: &str, args: SVec<Val>, signer: Option<&Address>) -> Result<Val, String> {
        let e = &self.e;
        match signer {
            Some(s) => envx::set_auth(e, &[(s, &Inv::new(&self.tok, func, args.clone()))]),
            None => envx::no_auth(e),
        }
        let r = call(e, &self.tok, func, args);
        envx::no_auth(e);
        r
    }
    /// holder-initiated call; returns (result, exact authorization attached)
    fn holder_call(&self, func: &str, args: SVec<Val>, required: &Address, mode: &HAuth) -> (Result<Val, String>, bool) {
        match mode {
            HAuth::Exact => (self.invoke(func, args, Some(required)), true),
            HAuth::Drop => (self.invoke(func, args, None), false),
            HAuth::Swap(o) => {
                let pool: Vec<&Address> = self.accts.iter().chain([&self.admin]).filter(|a| *a != required).collect();
                let who = pool[pick(*o, pool.len())];
                (self.invoke(func, args, Some(who)), false)
            }
        }
    }
    /// supervisory call: `args` without the trailing operator
    fn sup_call(&self, func: &str, mut args: SVec<Val>, mode: &OAuth) -> (Result<Val, String>, bool) {
        let e = &self.e;
        match mode {
            OAuth::Exact => {
                args.push_back(self.admin.clone().into_val(e));
                (self.invoke(func, args, Some(&self.admin)), true)
            }
            OAuth::NoAuth => {
                args.push_back(self.admin.clone().into_val(e));
                (self.invoke(func, args, None), false)
            }
            OAuth::Impostor(i) => {
                let who = self.accts[pick(*i, self.accts.len())].clone();
                args.push_back(who.clone().into_val(e));
                (self.invoke(func, args, Some(&who)), false)
            }
        }
    }
    fn idx(&self, sel: u16) -> usize {
        pick(sel, self.accts.len())
    }
    /// counterparty selector: almost always somebody else, rarely (1/25 .. 1/17) the same account
    fn other(&self, me: usize, sel: u16) -> usize {
        let n = self.accts.len();
        let k = pick(sel, 8 * (n - 1) + 1);
        if k == 8 * (n - 1) {
            me
        } else {
            let others: Vec<usize> = (0..n).filter(|i| *i != me).collect();
            others[k / 8]
        }
    }
}

fn resolve_amt(amt: &Amt, m: &Model, h: usize, spender: Option<usize>) -> i128 {
    let o = &m.o;
    let bal = o.bal[h];
    let free = bal.saturating_sub(o.frozen[h]);
    let p = |x: i128, d: &i8| x.saturating_add(*d as i128);
    match amt {
        Amt::Abs(x) => *x,
        Amt::OfBal(k) => bal / 4 * (*k as i128).min(4) + if *k >= 4 { bal % 4 } else { 0 },
        Amt::BalPlus(d) => p(bal, d),
        Amt::FreePlus(d) => p(free, d),
        Amt::FrozenPlus(d) => p(o.frozen[h], d),
        Amt::AllowPlus(d) => match spender {
            Some(s) => p(o.allow[h][s], d),
            None => p(free, d),
        },
        Amt::MinFreeAllow(d) => match spender {
            Some(s) => p(o.allow[h][s].min(free), d),
            None => p(free, d),
        },
        Amt::SupplyGap(d) => p(i128::MAX - o.supply, d),
    }
}

/// Closed gates of a holder-initiated movement, in the fixed reporting order.
fn move_gates(m: &Model, from: usize, to: usize, amount: i128) -> Vec<&'static str> {
    let o = &m.o;
    let mut g = vec![];
    if o.paused {
        g.push("paused");
    }
    if o.addr_frozen[from] {
        g.push("from-frozen");
    }
    if o.addr_frozen[to] {
        g.push("to-frozen");
    }
    // amounts above the balance are a plain balance failure, not the freeze gate
    if amount <= o.bal[from] && amount > o.bal[from] - o.frozen[from] {
        g.push("partial-freeze");
    }
    if !m.id_ok[from] {
        g.push("identity-from");
    }
    if !m.id_ok[to] {
        g.push("identity-to");
    }
    if !m.can_transfer {
        g.push("compliance");
    }
    g
}

fn note(kind: u32, from: &Address, to: &Address, amount: i128, token: &Address) -> Note {
    Note { kind, from: from.clone(), to: to.clone(), amount, token: token.clone() }
}

/// frozen amount of `from` after a supervisory removal of `amount`: only the minimum needed is unfrozen
fn frozen_after_removal(o: &Obs, from: usize, amount: i128) -> i128 {
    let free = o.bal[from] - o.frozen[from];
    o.frozen[from] - (amount - free).max(0)
}

// ------------------------------------------------------------------ interpreter + oracle

pub fn run(case: &Case, ctx: &mut Ctx) -> R {
    let n = (case.n as usize).clamp(2, 4);
    let e = envx::new_env(case.seq.max(1), envx::BIG_TTL);
    let admin = envx::actor(&e);
    let accts = envx::actors(&e, n);
    let su = rwa_token_setup(&e, &admin, case.lib_compliance).map_err(|er| violation("C04/setup/wiring", er))?;
    let w = World { e: e.clone(), tok: su.token.clone(), mock: su.mock.clone(), mock2: su.mock2.clone(), idv: su.idv.clone(), admin, accts };
    let e = &w.e;
    if case.lib_compliance {
        ctx.class("lib_compliance_case");
    }

    let mut m = Model {
        o: Obs { supply: 0, bal: vec![0; n], frozen: vec![0; n], addr_frozen: vec![false; n], paused: false, allow: vec![vec![0; n]; n] },
        id_ok: vec![true; n],
        can_transfer: true,
        can_create: true,
        ct: [true, true],
        cc: [true, true],
        target: vec![None; n],
    };
    // initial funding through the real mint path (all gates open)
    for i in 0..n {
        let a = *case.init.get(i).unwrap_or(&0) as i128;
        if a > 0 {
            let (r, _) = w.sup_call("mint", args![e; w.accts[i].clone(), a], &OAuth::Exact);
            ensure!(r.is_ok(), "C04/setup/fund", "set-up mint of {a} to account {i} failed: {:?}", r);
            m.o.bal[i] += a;
            m.o.supply += a;
        }
    }
    for i in 0..n {
        let fz = m.o.bal[i] / 4 * (*case.init_freeze.get(i).unwrap_or(&0) as i128).min(4);
        if fz > 0 {
            let (r, _) = w.sup_call("freeze_partial_tokens", args![e; w.accts[i].clone(), fz], &OAuth::Exact);
            ensure!(r.is_ok(), "C04/setup/freeze", "set-up freeze of {fz} on account {i} failed: {:?}", r);
            m.o.frozen[i] = fz;
        }
    }
    for (ow, sp, a) in &case.init_allow {
        let oi = w.idx(*ow);
        let si = w.other(oi, *sp);
        let l = envx::seq(e) + 200;
        let (r, _) = w.holder_call("approve", args![e; w.accts[oi].clone(), w.accts[si].clone(), *a as i128, l], &w.accts[oi], &HAuth::Exact);
        ensure!(r.is_ok(), "C04/setup/approve", "set-up approve failed: {:?}", r);
        m.o.allow[oi][si] = *a as i128;
    }
    for i in 0..n {
        if let Some(Some(t)) = case.init_target.get(i) {
            let ti = w.other(i, *t);
            envx::no_auth(e);
            call(e, &w.idv, "set_recovery_target", args![e; w.accts[i].clone(), Some(w.accts[ti].clone())]).map_err(|er| violation("C04/setup/set_recovery_target", er))?;
            m.target[i] = Some(ti);
        }
    }
    let o0 = w.observe();
    ensure!(o0 == m.o, "C04/setup/state", "state after set-up {:?}, expected {:?}", o0, m.o);
    let mut log = w.read_log();

    let mut gates_hit: BTreeSet<&'static str> = BTreeSet::new();
    let (mut tf_attempt, mut sup_partial) = (false, false);

    for (step, op) in case.ops.iter().enumerate() {
        let before = m.clone();
        let o = &before.o;
        // (entry point name, call succeeded, expected notifications on success)
        let f: &'static str;
        let ok: bool;
        let mut expect: Vec<Note> = vec![];
        // account whose address-freeze flag the documentation leaves open after this op (adopted from the observation)
        let mut open_flag: Option<usize> = None;
        let what = format!("step {step} {:?}", op);

        match op {
            // ---------------------------------------------------------------- scripted collaborators / ledger
            Op::Advance { k } => {
                envx::advance(e, *k);
                let o2 = w.observe();
                m.o.allow = o2.allow.clone(); // allowances may expire; everything else must stay
                ensure!(o2 == m.o, "C04/advance/state-changed", "{what}: state changed by a ledger jump: {:?} -> {:?}", o, o2);
                continue;
            }
            Op::SetIdentity { who, ok: v } => {
                let i = w.idx(*who);
                envx::no_auth(e);
                call(e, &w.idv, "set_identity", args![e; w.accts[i].clone(), *v]).map_err(|er| violation("C04/setup/set_identity", er))?;
                m.id_ok[i] = *v;
                continue;
            }
            Op::SetCanTransfer { ok: v, second } => {
                envx::no_auth(e);
                let k = if *second && w.mock2.is_some() { 1 } else { 0 };
                let target = if k == 1 { w.mock2.as_ref().unwrap() } else { &w.mock };
                call(e, target, "set_can_transfer", args![e; *v]).map_err(|er| violation("C04/setup/set_can_transfer", er))?;
                m.ct[k] = *v;
                m.can_transfer = m.ct[0] && m.ct[1];
                if w.mock2.is_some() && m.ct[0] != m.ct[1] {
                    ctx.class("compliance_modules_disagree");
                }
                continue;
            }
            Op::SetCanCreate { ok: v, second } => {
                envx::no_auth(e);
                let k = if *second && w.mock2.is_some() { 1 } else { 0 };
                let target = if k == 1 { w.mock2.as_ref().unwrap() } else { &w.mock };
                call(e, target, "set_can_create", args![e; *v]).map_err(|er| violation("C04/setup/set_can_create", er))?;
                m.cc[k] = *v;
                m.can_create = m.cc[0] && m.cc[1];
                continue;
            }
            Op::SetRecovery { old, target } => {
                let oi = w.idx(*old);
                let ti = target.map(|t| w.other(oi, t));
                let tv: Option<Address> = ti.map(|t| w.accts[t].clone());
                envx::no_auth(e);
                call(e, &w.idv, "set_recovery_target", args![e; w.accts[oi].clone(), tv]).map_err(|er| violation("C04/setup/set_recovery_target", er))?;
                m.target[oi] = ti;
                continue;
            }

            // ---------------------------------------------------------------- holder-initiated movements
            Op::Transfer { .. } | Op::TransferFrom { .. } => {
                let (fi, ti, si, a, auth) = match op {
                    Op::Transfer { from, to, amt, auth } => {
                        let fi = w.idx(*from);
                        (fi, w.other(fi, *to), None, resolve_amt(amt, &before, fi, None), auth)
                    }
                    Op::TransferFrom { spender, from, to, amt, auth, live_pair } => {
                        let (mut fi, mut si) = (w.idx(*from), w.idx(*spender));
                        if let Some(sel) = live_pair {
                            let live: Vec<(usize, usize)> = (0..n).flat_map(|x| (0..n).map(move |y| (x, y))).filter(|(x, y)| o.allow[*x][*y] > 0).collect();
                            if !live.is_empty() {
                                (fi, si) = live[pick(*sel, live.len())];
                            }
                        }
                        (fi, w.other(fi, *to), Some(si), resolve_amt(amt, &before, fi, Some(si)), auth)
                    }
                    _ => unreachable!(),
                };
                f = if si.is_some() { "transfer_from" } else { "transfer" };
                let (r, exact) = match si {
                    None => w.holder_call(f, args![e; w.accts[fi].clone(), w.accts[ti].clone(), a], &w.accts[fi], auth),
                    Some(s) => w.holder_call(f, args![e; w.accts[s].clone(), w.accts[fi].clone(), w.accts[ti].clone(), a], &w.accts[s], auth),
                };
                ok = r.is_ok();
                // documented non-gate preconditions
                let pre: Result<(), &'static str> = if a < 0 {
                    Err("negative-amount")
                } else if si.map(|s| o.allow[fi][s] < a).unwrap_or(false) {
                    Err("allowance")
                } else if o.bal[fi] < a {
                    Err("balance")
                } else {
                    Ok(())
                };
                let gates = move_gates(&before, fi, ti, a);
                if exact && si.is_some() {
                    tf_attempt = true;
                }
                if ok {
                    ensure!(exact, format!("C04/{f}/unauthorized"), "{what}: succeeded in auth mode {:?}", auth);
                    if let Some(g) = gates.first() {
                        bail!(
                            format!("C04/{f}/gate-bypass:{g}"),
                            "{what}: {f}({fi}->{ti}, {a}) succeeded although gate(s) {:?} are closed; before: paused={} addr_frozen={:?} bal={:?} frozen={:?} id_ok={:?} can_transfer={}",
                            gates,
                            o.paused,
                            o.addr_frozen,
                            o.bal,
                            o.frozen,
                            before.id_ok,
                            before.can_transfer
                        );
                    }
                    if let Err(p) = pre {
                        bail!(format!("C04/{f}/precondition:{p}"), "{what}: {f}({fi}->{ti}, {a}) succeeded although `{p}` fails; bal={:?} allow={:?}", o.bal, o.allow);
                    }
                    m.o.bal[fi] -= a;
                    m.o.bal[ti] += a;
                    if let Some(s) = si {
                        m.o.allow[fi][s] -= a;
                    }
                    expect.push(note(mock_compliance::TRANSFERRED, &w.accts[fi], &w.accts[ti], a, &w.tok));
                    ctx.class(&format!("ok:{f}"));
                } else if exact && pre.is_ok() {
                    if gates.is_empty() {
                        // documented liveness: exact authorization, all gates open, enough free balance (and allowance)
                        bail!(format!("C04/{f}/refused-with-open-gates"), "{what}: {f}({fi}->{ti}, {a}) refused although every gate is open: {:?}; bal={:?} frozen={:?} allow={:?}", r, o.bal, o.frozen, o.allow);
                    }
                    for g in &gates {
                        ctx.class(&format!("gate:{f}:{g}"));
                        gates_hit.insert(*g);
                    }
                    if gates.len() == 1 {
                        ctx.class(&format!("only:{f}:{}", gates[0]));
                    }
                } else if !exact {
                    ctx.class(&format!("rejected_auth:{f}"));
                } else {
                    ctx.class(&format!("rejected_pre:{f}:{}", pre.err().unwrap_or("?")));
                }
            }
            Op::Approve { owner, spender, amt, live, auth } => {
                f = "approve";
                let oi = w.idx(*owner);
                let si = w.other(oi, *spender);
                let a = resolve_amt(amt, &before, oi, Some(si));
                let l = (envx::seq(e) as i64 + *live as i64).clamp(0, u32::MAX as i64) as u32;
                let (r, exact) = w.holder_call(f, args![e; w.accts[oi].clone(), w.accts[si].clone(), a, l], &w.accts[oi], auth);
                ok = r.is_ok();
                if ok {
                    ensure!(exact, "C04/approve/unauthorized", "{what}: succeeded in auth mode {:?}", auth);
                    // allowance semantics are C02's subject: adopt the visible value, everything else must stay
                    m.o.allow[oi][si] = w.observe().allow[oi][si];
                }
            }

            // ---------------------------------------------------------------- supervisory operations
            Op::Mint { to, amt, auth } => {
                f = "mint";
                let ti = w.idx(*to);
                let a = resolve_amt(amt, &before, ti, None);
                let (r, exact) = w.sup_call(f, args![e; w.accts[ti].clone(), a], auth);
                ok = r.is_ok();
                let pre: Result<(), &'static str> = if a < 0 {
                    Err("negative-amount")
                } else if o.supply.checked_add(a).is_none() {
                    Err("supply-overflow")
                } else {
                    Ok(())
                };
                let mut gates = vec![];
                if !before.id_ok[ti] {
                    gates.push("identity-to");
                }
                if !before.can_create {
                    gates.push("compliance");
                }
                // the RWAToken trait docs also list EnforcedPause / AddressFrozen for mint; the statement does not
                let doc_gate = o.paused || o.addr_frozen[ti];
                if ok {
                    ensure!(exact, "C04/mint/unauthorized", "{what}: succeeded in auth mode {:?}", auth);
                    if let Some(g) = gates.first() {
                        bail!(format!("C04/mint/gate-bypass:{g}"), "{what}: mint({ti}, {a}) succeeded although gate(s) {:?} are closed (id_ok={:?}, can_create={})", gates, before.id_ok, before.can_create);
                    }
                    if let Err(p) = pre {
                        bail!(format!("C04/mint/precondition:{p}"), "{what}: mint({ti}, {a}) succeeded although `{p}` fails (supply {})", o.supply);
                    }
                    m.o.bal[ti] += a;
                    m.o.supply += a;
                    expect.push(note(mock_compliance::CREATED, &w.accts[ti], &w.accts[ti], a, &w.tok));
                    ctx.class("ok:mint");
                    if o.paused {
                        ctx.class("mint_while_paused_ok");
                    }
                    if o.addr_frozen[ti] {
                        ctx.class("mint_to_frozen_address_ok");
                    }
                } else if exact && pre.is_ok() {
                    if gates.is_empty() {
                        if doc_gate {
                            ctx.class("stricter_than_model:mint");
                        } else {
                            bail!("C04/mint/refused-with-open-gates", "{what}: mint({ti}, {a}) refused although the recipient is verified and compliance approves: {:?}", r);
                        }
                    }
                    for g in &gates {
                        ctx.class(&format!("gate:mint:{g}"));
                        gates_hit.insert(*g);
                    }
                    if gates.len() == 1 {
                        ctx.class(&format!("only:mint:{}", gates[0]));
                    }
                }
            }
            Op::ForcedTransfer { from, to, amt, auth } => {
                f = "forced_transfer";
                let fi = w.idx(*from);
                let ti = w.other(fi, *to);
                let a = resolve_amt(amt, &before, fi, None);
                let (r, exact) = w.sup_call(f, args![e; w.accts[fi].clone(), w.accts[ti].clone(), a], auth);
                ok = r.is_ok();
                let pre_ok = a >= 0 && a <= o.bal[fi];
                if ok {
                    ensure!(exact, "C04/forced_transfer/unauthorized", "{what}: succeeded in auth mode {:?}", auth);
                    ensure!(pre_ok, "C04/forced_transfer/precondition", "{what}: forced_transfer({fi}->{ti}, {a}) succeeded with balance {}", o.bal[fi]);
                    m.o.frozen[fi] = frozen_after_removal(o, fi, a);
                    m.o.bal[fi] -= a;
                    m.o.bal[ti] += a;
                    if fi == ti {
                        // a forced transfer onto itself needs no unfreezing at all; the docs do not say which of the
                        // two readings applies, so anything between "nothing" and "the formula" is accepted
                        let seen = w.observe().frozen[fi];
                        if seen >= m.o.frozen[fi] && seen <= o.frozen[fi] {
                            m.o.frozen[fi] = seen;
                        }
                        ctx.class("forced_transfer_onto_itself");
                    }
                    expect.push(note(mock_compliance::TRANSFERRED, &w.accts[fi], &w.accts[ti], a, &w.tok));
                    ctx.class("ok:forced_transfer");
                    if o.frozen[fi] > 0 {
                        sup_partial = true;
                        ctx.class(if m.o.frozen[fi] < o.frozen[fi] { "forced_transfer_unfreezes" } else { "forced_transfer_keeps_freeze" });
                    }
                    for g in move_gates(&before, fi, ti, a) {
                        ctx.class(&format!("forced_through:{g}"));
                    }
                } else if exact && pre_ok {
                    // documented errors: InsufficientBalance, LessThanZero only; pause and address freeze are bypassed
                    if before.id_ok[fi] && before.id_ok[ti] && before.can_transfer {
                        bail!("C04/forced_transfer/refused", "{what}: forced_transfer({fi}->{ti}, {a}) by the operator refused: {:?}; bal={:?} frozen={:?}", r, o.bal, o.frozen);
                    }
                    ctx.class("stricter_than_model:forced_transfer");
                }
            }
            Op::Burn { from, amt, auth } => {
                f = "burn";
                let fi = w.idx(*from);
                let a = resolve_amt(amt, &before, fi, None);
                let (r, exact) = w.sup_call(f, args![e; w.accts[fi].clone(), a], auth);
                ok = r.is_ok();
                let pre_ok = a >= 0 && a <= o.bal[fi];
                if ok {
                    ensure!(exact, "C04/burn/unauthorized", "{what}: succeeded in auth mode {:?}", auth);
                    ensure!(pre_ok, "C04/burn/precondition", "{what}: burn({fi}, {a}) succeeded with balance {}", o.bal[fi]);
                    m.o.frozen[fi] = frozen_after_removal(o, fi, a);
                    m.o.bal[fi] -= a;
                    m.o.supply -= a;
                    expect.push(note(mock_compliance::DESTROYED, &w.accts[fi], &w.accts[fi], a, &w.tok));
                    ctx.class("ok:burn");
                    if o.frozen[fi] > 0 {
                        sup_partial = true;
                        ctx.class(if m.o.frozen[fi] < o.frozen[fi] { "burn_unfreezes" } else { "burn_keeps_freeze" });
                    }
                    if o.addr_frozen[fi] {
                        ctx.class("burn_of_frozen_address_ok");
                    }
                } else if exact && pre_ok {
                    // the trait docs list AddressFrozen for burn; the library function does not check it
                    if !o.addr_frozen[fi] && !o.paused {
                        bail!("C04/burn/refused", "{what}: burn({fi}, {a}) by the operator refused: {:?}; bal={:?} frozen={:?}", r, o.bal, o.frozen);
                    }
                    ctx.class("stricter_than_model:burn");
                }
            }
            Op::Recover { old, new, auth } => {
                f = "recover_balance";
                let oi = w.idx(*old);
                let ni = match new {
                    NewSel::Target => before.target[oi].unwrap_or(0),
                    NewSel::Acct(x) => w.idx(*x),
                };
                let (r, exact) = w.sup_call(f, args![e; w.accts[oi].clone(), w.accts[ni].clone()], auth);
                ok = r.is_ok();
                let is_target = before.target[oi] == Some(ni);
                if let Ok(v) = &r {
                    ensure!(exact, "C04/recover_balance/unauthorized", "{what}: succeeded in auth mode {:?}", auth);
                    ensure!(is_target, "C04/recover_balance/wrong-target", "{what}: recovery {oi}->{ni} succeeded although the registered recovery target of {oi} is {:?}", before.target[oi]);
                    ensure!(before.id_ok[ni], "C04/recover_balance/identity-new", "{what}: recovery {oi}->{ni} succeeded although the new account fails identity verification");
                    let ret = bool::try_from_val(e, v).map_err(|_| violation("C04/recover_balance/return-type", format!("{what}: non-bool return")))?;
                    let moved = o.bal[oi];
                    ensure!(ret == (moved > 0), "C04/recover_balance/return-value", "{what}: returned {ret} for a lost balance of {moved}");
                    if moved > 0 {
                        let fr = o.frozen[oi];
                        let fl = o.addr_frozen[oi];
                        m.o.bal[oi] -= moved;
                        m.o.bal[ni] += moved;
                        m.o.frozen[oi] -= fr;
                        m.o.frozen[ni] += fr;
                        m.o.addr_frozen[ni] = m.o.addr_frozen[ni] || fl;
                        if oi != ni {
                            // whether the emptied old wallet stays flagged is not documented
                            open_flag = Some(oi);
                        }
                        expect.push(note(mock_compliance::TRANSFERRED, &w.accts[oi], &w.accts[ni], moved, &w.tok));
                        ctx.class("ok:recover_balance");
                        if fr > 0 {
                            sup_partial = true;
                            ctx.class("recover_carries_partial_freeze");
                        }
                        if fl {
                            ctx.class("recover_carries_address_freeze");
                        }
                        if oi == ni {
                            ctx.class("recover_onto_itself");
                        }
                    } else {
                        ctx.class("recover_zero_balance_false");
                    }
                } else if exact {
                    if is_target && before.id_ok[ni] {
                        if o.paused {
                            ctx.class("stricter_than_model:recover_balance");
                        } else {
                            bail!("C04/recover_balance/refused", "{what}: recovery {oi}->{ni} towards the registered target with a verified new account refused: {:?}", r);
                        }
                    } else {
                        ctx.class(if !is_target { "recover_refused:wrong-target" } else { "recover_refused:identity-new" });
                    }
                }
            }
            Op::SetAddressFrozen { who, on, auth } => {
                f = "set_address_frozen";
                let i = w.idx(*who);
                let (r, exact) = w.sup_call(f, args![e; w.accts[i].clone(), *on], auth);
                ok = r.is_ok();
                ensure!(ok == exact, "C04/set_address_frozen/auth", "{what}: exact operator auth = {exact}, call ok = {ok}: {:?}", r);
                if ok {
                    m.o.addr_frozen[i] = *on;
                }
            }
            Op::FreezePartial { who, amt, auth } => {
                f = "freeze_partial_tokens";
                let i = w.idx(*who);
                let a = resolve_amt(amt, &before, i, None);
                let (r, exact) = w.sup_call(f, args![e; w.accts[i].clone(), a], auth);
                ok = r.is_ok();
                let pre_ok = a >= 0 && o.frozen[i].checked_add(a).map(|x| x <= o.bal[i]).unwrap_or(false);
                ensure!(ok == (exact && pre_ok), "C04/freeze_partial_tokens/domain", "{what}: freeze({i}, {a}) with bal {} frozen {} exact auth {exact}: ok = {ok} ({:?})", o.bal[i], o.frozen[i], r);
                if ok {
                    m.o.frozen[i] += a;
                    ctx.class("ok:freeze_partial");
                }
            }
            Op::UnfreezePartial { who, amt, auth } => {
                f = "unfreeze_partial_tokens";
                let i = w.idx(*who);
                let a = resolve_amt(amt, &before, i, None);
                let (r, exact) = w.sup_call(f, args![e; w.accts[i].clone(), a], auth);
                ok = r.is_ok();
                let pre_ok = a >= 0 && a <= o.frozen[i];
                ensure!(ok == (exact && pre_ok), "C04/unfreeze_partial_tokens/domain", "{what}: unfreeze({i}, {a}) with frozen {} exact auth {exact}: ok = {ok} ({:?})", o.frozen[i], r);
                if ok {
                    m.o.frozen[i] -= a;
                    ctx.class("ok:unfreeze_partial");
                }
            }
            Op::Pause { on, auth } => {
                f = if *on { "pause" } else { "unpause" };
                let (r, exact) = w.sup_call(f, args![e], auth);
                ok = r.is_ok();
                let should = exact && o.paused != *on;
                ensure!(ok == should, format!("C04/{f}/alternation-or-auth"), "{what}: paused before = {}, exact auth = {exact}: ok = {ok} ({:?})", o.paused, r);
                if ok {
                    m.o.paused = *on;
                }
            }
        }
        ctx.op(ok);

        // ---- observable state vs model
        let o2 = w.observe();
        if let (true, Some(i)) = (ok, open_flag) {
            m.o.addr_frozen[i] = o2.addr_frozen[i];
        }
        if !ok {
            ensure!(o2 == before.o, format!("C04/{f}/refused-call-changed-state"), "{what}: refused but state changed {:?} -> {:?}", before.o, o2);
        } else if o2 != m.o {
            let clause = match f {
                "forced_transfer" | "burn" if o2.frozen != m.o.frozen && o2.bal == m.o.bal => "unfreeze-not-minimal",
                "recover_balance" if o2.bal != m.o.bal => "balance-not-moved-whole",
                "recover_balance" if o2.frozen != m.o.frozen => "partial-freeze-not-carried",
                "recover_balance" if o2.addr_frozen != m.o.addr_frozen => "address-freeze-not-carried",
                _ => "state-mismatch",
            };
            bail!(format!("C04/{f}/{clause}"), "{what}: state after the call {:?}, model {:?} (before {:?})", o2, m.o, before.o);
        }
        // ---- invariant 0 <= frozen <= balance, supply = sum of balances
        for i in 0..n {
            ensure!(
                0 <= o2.frozen[i] && o2.frozen[i] <= o2.bal[i],
                "C04/invariant/frozen-within-balance",
                "{what}: account {i} has frozen {} with balance {}",
                o2.frozen[i],
                o2.bal[i]
            );
        }
        ensure!(o2.bal.iter().sum::<i128>() == o2.supply, "C04/invariant/supply", "{what}: balances {:?} do not add up to the supply {}", o2.bal, o2.supply);
        // ---- compliance notifications: exactly the expected delta
        let log2 = w.read_log();
        let delta: Vec<Note> = if log2.len() >= log.len() && log2[..log.len()] == log[..] { log2[log.len()..].to_vec() } else { log2.clone() };
        if delta != expect || log2.len() < log.len() {
            let clause = if !ok {
                "notified-by-failed-call"
            } else if delta.len() > expect.len() {
                "notified-more-than-once"
            } else if delta.len() < expect.len() {
                "not-notified"
            } else {
                "wrong-notification"
            };
            bail!(format!("C04/{f}/compliance-log:{clause}"), "{what}: compliance notifications {:?}, expected exactly {:?}", delta, expect);
        }
        log = log2;
    }

    // entry-point view of the final state agrees with the bulk read
    let o = w.observe();
    envx::no_auth(e);
    for i in 0..n {
        let a = w.accts[i].clone();
        let b = envx::call_t::<i128>(e, &w.tok, "balance", args![e; a.clone()]).map_err(|er| violation("C04/api/balance-failed", er))?;
        let fz = envx::call_t::<i128>(e, &w.tok, "get_frozen_tokens", args![e; a.clone()]).map_err(|er| violation("C04/api/get_frozen_tokens-failed", er))?;
        let fl = envx::call_t::<bool>(e, &w.tok, "is_frozen", args![e; a]).map_err(|er| violation("C04/api/is_frozen-failed", er))?;
        ensure!(b == o.bal[i] && fz == o.frozen[i] && fl == o.addr_frozen[i], "C04/api/getter-mismatch", "account {i}: entry points say ({b}, {fz}, {fl}), bulk read ({}, {}, {})", o.bal[i], o.frozen[i], o.addr_frozen[i]);
    }
    let p = envx::call_t::<bool>(e, &w.tok, "paused", args![e]).map_err(|er| violation("C04/api/paused-failed", er))?;
    ensure!(p == o.paused, "C04/api/getter-mismatch", "paused() = {p}, bulk read {}", o.paused);

    ctx.class(&format!("distinct_gates_refused:{}", gates_hit.len().min(4)));
    if sup_partial {
        ctx.class("case_with_supervisory_op_on_partial_freeze");
    }
    if gates_hit.len() >= 3 && tf_attempt && sup_partial {
        ctx.nontrivial = true;
        ctx.class("nontrivial");
    }
    Ok(())
}

pub fn property() -> Property {
    Property {
        id: "C04",
        rule: "case = (3..4 investor accounts funded through mint, start ledger, token wired to MockCompliance directly or (1/10) through the library's modular compliance, \
               history of <=35 (thorough 70) ops mint/transfer/transfer_from/approve/forced_transfer/burn/recover_balance/set_address_frozen/freeze_partial/unfreeze_partial/\
               pause/unpause/set identity(a)/set compliance answers/set recovery target/advance; amounts relative to balance, free balance, frozen amount and allowance; \
               explicit authorization entries, 1/10 of holder calls and 1/13 of operator calls mis-authorized); \
               non-trivial = a correctly authorized movement refused through each of >=3 different closed gates AND >=1 authorized transfer_from AND >=1 successful \
               forced_transfer/burn/recovery on an account with a partial freeze; distinct = distinct serialised case. real-idv sub: token wired to the library's real identity verifier (registry with up to 3 required topics, 2 scriptable issuers, 3 identities holding generated claim sets), history of mint/transfer/transfer_from interleaved with claim, validity, topic and issuer edits; non-trivial = >=2 required topics, a movement blocked by the sender's and one by the receiver's verification, and a successful movement. \
               real-idv recovery extension: 3 investors + 3 spare wallets; the history also holds recover_identity(old,new) on the library's identity registry storage (registers the recovery pair), \
               recover_balance(old,new) on the token (old/new resolved against the model: registered target | another, preferably verified, account | no registered pair | raw; 1/7 mis-authorized; \
               optional operator freeze of old/new right before), operator partial/address freezes and add_identity for spare wallets; non-trivial (alternative) = a recovery to the registered target that \
               moved a positive balance AND a correctly authorized recovery refused for a wrong target, a missing pair or an unverified new account",
        subs: {
            let mut v = vec![gen_sub::<Case>("gates", 2000, 30000, strategy, run)];
            v.extend(super::c04b::subs());
            v
        },
        // <= 1/10 of the minimum measured over seeds 0..5 (quick); thorough runs 15x the cases with longer histories
        floors: vec![
            ("nontrivial", 23, 230),
            ("lib_compliance_case", 19, 190),
            ("ok:transfer_from", 125, 1250),
            ("ok:recover_balance", 50, 500),
            ("recover_carries_partial_freeze", 25, 250),
            ("recover_carries_address_freeze", 3, 30),
            ("forced_transfer_unfreezes", 33, 330),
            ("burn_unfreezes", 30, 300),
            ("rejected_auth:transfer", 48, 480),
            ("rejected_auth:transfer_from", 46, 460),
            ("only:transfer:paused", 20, 200),
            ("only:transfer:from-frozen", 8, 80),
            ("only:transfer:to-frozen", 7, 70),
            ("only:transfer:partial-freeze", 30, 300),
            ("only:transfer:identity-from", 10, 100),
            ("only:transfer:identity-to", 8, 80),
            ("only:transfer:compliance", 18, 180),
            ("only:transfer_from:paused", 15, 150),
            ("only:transfer_from:from-frozen", 7, 70),
            ("only:transfer_from:to-frozen", 6, 60),
            ("only:transfer_from:partial-freeze", 13, 130),
            ("only:transfer_from:identity-from", 8, 80),
            ("only:transfer_from:identity-to", 7, 70),
            ("only:transfer_from:compliance", 15, 150),
            ("only:mint:identity-to", 15, 150),
            ("only:mint:compliance", 16, 160),
            // real-idv sub (<= 1/10 of the minimum measured over seeds 0..3, quick; thorough runs 7.5x the cases with longer histories)
            ("nontrivial_real_idv", 45, 225),
            ("idv_move_ok", 210, 1050),
            ("nontrivial_recovery", 130, 650),
            ("rec_link_registered", 1800, 9000),
            ("rec_ok_moved", 210, 1050),
            ("rec_carries_partial_freeze", 70, 350),
            ("rec_carries_address_freeze", 36, 180),
            ("rec_onto_target_holding_a_freeze", 33, 165),
            ("rec_chained", 16, 80),
            ("rec_refused_only:wrong-target", 95, 475),
            ("rec_refused_only:no-link", 280, 1400),
            ("rec_refused_only:identity-new", 560, 2800),
            ("rec_rejected_auth", 400, 2000),
            ("rec_zero_balance_false", 137, 685),
            ("rec_repeated_after_success", 115, 575),
        ],
        assumptions: vec![
            "Soroban native test host (auth-tree matching, rollback of failed invocations, TTL rules) is trusted",
            "the harness RWA token wires RWA::* / pausable::* one-to-one; `operator` = require_auth + equality with a stored admin stands for the RBAC check the docs ask for",
            "compliance and identity verifier are scripted mocks behind the exact client interfaces the token calls; allowance semantics are C02's subject (visible allowance is read, not modelled)",
            "mint is asserted to need a verified recipient and compliance approval only (statement); the pause / frozen-address errors the RWAToken trait docs list for mint and burn are counted, not asserted",
            "real-idv recovery: the registered recovery target of an account is the pair last registered through a successful recover_identity; compliance notifications of a recovery and the address flag of the emptied old wallet are not documented by recover_balance and are counted, not asserted (the `gates` sub-check asserts the notification as the statement words it)",
        ],
    }
}

//! C04 — not implemented yet.
use crate::engine::*;

pub fn property() -> Property {
    Property { id: "C04", rule: "", subs: vec![], floors: vec![], assumptions: vec![] }
}

//! C20 — not implemented yet.
use crate::engine::*;

pub fn property() -> Property {
    Property { id: "C20", rule: "", subs: vec![], floors: vec![], assumptions: vec![] }
}

//! C20 — Registries behave as the sets and maps they represent (first half: the RWA
//! identity-side registries; the second half lives in `c20b.rs`).
//!
//! Four sub-checks, each a (harness contract, generator, reference model) triple:
//! `cti` (claim topics & trusted issuers), `issuer-keys` (claim-issuer signing keys),
//! `irs` (identity registry storage), `claims` (identity claims).
//! Every mutation goes through a real top-level invocation of the harness contract (so a
//! refused call is rolled back by the host); after EVERY step every getter of the registry
//! is evaluated for every element of the (small) universe — present or not — by calling the
//! library's public getter functions inside one `as_contract` frame, each wrapped in
//! `catch_unwind` so that "the getter fails for an absent element" is an observation.
//! Enumeration ORDER is never asserted: lists are compared as sorted multisets.

use crate::contracts::c20::{cti::Cti, ident::Ident, irs::Irs, issuer_keys::IssuerKeys, issuer_mock::IssuerMock, registry_mock::RegistryMock};
use crate::engine::*;
use crate::envx::{self, call};
use crate::gen::pick;
use proptest::prelude::*;
use serde::{Deserialize, Serialize};
use soroban_sdk::testutils::Address as _;
use soroban_sdk::xdr::ScVal;
use soroban_sdk::{Address, Bytes, BytesN, Env, IntoVal, Map, String as SString, Symbol, TryFromVal, Val, Vec as SVec};
use std::collections::{BTreeMap, BTreeSet};
use std::panic::{catch_unwind, AssertUnwindSafe};

// ------------------------------------------------------------------ shared: selectors

/// position inside the current enumeration of present elements
#[derive(Clone, Copy, Debug, Serialize, Deserialize, PartialEq)]
pub enum Pos {
    First,
    Last,
    /// the element that now sits where the most recently removed element sat
    Swapped,
    /// the only element if there is exactly one, otherwise the middle one
    Only,
    Idx(u16),
}
/// state-relative element selector, resolved against the model at execution time
#[derive(Clone, Copy, Debug, Serialize, Deserialize, PartialEq)]
pub enum Sel {
    Existing(Pos),
    Absent(u16),
    RemovedBefore(u16),
}

fn pos_strategy() -> BoxedStrategy<Pos> {
    prop_oneof![
        2 => Just(Pos::First),
        2 => Just(Pos::Last),
        3 => Just(Pos::Swapped),
        2 => Just(Pos::Only),
        4 => any::<u16>().prop_map(Pos::Idx),
    ]
    .boxed()
}
fn sel_strategy(we: u32, wa: u32, wr: u32) -> BoxedStrategy<Sel> {
    prop_oneof![
        we => pos_strategy().prop_map(Sel::Existing),
        wa => any::<u16>().prop_map(Sel::Absent),
        wr => any::<u16>().prop_map(Sel::RemovedBefore),
    ]
    .boxed()
}

/// bookkeeping for `RemovedBefore` / `Swapped` and the list non-triviality class
#[derive(Default, Clone, Debug)]
struct Track {
    removed: BTreeSet<usize>,
    swapped_pos: Option<usize>,
    /// position of the last removal if it hit an element that was neither first nor last
    mid_pos: Option<usize>,
}
impl Track {
    /// record a successful removal of the element at enumeration position `p` of `len`; returns
    /// true when this removal hit the element that had moved into the place of a middle removal
    fn on_removed(&mut self, idx: usize, p: Option<usize>, len: usize) -> bool {
        self.removed.insert(idx);
        let hit = p.is_some() && p == self.mid_pos;
        self.swapped_pos = p;
        self.mid_pos = match p {
            Some(p) if p > 0 && p + 1 < len => Some(p),
            _ => None,
        };
        hit
    }
}

fn pick_pos(p: Pos, order: &[usize], tr: &Track) -> usize {
    let n = order.len();
    match p {
        Pos::First => order[0],
        Pos::Last => order[n - 1],
        Pos::Swapped => tr.swapped_pos.and_then(|i| order.get(i).copied()).unwrap_or(order[n - 1]),
        Pos::Only => order[n / 2],
        Pos::Idx(s) => order[pick(s, n)],
    }
}

/// `order`: universe indices of the present elements in enumeration order; `n_base`: the
/// selectable universe is `0..n_base` (fillers of capacity scenarios have larger indices and
/// are reachable through `Existing` only).
fn resolve(sel: Sel, order: &[usize], n_base: usize, tr: &Track) -> usize {
    match sel {
        Sel::Existing(p) => {
            if order.is_empty() {
                pick(0, n_base)
            } else {
                pick_pos(p, order, tr)
            }
        }
        Sel::Absent(s) => {
            let c: Vec<usize> = (0..n_base).filter(|i| !order.contains(i)).collect();
            if c.is_empty() {
                order[pick(s, order.len())]
            } else {
                c[pick(s, c.len())]
            }
        }
        Sel::RemovedBefore(s) => {
            let c: Vec<usize> = tr.removed.iter().copied().filter(|i| *i < n_base && !order.contains(i)).collect();
            if c.is_empty() {
                resolve(Sel::Absent(s), order, n_base, tr)
            } else {
                c[pick(s, c.len())]
            }
        }
    }
}

fn guarded<T>(f: impl FnOnce() -> T) -> Option<T> {
    catch_unwind(AssertUnwindSafe(f)).ok()
}
fn sorted<T: Ord + Clone>(v: &[T]) -> Vec<T> {
    let mut w = v.to_vec();
    w.sort();
    w
}
const UNK: usize = usize::MAX;
/// `envx::new_env` plus: the per-invocation mainnet resource limits (footprint <= 100 entries ...) that
/// soroban-sdk 25 enforces in tests are switched off — one observation frame reads the whole registry
/// (DESIGN §6: resource limits are not C20's subject, only the library's explicit counters are).
fn new_env() -> Env {
    let e = envx::new_env(100, envx::BIG_TTL);
    e.cost_estimate().disable_resource_limits();
    // host diagnostics (event log + backtrace attached to every error) make each refused getter ~100x more
    // expensive; they only enrich error text, which no oracle reads.  `Default` is `DiagnosticLevel::None`.
    if std::env::var("VERIF_DEBUG").is_err() {
        let _ = e.host().set_diagnostic_level(Default::default());
    }
    e
}

// ------------------------------------------------------------------ 1. claim topics & trusted issuers

use stellar_tokens::rwa::claim_topics_and_issuers::{storage as ctis, MAX_CLAIM_TOPICS, MAX_ISSUERS};

const CTI_TOPICS: [u32; 6] = [1, 2, 3, 7, 42, 4_000_000_000];
const CTI_NT: usize = 6;
const CTI_NI: usize = 5;
fn cti_topic_value(i: usize) -> u32 {
    if i < CTI_NT {
        CTI_TOPICS[i]
    } else {
        100 + (i - CTI_NT) as u32
    }
}

/// a topic list argument, resolved against the present topics
#[derive(Clone, Debug, Serialize, Deserialize)]
pub enum TList {
    /// subset of the present topics (bit i = i-th present topic); never empty when a topic exists
    Mask(u16),
    Empty,
    All,
    /// a subset with one element repeated
    Dup(u16, u16),
    /// a subset plus one topic that is not registered
    WithAbsent(u16, u16),
    One(Sel),
}

#[derive(Clone, Debug, Serialize, Deserialize)]
pub enum CtiOp {
    AddTopic(Sel),
    RemoveTopic(Sel),
    AddIssuer(Sel, TList),
    RemoveIssuer(Sel),
    UpdateIssuer(Sel, TList),
}
#[derive(Clone, Debug, Serialize, Deserialize)]
pub struct CtiCase {
    /// capacity scenario: pre-fill with filler topics up to `MAX_CLAIM_TOPICS - d`
    pub fill_topics: Option<u8>,
    /// capacity scenario: pre-fill with filler issuers up to `MAX_ISSUERS - d`
    pub fill_issuers: Option<u8>,
    pub ops: Vec<CtiOp>,
}

fn tlist_strategy() -> BoxedStrategy<TList> {
    prop_oneof![
        8 => any::<u16>().prop_map(TList::Mask),
        1 => Just(TList::Empty),
        2 => Just(TList::All),
        1 => (any::<u16>(), any::<u16>()).prop_map(|(a, b)| TList::Dup(a, b)),
        1 => (any::<u16>(), any::<u16>()).prop_map(|(a, b)| TList::WithAbsent(a, b)),
        2 => sel_strategy(4, 1, 1).prop_map(TList::One),
    ]
    .boxed()
}
fn cti_op_strategy(capacity: bool) -> BoxedStrategy<CtiOp> {
    if capacity {
        prop_oneof![
            5 => sel_strategy(1, 8, 1).prop_map(CtiOp::AddTopic),
            1 => sel_strategy(6, 1, 1).prop_map(CtiOp::RemoveTopic),
            5 => (sel_strategy(1, 8, 1), tlist_strategy()).prop_map(|(s, l)| CtiOp::AddIssuer(s, l)),
            1 => sel_strategy(6, 1, 1).prop_map(CtiOp::RemoveIssuer),
            1 => (sel_strategy(6, 1, 1), tlist_strategy()).prop_map(|(s, l)| CtiOp::UpdateIssuer(s, l)),
        ]
        .boxed()
    } else {
        prop_oneof![
            4 => sel_strategy(1, 5, 2).prop_map(CtiOp::AddTopic),
            3 => sel_strategy(6, 1, 1).prop_map(CtiOp::RemoveTopic),
            5 => (sel_strategy(1, 5, 2), tlist_strategy()).prop_map(|(s, l)| CtiOp::AddIssuer(s, l)),
            3 => sel_strategy(6, 1, 1).prop_map(CtiOp::RemoveIssuer),
            4 => (sel_strategy(7, 1, 1), tlist_strategy()).prop_map(|(s, l)| CtiOp::UpdateIssuer(s, l)),
        ]
        .boxed()
    }
}
fn cti_strategy(_tier: Tier) -> BoxedStrategy<CtiCase> {
    let ordinary = proptest::collection::vec(cti_op_strategy(false), 1..=50).prop_map(|ops| CtiCase { fill_topics: None, fill_issuers: None, ops });
    let fill = prop_oneof![Just((Some(1u8), None)), Just((Some(0u8), None)), Just((Some(2u8), None)), Just((None, Some(1u8))), Just((None, Some(0u8))), Just((None, Some(2u8))), Just((Some(1u8), Some(1u8)))];
    let capacity = (fill, proptest::collection::vec(cti_op_strategy(true), 1..=12)).prop_map(|((ft, fi), ops)| CtiCase { fill_topics: ft, fill_issuers: fi, ops });
    prop_oneof![5 => ordinary, 1 => capacity].boxed()
}

struct CtiX {
    e: Env,
    c: Address,
    op: Address,
    nt: usize,
    issuers: Vec<Address>,
}
impl CtiX {
    fn tidx(&self, v: u32) -> usize {
        (0..self.nt).find(|&i| cti_topic_value(i) == v).unwrap_or(UNK)
    }
    fn iidx(&self, a: &Address) -> usize {
        self.issuers.iter().position(|x| x == a).unwrap_or(UNK)
    }
    fn tvec(&self, l: &[usize]) -> SVec<u32> {
        let mut v = SVec::new(&self.e);
        for i in l {
            v.push_back(cti_topic_value(*i));
        }
        v
    }
}

#[derive(Default, Clone, Debug)]
struct CtiModel {
    topics: BTreeSet<usize>,
    issuers: BTreeMap<usize, BTreeSet<usize>>,
}

#[derive(Clone, Debug)]
enum CtiCall {
    AddTopic(usize),
    RemoveTopic(usize),
    AddIssuer(usize, Vec<usize>),
    RemoveIssuer(usize),
    UpdateIssuer(usize, Vec<usize>),
}
impl CtiCall {
    fn name(&self) -> &'static str {
        match self {
            CtiCall::AddTopic(_) => "add_claim_topic",
            CtiCall::RemoveTopic(_) => "remove_claim_topic",
            CtiCall::AddIssuer(..) => "add_trusted_issuer",
            CtiCall::RemoveIssuer(_) => "remove_trusted_issuer",
            CtiCall::UpdateIssuer(..) => "update_issuer_claim_topics",
        }
    }
}
fn cti_list_reason(m: &CtiModel, l: &[usize]) -> Option<&'static str> {
    if l.is_empty() {
        return Some("empty-topic-list");
    }
    if l.len() > MAX_CLAIM_TOPICS as usize {
        return Some("oversized-topic-list");
    }
    let s: BTreeSet<usize> = l.iter().copied().collect();
    if s.len() != l.len() {
        return Some("duplicate-in-topic-list");
    }
    if !s.iter().all(|t| m.topics.contains(t)) {
        return Some("unknown-topic-in-list");
    }
    None
}
/// Err(reason) = the documented behaviour is to refuse
fn cti_predict(m: &CtiModel, c: &CtiCall) -> Result<(), &'static str> {
    match c {
        CtiCall::AddTopic(t) => {
            if m.topics.contains(t) {
                Err("duplicate")
            } else if m.topics.len() >= MAX_CLAIM_TOPICS as usize {
                Err("limit")
            } else {
                Ok(())
            }
        }
        CtiCall::RemoveTopic(t) => {
            if m.topics.contains(t) {
                Ok(())
            } else {
                Err("absent")
            }
        }
        CtiCall::AddIssuer(i, l) => {
            if let Some(r) = cti_list_reason(m, l) {
                Err(r)
            } else if m.issuers.contains_key(i) {
                Err("duplicate")
            } else if m.issuers.len() >= MAX_ISSUERS as usize {
                Err("limit")
            } else {
                Ok(())
            }
        }
        CtiCall::RemoveIssuer(i) => {
            if m.issuers.contains_key(i) {
                Ok(())
            } else {
                Err("absent")
            }
        }
        CtiCall::UpdateIssuer(i, l) => {
            if let Some(r) = cti_list_reason(m, l) {
                Err(r)
            } else if !m.issuers.contains_key(i) {
                Err("absent")
            } else {
                Ok(())
            }
        }
    }
}
fn cti_at_limit(m: &CtiModel, c: &CtiCall) -> bool {
    match c {
        CtiCall::AddTopic(_) => m.topics.len() + 1 == MAX_CLAIM_TOPICS as usize,
        CtiCall::AddIssuer(..) => m.issuers.len() + 1 == MAX_ISSUERS as usize,
        _ => false,
    }
}
fn cti_apply(m: &mut CtiModel, c: &CtiCall) {
    match c {
        CtiCall::AddTopic(t) => {
            m.topics.insert(*t);
        }
        CtiCall::RemoveTopic(t) => {
            m.topics.remove(t);
            for ts in m.issuers.values_mut() {
                ts.remove(t);
            }
        }
        CtiCall::AddIssuer(i, l) | CtiCall::UpdateIssuer(i, l) => {
            m.issuers.insert(*i, l.iter().copied().collect());
        }
        CtiCall::RemoveIssuer(i) => {
            m.issuers.remove(i);
        }
    }
}
fn cti_invoke(x: &CtiX, c: &CtiCall) -> Result<Val, String> {
    let e = &x.e;
    match c {
        CtiCall::AddTopic(t) => call(e, &x.c, "add_claim_topic", args![e; cti_topic_value(*t), x.op.clone()]),
        CtiCall::RemoveTopic(t) => call(e, &x.c, "remove_claim_topic", args![e; cti_topic_value(*t), x.op.clone()]),
        CtiCall::AddIssuer(i, l) => call(e, &x.c, "add_trusted_issuer", args![e; x.issuers[*i].clone(), x.tvec(l), x.op.clone()]),
        CtiCall::RemoveIssuer(i) => call(e, &x.c, "remove_trusted_issuer", args![e; x.issuers[*i].clone(), x.op.clone()]),
        CtiCall::UpdateIssuer(i, l) => call(e, &x.c, "update_issuer_claim_topics", args![e; x.issuers[*i].clone(), x.tvec(l), x.op.clone()]),
    }
}

/// everything the registry answers, for every element of the universe
#[derive(Clone, Debug, PartialEq)]
struct CtiObs {
    topics_order: Option<Vec<usize>>,
    issuers_order: Option<Vec<usize>>,
    topic_issuers: Vec<Option<Vec<usize>>>,
    issuer_topics: Vec<Option<Vec<usize>>>,
    trusted: Vec<Option<bool>>,
    has: Vec<Vec<Option<bool>>>,
    all: Option<Vec<(usize, Vec<usize>)>>,
}
impl CtiObs {
    /// order-insensitive image used for "a refused call changes nothing"
    fn canon(&self) -> CtiObs {
        let mut c = self.clone();
        c.topics_order = c.topics_order.map(|v| sorted(&v));
        c.issuers_order = c.issuers_order.map(|v| sorted(&v));
        c
    }
}
fn cti_observe(x: &CtiX) -> CtiObs {
    let e = &x.e;
    let ni = x.issuers.len();
    e.as_contract(&x.c, || {
        let conv_i = |v: SVec<Address>| -> Vec<usize> { v.iter().map(|a| x.iidx(&a)).collect() };
        let conv_t = |v: SVec<u32>| -> Vec<usize> { v.iter().map(|t| x.tidx(t)).collect() };
        let topics_order = guarded(|| ctis::get_claim_topics(e)).map(conv_t);
        let issuers_order = guarded(|| ctis::get_trusted_issuers(e)).map(conv_i);
        let topic_issuers = (0..x.nt).map(|t| guarded(|| ctis::get_claim_topic_issuers(e, cti_topic_value(t))).map(|v| sorted(&conv_i(v)))).collect();
        let issuer_topics = (0..ni).map(|i| guarded(|| ctis::get_trusted_issuer_claim_topics(e, &x.issuers[i])).map(|v| sorted(&conv_t(v)))).collect();
        let trusted = (0..ni).map(|i| guarded(|| ctis::is_trusted_issuer(e, &x.issuers[i]))).collect();
        let has = (0..ni).map(|i| (0..x.nt).map(|t| guarded(|| ctis::has_claim_topic(e, &x.issuers[i], cti_topic_value(t)))).collect()).collect();
        let all = guarded(|| ctis::get_claim_topics_and_issuers(e)).map(|m: Map<u32, SVec<Address>>| {
            let mut v: Vec<(usize, Vec<usize>)> = m.iter().map(|(t, is)| (x.tidx(t), sorted(&conv_i(is)))).collect();
            v.sort();
            v
        });
        CtiObs { topics_order, issuers_order, topic_issuers, issuer_topics, trusted, has, all }
    })
}
fn cti_check(o: &CtiObs, m: &CtiModel, f: &str) -> R {
    let sig = |clause: &str| format!("C20/claim_topics_and_issuers.{f}/{clause}");
    let mt: Vec<usize> = m.topics.iter().copied().collect();
    let mi: Vec<usize> = m.issuers.keys().copied().collect();
    ensure!(o.topics_order.as_ref().map(|v| sorted(v)) == Some(mt.clone()), sig("get_claim_topics-mismatch"), "get_claim_topics = {:?}, model {:?}", o.topics_order, mt);
    ensure!(o.issuers_order.as_ref().map(|v| sorted(v)) == Some(mi.clone()), sig("get_trusted_issuers-mismatch"), "get_trusted_issuers = {:?}, model {:?}", o.issuers_order, mi);
    for (t, got) in o.topic_issuers.iter().enumerate() {
        let want: Option<Vec<usize>> = if m.topics.contains(&t) { Some(m.issuers.iter().filter(|(_, ts)| ts.contains(&t)).map(|(i, _)| *i).collect()) } else { None };
        ensure!(*got == want, sig("get_claim_topic_issuers-mismatch"), "get_claim_topic_issuers(topic #{t}) = {:?}, model {:?} (None = refused)", got, want);
    }
    for (i, got) in o.issuer_topics.iter().enumerate() {
        let want: Option<Vec<usize>> = m.issuers.get(&i).map(|ts| ts.iter().copied().collect());
        ensure!(*got == want, sig("get_trusted_issuer_claim_topics-mismatch"), "get_trusted_issuer_claim_topics(issuer #{i}) = {:?}, model {:?} (None = refused)", got, want);
        ensure!(o.trusted[i] == Some(m.issuers.contains_key(&i)), sig("is_trusted_issuer-mismatch"), "is_trusted_issuer(issuer #{i}) = {:?}, model {}", o.trusted[i], m.issuers.contains_key(&i));
        for (t, h) in o.has[i].iter().enumerate() {
            let want = m.issuers.get(&i).map(|ts| ts.contains(&t));
            ensure!(*h == want, sig("has_claim_topic-mismatch"), "has_claim_topic(issuer #{i}, topic #{t}) = {:?}, model {:?} (None = refused)", h, want);
        }
    }
    let want_all: Vec<(usize, Vec<usize>)> = mt.iter().map(|t| (*t, m.issuers.iter().filter(|(_, ts)| ts.contains(t)).map(|(i, _)| *i).collect())).collect();
    ensure!(o.all.as_ref() == Some(&want_all), sig("get_claim_topics_and_issuers-mismatch"), "get_claim_topics_and_issuers = {:?}, model {:?}", o.all, want_all);
    Ok(())
}

fn cti_resolve_list(l: &TList, topics_order: &[usize], nt_base: usize, tr: &Track) -> Vec<usize> {
    let subset = |mask: u16| -> Vec<usize> {
        let mut v: Vec<usize> = topics_order.iter().enumerate().filter(|(k, _)| (mask >> (k % 16)) & 1 == 1).map(|(_, t)| *t).collect();
        if v.is_empty() && !topics_order.is_empty() {
            v.push(topics_order[pick(mask, topics_order.len())]);
        }
        v
    };
    match l {
        TList::Mask(m) => subset(*m),
        TList::Empty => vec![],
        TList::All => topics_order.to_vec(),
        TList::Dup(m, s) => {
            let mut v = subset(*m);
            if !v.is_empty() {
                let d = v[pick(*s, v.len())];
                v.push(d);
            }
            v
        }
        TList::WithAbsent(m, s) => {
            let mut v = subset(*m);
            let a = resolve(Sel::Absent(*s), topics_order, nt_base, tr);
            let at = pick(*s, v.len() + 1);
            v.insert(at, a);
            v
        }
        TList::One(s) => vec![resolve(*s, topics_order, nt_base, tr)],
    }
}

/// outcome bookkeeping shared by the four interpreters
fn outcome_clause(predicted: Result<(), &'static str>, ok: bool, at_limit: bool) -> Option<String> {
    match (predicted, ok) {
        (Ok(()), true) | (Err(_), false) => None,
        (Ok(()), false) => Some(if at_limit { "limit-off-by-one".to_string() } else { "valid-call-refused".to_string() }),
        (Err("limit"), true) => Some("limit-off-by-one".to_string()),
        (Err(r), true) => Some(format!("{r}-accepted")),
    }
}

pub fn run_cti(case: &CtiCase, ctx: &mut Ctx) -> R {
    let e = new_env();
    let c = e.register(Cti, ());
    let op = Address::generate(&e);
    let nt = CTI_NT + if case.fill_topics.is_some() || case.fill_issuers.is_some() { MAX_CLAIM_TOPICS as usize } else { 0 };
    let ni = CTI_NI + if case.fill_issuers.is_some() { MAX_ISSUERS as usize } else { 0 };
    let issuers: Vec<Address> = (0..ni).map(|_| Address::generate(&e)).collect();
    let x = CtiX { e, c, op, nt, issuers };
    let mut m = CtiModel::default();
    let (mut ttr, mut itr) = (Track::default(), Track::default());

    // capacity pre-fill (fillers only, so the base universe stays absent); every add is below the limit and must succeed
    let mut prefill: Vec<CtiCall> = vec![];
    if let Some(d) = case.fill_topics {
        for k in 0..(MAX_CLAIM_TOPICS as usize).saturating_sub(d as usize) {
            prefill.push(CtiCall::AddTopic(CTI_NT + k));
        }
    } else if case.fill_issuers.is_some() {
        prefill.push(CtiCall::AddTopic(CTI_NT));
        prefill.push(CtiCall::AddTopic(CTI_NT + 1));
    }
    if let Some(d) = case.fill_issuers {
        for k in 0..(MAX_ISSUERS as usize).saturating_sub(d as usize) {
            let l = if k % 2 == 0 { vec![CTI_NT] } else { vec![CTI_NT + 1, CTI_NT] };
            prefill.push(CtiCall::AddIssuer(CTI_NI + k, l));
        }
    }
    for pc in &prefill {
        let pred = cti_predict(&m, pc);
        let at_limit = cti_at_limit(&m, pc);
        let r = cti_invoke(&x, pc);
        ctx.op(r.is_ok());
        if let Some(cl) = outcome_clause(pred, r.is_ok(), at_limit) {
            bail!(format!("C20/claim_topics_and_issuers.{}/{cl}", pc.name()), "pre-fill {:?} with {} topics / {} issuers registered: result {:?}", pc, m.topics.len(), m.issuers.len(), r);
        }
        cti_apply(&mut m, pc);
        if at_limit {
            ctx.class("cti:add_at_limit_ok");
        }
    }
    let mut obs = cti_observe(&x);
    cti_check(&obs, &m, "prefill")?;
    if !prefill.is_empty() {
        ctx.class("cti:capacity_case");
    }

    let (mut two_way, mut refused) = (0u32, 0u32);
    for (step, op) in case.ops.iter().enumerate() {
        let to = obs.topics_order.clone().unwrap_or_default();
        let io = obs.issuers_order.clone().unwrap_or_default();
        let cc = match op {
            CtiOp::AddTopic(s) => CtiCall::AddTopic(resolve(*s, &to, CTI_NT, &ttr)),
            CtiOp::RemoveTopic(s) => CtiCall::RemoveTopic(resolve(*s, &to, CTI_NT, &ttr)),
            CtiOp::AddIssuer(s, l) => CtiCall::AddIssuer(resolve(*s, &io, CTI_NI, &itr), cti_resolve_list(l, &to, CTI_NT, &ttr)),
            CtiOp::RemoveIssuer(s) => CtiCall::RemoveIssuer(resolve(*s, &io, CTI_NI, &itr)),
            CtiOp::UpdateIssuer(s, l) => CtiCall::UpdateIssuer(resolve(*s, &io, CTI_NI, &itr), cti_resolve_list(l, &to, CTI_NT, &ttr)),
        };
        let f = cc.name();
        let pred = cti_predict(&m, &cc);
        let at_limit = cti_at_limit(&m, &cc);
        let r = cti_invoke(&x, &cc);
        ctx.op(r.is_ok());
        let obs2 = cti_observe(&x);
        if let Some(cl) = outcome_clause(pred, r.is_ok(), at_limit) {
            bail!(format!("C20/claim_topics_and_issuers.{f}/{cl}"), "step {step} {:?} with {} topics / {} issuers registered: model says {:?}, call returned {:?}", cc, m.topics.len(), m.issuers.len(), pred, r);
        }
        if r.is_err() {
            refused += 1;
            ensure!(obs2.canon() == obs.canon(), format!("C20/claim_topics_and_issuers.{f}/refused-call-changed-state"), "step {step} {:?} was refused but the registry changed: {:?} -> {:?}", cc, obs, obs2);
            match pred {
                Err("duplicate") => ctx.class("cti:duplicate_add_refused"),
                Err("absent") => ctx.class("cti:absent_remove_or_update_refused"),
                Err("limit") => ctx.class("cti:add_over_limit_refused"),
                _ => ctx.class("cti:invalid_list_refused"),
            }
        } else {
            if at_limit {
                ctx.class("cti:add_at_limit_ok");
            }
            match &cc {
                CtiCall::AddTopic(t) => {
                    if ttr.removed.contains(t) {
                        ctx.class("cti:readd_after_removal");
                    }
                }
                CtiCall::AddIssuer(i, _) => {
                    if itr.removed.contains(i) {
                        ctx.class("cti:readd_after_removal");
                    }
                }
                CtiCall::RemoveTopic(t) => {
                    let p = to.iter().position(|q| q == t);
                    if m.issuers.values().any(|ts| ts.contains(t)) {
                        two_way += 1;
                        ctx.class("cti:remove_topic_held_by_issuers");
                        if m.issuers.values().any(|ts| ts.len() == 1 && ts.contains(t)) {
                            ctx.class("cti:issuer_left_without_topics");
                        }
                    }
                    cti_removed_classes(ctx, p, to.len());
                    if ttr.on_removed(*t, p, to.len()) {
                        ctx.class("cti:remove_middle_then_successor");
                    }
                }
                CtiCall::RemoveIssuer(i) => {
                    let p = io.iter().position(|q| q == i);
                    if m.issuers.get(i).map(|ts| !ts.is_empty()).unwrap_or(false) {
                        two_way += 1;
                        ctx.class("cti:remove_issuer_with_topics");
                        let ts = &m.issuers[i];
                        if ts.iter().any(|t| m.issuers.values().filter(|o| o.contains(t)).count() == 1) {
                            ctx.class("cti:last_issuer_of_topic_removed");
                        }
                    }
                    cti_removed_classes(ctx, p, io.len());
                    if itr.on_removed(*i, p, io.len()) {
                        ctx.class("cti:remove_middle_then_successor");
                    }
                }
                CtiCall::UpdateIssuer(i, l) => {
                    let old = m.issuers.get(i).cloned().unwrap_or_default();
                    let new: BTreeSet<usize> = l.iter().copied().collect();
                    if old.difference(&new).next().is_some() && new.difference(&old).next().is_some() {
                        two_way += 1;
                        ctx.class("cti:update_adds_and_drops_topics");
                    }
                }
            }
            cti_apply(&mut m, &cc);
        }
        cti_check(&obs2, &m, f)?;
        obs = obs2;
    }
    if two_way >= 1 && refused >= 1 {
        ctx.nontrivial = true;
        ctx.class("nontrivial_cti");
    }
    Ok(())
}
fn cti_removed_classes(ctx: &mut Ctx, p: Option<usize>, len: usize) {
    match p {
        Some(_) if len == 1 => ctx.class("cti:remove_only"),
        Some(0) => ctx.class("cti:remove_first"),
        Some(p) if p + 1 == len => ctx.class("cti:remove_last"),
        Some(_) => ctx.class("cti:remove_middle"),
        None => {}
    }
}

// ------------------------------------------------------------------ 2. claim-issuer signing keys

use stellar_tokens::rwa::claim_issuer::{self as ci, SigningKey, MAX_KEYS_PER_TOPIC, MAX_REGISTRIES_PER_KEY};

const IK_NK: usize = 6;
const IK_NT: usize = 3;
const IK_NR: usize = 3;
/// (public key bytes, scheme): the same public key under two schemes is two signing keys
fn ik_key(i: usize) -> (Vec<u8>, u32) {
    match i {
        0 => (vec![1u8; 32], 1),
        1 => (vec![1u8; 32], 2),
        2 => (vec![2u8; 32], 1),
        3 => (vec![3u8; 65], 1),
        4 => (vec![3u8; 65], 3),
        5 => (vec![9u8], 1),
        _ => (vec![0xF0, (i - IK_NK) as u8, 7], 1),
    }
}
fn ik_topic(i: usize) -> u32 {
    match i {
        0 => 1,
        1 => 2,
        2 => 77,
        _ => 200 + (i - IK_NT) as u32,
    }
}
type Triple = (usize, usize, usize); // (key, topic, registry) universe indices

#[derive(Clone, Copy, Debug, Serialize, Deserialize, PartialEq)]
pub enum IkSel {
    /// an existing (key, topic, registry) authorization
    Existing(Pos),
    /// key of an existing authorization + a (topic, registry) pair it does not have
    NewPairSameKey(Pos, u16),
    /// key and topic of an existing authorization + another registry
    NewRegSameKeyTopic(Pos, u16),
    /// topic and registry of an existing authorization + another key
    NewKeySameTopic(Pos, u16),
    Absent(u16),
    RemovedBefore(u16),
    /// the key with the most pairs + a pair it does not have (fillers included): capacity probe
    FullestKey(u16),
    /// the topic with the most keys + a key that is not in it (fillers included): capacity probe
    FullestTopic(u16),
}
#[derive(Clone, Debug, Serialize, Deserialize)]
pub enum IkOp {
    Allow(IkSel),
    AllowEmptyKey { scheme: u8, topic: u8, reg: u8 },
    Remove(IkSel),
    /// script the registry mock: answer of `has_claim_topic` for a topic (0 false, 1 true, 2 call fails)
    SetRegistry { reg: u8, topic: u8, answer: u8 },
}
#[derive(Clone, Debug, Serialize, Deserialize)]
pub enum IkCap {
    /// pre-fill one topic with filler keys up to `MAX_KEYS_PER_TOPIC - below`
    KeysPerTopic { below: u8 },
    /// pre-fill one key with (topic, registry) pairs up to `MAX_REGISTRIES_PER_KEY - below`
    PairsPerKey { below: u8 },
}
#[derive(Clone, Debug, Serialize, Deserialize)]
pub struct IkCase {
    pub cap: Option<IkCap>,
    pub ops: Vec<IkOp>,
}

fn ik_sel_strategy(for_allow: bool, capacity: bool) -> BoxedStrategy<IkSel> {
    let p = pos_strategy;
    let u = any::<u16>;
    if capacity {
        prop_oneof![
            6 => u().prop_map(IkSel::FullestKey),
            6 => u().prop_map(IkSel::FullestTopic),
            2 => p().prop_map(IkSel::Existing),
            1 => u().prop_map(IkSel::Absent),
        ]
        .boxed()
    } else if for_allow {
        prop_oneof![
            2 => p().prop_map(IkSel::Existing),
            4 => (p(), u()).prop_map(|(a, b)| IkSel::NewPairSameKey(a, b)),
            3 => (p(), u()).prop_map(|(a, b)| IkSel::NewRegSameKeyTopic(a, b)),
            4 => (p(), u()).prop_map(|(a, b)| IkSel::NewKeySameTopic(a, b)),
            4 => u().prop_map(IkSel::Absent),
            3 => u().prop_map(IkSel::RemovedBefore),
            1 => u().prop_map(IkSel::FullestKey),
        ]
        .boxed()
    } else {
        prop_oneof![
            12 => p().prop_map(IkSel::Existing),
            1 => (p(), u()).prop_map(|(a, b)| IkSel::NewPairSameKey(a, b)),
            1 => (p(), u()).prop_map(|(a, b)| IkSel::NewRegSameKeyTopic(a, b)),
            1 => (p(), u()).prop_map(|(a, b)| IkSel::NewKeySameTopic(a, b)),
            1 => u().prop_map(IkSel::Absent),
            2 => u().prop_map(IkSel::RemovedBefore),
        ]
        .boxed()
    }
}
fn ik_op_strategy(capacity: bool) -> BoxedStrategy<IkOp> {
    let set_reg = (0u8..IK_NR as u8, 0u8..IK_NT as u8, prop_oneof![5 => Just(1u8), 2 => Just(0u8), 1 => Just(2u8)]).prop_map(|(reg, topic, answer)| IkOp::SetRegistry { reg, topic, answer });
    let empty = (1u8..3, 0u8..IK_NT as u8, 0u8..IK_NR as u8).prop_map(|(scheme, topic, reg)| IkOp::AllowEmptyKey { scheme, topic, reg });
    if capacity {
        prop_oneof![
            10 => ik_sel_strategy(true, true).prop_map(IkOp::Allow),
            2 => ik_sel_strategy(false, false).prop_map(IkOp::Remove),
        ]
        .boxed()
    } else {
        prop_oneof![
            12 => ik_sel_strategy(true, false).prop_map(IkOp::Allow),
            8 => ik_sel_strategy(false, false).prop_map(IkOp::Remove),
            1 => empty,
            2 => set_reg,
        ]
        .boxed()
    }
}
fn ik_strategy(_tier: Tier) -> BoxedStrategy<IkCase> {
    let ordinary = proptest::collection::vec(ik_op_strategy(false), 1..=50).prop_map(|ops| IkCase { cap: None, ops });
    let cap = prop_oneof![
        (0u8..=2).prop_map(|below| IkCap::KeysPerTopic { below }),
        (0u8..=3).prop_map(|below| IkCap::PairsPerKey { below }),
    ];
    let capacity = (cap, proptest::collection::vec(ik_op_strategy(true), 1..=10)).prop_map(|(cap, ops)| IkCase { cap: Some(cap), ops });
    prop_oneof![5 => ordinary, 1 => capacity].boxed()
}

struct IkX {
    e: Env,
    c: Address,
    regs: Vec<Address>,
    nk: usize,
    nt: usize,
    keys: Vec<(Bytes, u32)>,
}
impl IkX {
    fn kidx(&self, k: &SigningKey) -> usize {
        self.keys.iter().position(|(pk, s)| *s == k.scheme && *pk == k.public_key).unwrap_or(UNK)
    }
    fn ridx(&self, a: &Address) -> usize {
        self.regs.iter().position(|x| x == a).unwrap_or(UNK)
    }
}
#[derive(Default, Clone, Debug)]
struct IkModel {
    /// insertion-ordered set of authorizations
    triples: Vec<Triple>,
    removed: Vec<Triple>,
    /// scripted registry answers, default 1 (true)
    answers: BTreeMap<(usize, usize), u8>,
}
impl IkModel {
    fn pairs_of(&self, k: usize) -> Vec<(usize, usize)> {
        self.triples.iter().filter(|t| t.0 == k).map(|t| (t.1, t.2)).collect()
    }
    fn keys_of(&self, t: usize) -> BTreeSet<usize> {
        self.triples.iter().filter(|x| x.1 == t).map(|x| x.0).collect()
    }
    fn answer(&self, r: usize, t: usize) -> u8 {
        self.answers.get(&(r, t)).copied().unwrap_or(1)
    }
}

#[derive(Clone, Debug, PartialEq)]
struct IkObs {
    keys_for_topic: Vec<Option<Vec<usize>>>,
    registries: Vec<Option<Vec<usize>>>,
    for_topic: Vec<Vec<Option<bool>>>,
    for_registry: Vec<Vec<Option<bool>>>,
}
fn ik_observe(x: &IkX) -> IkObs {
    let e = &x.e;
    e.as_contract(&x.c, || {
        let keys_for_topic = (0..x.nt).map(|t| guarded(|| ci::get_keys_for_topic(e, ik_topic(t))).map(|v| sorted(&v.iter().map(|k| x.kidx(&k)).collect::<Vec<_>>()))).collect();
        let registries = (0..x.nk)
            .map(|k| {
                let sk = SigningKey { public_key: x.keys[k].0.clone(), scheme: x.keys[k].1 };
                guarded(|| ci::get_registries(e, &sk)).map(|v| sorted(&v.iter().map(|a| x.ridx(&a)).collect::<Vec<_>>()))
            })
            .collect();
        let for_topic = (0..x.nk).map(|k| (0..x.nt).map(|t| guarded(|| ci::is_key_allowed_for_topic(e, &x.keys[k].0, x.keys[k].1, ik_topic(t)))).collect()).collect();
        let for_registry = (0..x.nk).map(|k| (0..IK_NR).map(|r| guarded(|| ci::is_key_allowed_for_registry(e, &x.keys[k].0, x.keys[k].1, &x.regs[r]))).collect()).collect();
        IkObs { keys_for_topic, registries, for_topic, for_registry }
    })
}
fn ik_check(o: &IkObs, m: &IkModel, f: &str) -> R {
    let sig = |clause: &str| format!("C20/claim_issuer.{f}/{clause}");
    for (t, got) in o.keys_for_topic.iter().enumerate() {
        let ks: Vec<usize> = m.keys_of(t).into_iter().collect();
        // documented: NoKeysForTopic when no signing key is assigned to the topic
        let want = if ks.is_empty() { None } else { Some(ks) };
        ensure!(*got == want, sig("get_keys_for_topic-mismatch"), "get_keys_for_topic(topic #{t}) = {:?}, model {:?} (None = refused)", got, want);
    }
    for (k, got) in o.registries.iter().enumerate() {
        let pairs = m.pairs_of(k);
        match got {
            None => ensure!(pairs.is_empty(), sig("get_registries-mismatch"), "get_registries(key #{k}) refused but the model has pairs {:?}", pairs),
            Some(v) => {
                // one registry per (topic, registry) pair, or each distinct registry once: both readings of
                // "all registries associated with a signing key" are accepted; the SET must be exact
                let multi = sorted(&pairs.iter().map(|p| p.1).collect::<Vec<_>>());
                let mut set = multi.clone();
                set.dedup();
                ensure!(!pairs.is_empty() && (*v == multi || *v == set), sig("get_registries-mismatch"), "get_registries(key #{k}) = {:?}, model pairs (topic, registry) {:?}", v, pairs);
            }
        }
        for (t, h) in o.for_topic[k].iter().enumerate() {
            let want = pairs.iter().any(|p| p.0 == t);
            ensure!(*h == Some(want), sig("is_key_allowed_for_topic-mismatch"), "is_key_allowed_for_topic(key #{k}, topic #{t}) = {:?}, model {want} (pairs {:?})", h, pairs);
        }
        for (r, h) in o.for_registry[k].iter().enumerate() {
            let want = pairs.iter().any(|p| p.1 == r);
            ensure!(*h == Some(want), sig("is_key_allowed_for_registry-mismatch"), "is_key_allowed_for_registry(key #{k}, registry #{r}) = {:?}, model {want} (pairs {:?})", h, pairs);
        }
    }
    Ok(())
}

fn ik_resolve(sel: IkSel, m: &IkModel, x: &IkX, tr: &Track) -> Triple {
    let order: Vec<usize> = (0..m.triples.len()).collect();
    let existing = |p: Pos| -> Option<Triple> {
        if m.triples.is_empty() {
            None
        } else {
            Some(m.triples[pick_pos(p, &order, tr)])
        }
    };
    let has = |t: &Triple| m.triples.contains(t);
    let base_absent = |s: u16| -> Triple {
        let c: Vec<Triple> = (0..IK_NK).flat_map(|k| (0..IK_NT).flat_map(move |t| (0..IK_NR).map(move |r| (k, t, r)))).filter(|t| !has(t)).collect();
        if c.is_empty() {
            m.triples[pick(s, m.triples.len())]
        } else {
            c[pick(s, c.len())]
        }
    };
    match sel {
        IkSel::Existing(p) => existing(p).unwrap_or_else(|| base_absent(0)),
        IkSel::NewPairSameKey(p, s) => match existing(p) {
            None => base_absent(s),
            Some((k, _, _)) => {
                let c: Vec<Triple> = (0..IK_NT).flat_map(|t| (0..IK_NR).map(move |r| (k, t, r))).filter(|t| !has(t)).collect();
                if c.is_empty() {
                    (k, 0, 0)
                } else {
                    c[pick(s, c.len())]
                }
            }
        },
        IkSel::NewRegSameKeyTopic(p, s) => match existing(p) {
            None => base_absent(s),
            Some((k, t, r0)) => {
                let c: Vec<Triple> = (0..IK_NR).map(|r| (k, t, r)).filter(|t| !has(t)).collect();
                if c.is_empty() {
                    (k, t, r0)
                } else {
                    c[pick(s, c.len())]
                }
            }
        },
        IkSel::NewKeySameTopic(p, s) => match existing(p) {
            None => base_absent(s),
            Some((k0, t, r)) => {
                let c: Vec<Triple> = (0..IK_NK).map(|k| (k, t, r)).filter(|t| !has(t)).collect();
                if c.is_empty() {
                    (k0, t, r)
                } else {
                    c[pick(s, c.len())]
                }
            }
        },
        IkSel::Absent(s) => base_absent(s),
        IkSel::RemovedBefore(s) => {
            let c: Vec<Triple> = m.removed.iter().copied().filter(|t| !has(t)).collect();
            if c.is_empty() {
                base_absent(s)
            } else {
                c[pick(s, c.len())]
            }
        }
        IkSel::FullestKey(s) => {
            let k = (0..x.nk).max_by_key(|k| (m.pairs_of(*k).len(), usize::MAX - *k)).unwrap_or(0);
            let c: Vec<Triple> = (0..x.nt).flat_map(|t| (0..IK_NR).map(move |r| (k, t, r))).filter(|t| !has(t)).collect();
            if c.is_empty() {
                (k, 0, 0)
            } else {
                c[pick(s, c.len())]
            }
        }
        IkSel::FullestTopic(s) => {
            let t = (0..x.nt).max_by_key(|t| (m.keys_of(*t).len(), usize::MAX - *t)).unwrap_or(0);
            let ks = m.keys_of(t);
            let c: Vec<usize> = (0..x.nk).filter(|k| !ks.contains(k)).collect();
            if c.is_empty() {
                (0, t, 0)
            } else {
                (c[pick(s, c.len())], t, pick(s.rotate_left(5), IK_NR))
            }
        }
    }
}

/// Err(reason) = the documented behaviour is to refuse
fn ik_predict_allow(m: &IkModel, (k, t, r): Triple) -> Result<(), &'static str> {
    if m.answer(r, t) != 1 {
        return Err("issuer-not-allowed-for-topic");
    }
    if m.triples.contains(&(k, t, r)) {
        return Err("duplicate");
    }
    let kt = m.keys_of(t);
    if !kt.contains(&k) && kt.len() >= MAX_KEYS_PER_TOPIC as usize {
        return Err("limit");
    }
    if m.pairs_of(k).len() >= MAX_REGISTRIES_PER_KEY as usize {
        return Err("limit");
    }
    Ok(())
}
fn ik_allow_at_limit(m: &IkModel, (k, t, _): Triple) -> bool {
    let kt = m.keys_of(t);
    m.pairs_of(k).len() + 1 == MAX_REGISTRIES_PER_KEY as usize || (!kt.contains(&k) && kt.len() + 1 == MAX_KEYS_PER_TOPIC as usize)
}
fn ik_invoke(x: &IkX, f: &str, (k, t, r): Triple) -> Result<Val, String> {
    let e = &x.e;
    call(e, &x.c, f, args![e; x.keys[k].0.clone(), x.regs[r].clone(), x.keys[k].1, ik_topic(t)])
}

pub fn run_issuer_keys(case: &IkCase, ctx: &mut Ctx) -> R {
    let e = new_env();
    let c = e.register(IssuerKeys, ());
    let regs: Vec<Address> = (0..IK_NR).map(|_| e.register(RegistryMock, ())).collect();
    let nk = IK_NK + if matches!(case.cap, Some(IkCap::KeysPerTopic { .. })) { MAX_KEYS_PER_TOPIC as usize + 1 } else { 0 };
    let nt = IK_NT + if matches!(case.cap, Some(IkCap::PairsPerKey { .. })) { 5 } else { 0 };
    let keys: Vec<(Bytes, u32)> = (0..nk).map(|i| (Bytes::from_slice(&e, &ik_key(i).0), ik_key(i).1)).collect();
    let x = IkX { e, c, regs, nk, nt, keys };
    let mut m = IkModel::default();
    let mut tr = Track::default();

    // one allow_key step (used by the pre-fill and by the history): outcome vs model, precise limit signature
    fn allow_step(x: &IkX, m: &mut IkModel, tp: Triple, ctx: &mut Ctx, what: &str) -> Result<bool, Violation> {
        let pred = ik_predict_allow(m, tp);
        let at_limit = ik_allow_at_limit(m, tp);
        let npairs = m.pairs_of(tp.0).len();
        let nkeys = m.keys_of(tp.1).len();
        let r = ik_invoke(x, "allow_key", tp);
        ctx.op(r.is_ok());
        if let Some(cl) = outcome_clause(pred, r.is_ok(), at_limit) {
            return Err(violation(
                format!("C20/claim_issuer.allow_key/{cl}"),
                format!(
                    "{what}: allow_key(key #{}, registry #{}, topic #{}) with {npairs} (topic, registry) pairs already on the key (MAX_REGISTRIES_PER_KEY = {}) and {nkeys} keys on the topic (MAX_KEYS_PER_TOPIC = {}): model says {:?}, call returned {:?}",
                    tp.0, tp.2, tp.1, MAX_REGISTRIES_PER_KEY, MAX_KEYS_PER_TOPIC, pred, r
                ),
            ));
        }
        if r.is_ok() {
            if at_limit {
                ctx.class("keys:allow_at_limit_ok");
            }
            m.triples.push(tp);
        }
        Ok(r.is_ok())
    }

    match case.cap {
        Some(IkCap::KeysPerTopic { below }) => {
            for j in 0..(MAX_KEYS_PER_TOPIC as usize).saturating_sub(below as usize) {
                allow_step(&x, &mut m, (IK_NK + j, 0, j % IK_NR), ctx, "pre-fill")?;
            }
            ctx.class("keys:capacity_case");
        }
        Some(IkCap::PairsPerKey { below }) => {
            let all: Vec<Triple> = (0..nt).rev().flat_map(|t| (0..IK_NR).map(move |r| (0usize, t, r))).collect();
            for tp in all.into_iter().take((MAX_REGISTRIES_PER_KEY as usize).saturating_sub(below as usize)) {
                allow_step(&x, &mut m, tp, ctx, "pre-fill")?;
            }
            ctx.class("keys:capacity_case");
        }
        None => {}
    }
    let mut obs = ik_observe(&x);
    ik_check(&obs, &m, "prefill")?;

    let (mut both_dirs, mut refused) = (0u32, 0u32);
    for (step, op) in case.ops.iter().enumerate() {
        let what = format!("step {step} {:?}", op);
        let f: &str;
        let refused_before = refused;
        match op {
            IkOp::SetRegistry { reg, topic, answer } => {
                let (r, t) = (*reg as usize % IK_NR, *topic as usize % IK_NT);
                let res = call(&x.e, &x.regs[r], "set_answer", args![&x.e; ik_topic(t), *answer as u32]);
                ensure!(res.is_ok(), "C20/claim_issuer.setup/registry-mock", "{what}: {:?}", res);
                m.answers.insert((r, t), *answer);
                ctx.class("keys:registry_rescripted");
                f = "set_registry";
            }
            IkOp::AllowEmptyKey { scheme, topic, reg } => {
                f = "allow_key";
                let res = call(&x.e, &x.c, "allow_key", args![&x.e; Bytes::new(&x.e), x.regs[*reg as usize % IK_NR].clone(), *scheme as u32, ik_topic(*topic as usize % IK_NT)]);
                ctx.op(res.is_ok());
                ensure!(res.is_err(), "C20/claim_issuer.allow_key/empty-key-accepted", "{what}: an empty public key was accepted");
                refused += 1;
                ctx.class("keys:empty_key_refused");
            }
            IkOp::Allow(s) => {
                f = "allow_key";
                let tp = ik_resolve(*s, &m, &x, &tr);
                let pred = ik_predict_allow(&m, tp);
                let was_removed = m.removed.contains(&tp);
                let ok = allow_step(&x, &mut m, tp, ctx, &what)?;
                if ok {
                    if was_removed {
                        ctx.class("keys:readd_after_removal");
                    }
                } else {
                    refused += 1;
                    match pred {
                        Err("duplicate") => ctx.class("keys:duplicate_allow_refused"),
                        Err("limit") => ctx.class("keys:allow_over_limit_refused"),
                        _ => ctx.class("keys:registry_says_no_refused"),
                    }
                }
            }
            IkOp::Remove(s) => {
                f = "remove_key";
                let tp = ik_resolve(*s, &m, &x, &tr);
                let p = m.triples.iter().position(|t| *t == tp);
                let res = ik_invoke(&x, "remove_key", tp);
                ctx.op(res.is_ok());
                let pred: Result<(), &'static str> = if p.is_some() { Ok(()) } else { Err("absent") };
                if let Some(cl) = outcome_clause(pred, res.is_ok(), false) {
                    bail!(format!("C20/claim_issuer.remove_key/{cl}"), "{what}: remove_key{:?} (key, topic, registry), model present = {}, call returned {:?}", tp, p.is_some(), res);
                }
                if let Some(p) = p {
                    let len = m.triples.len();
                    m.triples.remove(p);
                    if !m.removed.contains(&tp) {
                        m.removed.push(tp);
                    }
                    let others_same_topic = m.triples.iter().any(|t| t.0 == tp.0 && t.1 == tp.1);
                    let others = m.triples.iter().any(|t| t.0 == tp.0);
                    if !others_same_topic {
                        ctx.class("keys:last_pair_of_topic_removed");
                        if others {
                            both_dirs += 1;
                            ctx.class("keys:key_leaves_topic_keeps_other_pairs");
                        }
                        if m.keys_of(tp.1).is_empty() {
                            ctx.class("keys:topic_emptied");
                        } else {
                            both_dirs += 1;
                        }
                    } else {
                        ctx.class("keys:pair_removed_key_stays_in_topic");
                    }
                    match p {
                        _ if len == 1 => ctx.class("keys:remove_only"),
                        0 => ctx.class("keys:remove_first"),
                        p if p + 1 == len => ctx.class("keys:remove_last"),
                        _ => ctx.class("keys:remove_middle"),
                    }
                    if tr.on_removed(0, Some(p), len) {
                        ctx.class("keys:remove_middle_then_successor");
                    }
                } else {
                    refused += 1;
                    ctx.class("keys:absent_remove_refused");
                }
            }
        }
        let obs2 = ik_observe(&x);
        if refused > refused_before {
            ensure!(obs2 == obs, format!("C20/claim_issuer.{f}/refused-call-changed-state"), "{what}: refused but the registry changed: {:?} -> {:?}", obs, obs2);
        }
        ik_check(&obs2, &m, f)?;
        obs = obs2;
    }
    if both_dirs >= 1 && refused >= 1 {
        ctx.nontrivial = true;
        ctx.class("nontrivial_keys");
    }
    Ok(())
}

// ------------------------------------------------------------------ 3. identity registry storage

use stellar_tokens::rwa::identity_registry_storage::{
    self as irs, CountryData, CountryRelation, IdentityType, IndividualCountryRelation as Ind, OrganizationCountryRelation as Org, MAX_COUNTRY_ENTRIES, MAX_METADATA_ENTRIES,
    MAX_METADATA_STRING_LEN,
};

const IRS_NA: usize = 6;
const IRS_NID: usize = 3;

/// a country-data value (plain data; built inside the Env by `irs_cd`)
#[derive(Clone, Copy, Debug, Serialize, Deserialize, PartialEq)]
pub enum Cd {
    /// one of ten valid entries (all relation variants, some with metadata)
    Pool(u8),
    /// metadata map with `n` entries (valid iff n <= MAX_METADATA_ENTRIES)
    MetaEntries(u8),
    /// one metadata string of length `n` (valid iff n <= MAX_METADATA_STRING_LEN)
    MetaStrLen(u8),
}
fn cd_valid(c: &Cd) -> bool {
    match c {
        Cd::Pool(_) => true,
        Cd::MetaEntries(n) => *n as u32 <= MAX_METADATA_ENTRIES,
        Cd::MetaStrLen(n) => *n as u32 <= MAX_METADATA_STRING_LEN,
    }
}
fn irs_cd(e: &Env, c: &Cd) -> CountryData {
    let meta = |kv: &[(&str, &str)]| -> Option<Map<Symbol, SString>> {
        let mut m = Map::new(e);
        for (k, v) in kv {
            m.set(Symbol::new(e, k), SString::from_str(e, v));
        }
        Some(m)
    };
    match c {
        Cd::Pool(i) => match i % 10 {
            0 => CountryData { country: CountryRelation::Individual(Ind::Residence(840)), metadata: None },
            1 => CountryData { country: CountryRelation::Individual(Ind::Citizenship(276)), metadata: None },
            2 => CountryData { country: CountryRelation::Individual(Ind::SourceOfFunds(792)), metadata: meta(&[("visa", "H1B")]) },
            3 => CountryData { country: CountryRelation::Individual(Ind::TaxResidency(756)), metadata: None },
            4 => CountryData { country: CountryRelation::Individual(Ind::Custom(Symbol::new(e, "Family"), 250)), metadata: None },
            5 => CountryData { country: CountryRelation::Organization(Org::Incorporation(840)), metadata: meta(&[("entity_type", "Corporation")]) },
            6 => CountryData { country: CountryRelation::Organization(Org::OperatingJurisdiction(276)), metadata: None },
            7 => CountryData { country: CountryRelation::Organization(Org::TaxJurisdiction(756)), metadata: None },
            8 => CountryData { country: CountryRelation::Organization(Org::SourceOfFunds(0)), metadata: meta(&[]) },
            _ => CountryData { country: CountryRelation::Organization(Org::Custom(Symbol::new(e, "Subsidiary"), 792)), metadata: meta(&[("a", ""), ("b", "x")]) },
        },
        Cd::MetaEntries(n) => {
            let mut m = Map::new(e);
            for k in 0..*n {
                m.set(Symbol::new(e, &format!("k{k}")), SString::from_str(e, "v"));
            }
            CountryData { country: CountryRelation::Individual(Ind::Residence(*n as u32)), metadata: Some(m) }
        }
        Cd::MetaStrLen(n) => {
            let s: std::string::String = "x".repeat(*n as usize);
            CountryData { country: CountryRelation::Individual(Ind::Citizenship(1000 + *n as u32)), metadata: meta(&[("note", s.as_str())]) }
        }
    }
}
fn cd_strategy() -> BoxedStrategy<Cd> {
    prop_oneof![
        20 => (0u8..10).prop_map(Cd::Pool),
        2 => proptest::sample::select(vec![0u8, 1, 9, 10, 10, 11, 12]).prop_map(Cd::MetaEntries),
        2 => proptest::sample::select(vec![0u8, 99, 100, 100, 101, 102, 200]).prop_map(Cd::MetaStrLen),
    ]
    .boxed()
}

/// a country-data list argument
#[derive(Clone, Debug, Serialize, Deserialize)]
pub enum CList {
    Items(Vec<Cd>),
    /// as many copies of `filler` (and one `head`) as make the account's total `MAX_COUNTRY_ENTRIES + delta`
    ToLimit(i8, Cd, Cd),
}
fn clist_strategy() -> BoxedStrategy<CList> {
    prop_oneof![
        9 => proptest::collection::vec(cd_strategy(), 1..=4).prop_map(CList::Items),
        1 => Just(CList::Items(vec![])),
        3 => (-2i8..=2, cd_strategy(), (0u8..10).prop_map(Cd::Pool)).prop_map(|(d, h, f)| CList::ToLimit(d, h, f)),
    ]
    .boxed()
}

/// account selector (the registry has no enumeration getter: "order" is the model's insertion order)
#[derive(Clone, Copy, Debug, Serialize, Deserialize, PartialEq)]
pub enum ASel {
    /// an account that currently has an identity
    Registered(Pos),
    /// an account without identity that was never recovered
    Free(u16),
    /// an account that was recovered to another one (it carries a `recovered_to` link)
    Recovered(u16),
    /// an account whose identity was removed earlier (no link) and that is free now
    RemovedBefore(u16),
    Any(u16),
}
fn asel_strategy(wreg: u32, wfree: u32, wrec: u32) -> BoxedStrategy<ASel> {
    prop_oneof![
        wreg => pos_strategy().prop_map(ASel::Registered),
        wfree => any::<u16>().prop_map(ASel::Free),
        wrec => any::<u16>().prop_map(ASel::Recovered),
        1 => any::<u16>().prop_map(ASel::RemovedBefore),
        1 => any::<u16>().prop_map(ASel::Any),
    ]
    .boxed()
}
#[derive(Clone, Copy, Debug, Serialize, Deserialize, PartialEq)]
pub enum IdxSel {
    First,
    Last,
    Mid,
    /// the element that moved into the slot of the last deletion
    Swapped,
    OnePast,
    Raw(u8),
}
fn idx_strategy() -> BoxedStrategy<IdxSel> {
    prop_oneof![2 => Just(IdxSel::First), 2 => Just(IdxSel::Last), 3 => Just(IdxSel::Mid), 3 => Just(IdxSel::Swapped), 2 => Just(IdxSel::OnePast), 2 => (0u8..20).prop_map(IdxSel::Raw)].boxed()
}

#[derive(Clone, Debug, Serialize, Deserialize)]
pub enum IrsOp {
    Add { a: ASel, ident: u8, org: bool, list: CList },
    Remove { a: ASel },
    ModifyIdentity { a: ASel, ident: u8 },
    Recover { old: ASel, new: ASel },
    AddCountries { a: ASel, list: CList },
    ModifyCountry { a: ASel, idx: IdxSel, cd: Cd },
    DeleteCountry { a: ASel, idx: IdxSel },
}
#[derive(Clone, Debug, Serialize, Deserialize)]
pub struct IrsCase {
    pub ops: Vec<IrsOp>,
}
fn irs_strategy(_tier: Tier) -> BoxedStrategy<IrsCase> {
    let op = prop_oneof![
        9 => (asel_strategy(1, 6, 2), 0u8..IRS_NID as u8, any::<bool>(), clist_strategy()).prop_map(|(a, ident, org, list)| IrsOp::Add { a, ident, org, list }),
        3 => asel_strategy(6, 1, 1).prop_map(|a| IrsOp::Remove { a }),
        2 => (asel_strategy(6, 1, 1), 0u8..IRS_NID as u8).prop_map(|(a, ident)| IrsOp::ModifyIdentity { a, ident }),
        5 => (asel_strategy(7, 1, 1), asel_strategy(1, 5, 3)).prop_map(|(old, new)| IrsOp::Recover { old, new }),
        5 => (asel_strategy(8, 1, 1), clist_strategy()).prop_map(|(a, list)| IrsOp::AddCountries { a, list }),
        4 => (asel_strategy(8, 1, 1), idx_strategy(), cd_strategy()).prop_map(|(a, idx, cd)| IrsOp::ModifyCountry { a, idx, cd }),
        5 => (asel_strategy(8, 1, 1), idx_strategy()).prop_map(|(a, idx)| IrsOp::DeleteCountry { a, idx }),
    ];
    proptest::collection::vec(op, 1..=50).prop_map(|ops| IrsCase { ops }).boxed()
}

#[derive(Clone, Debug)]
struct IrsEntry {
    ident: usize,
    org: bool,
    /// canonical (XDR) images of the country data, in the enumeration order last observed
    countries: Vec<ScVal>,
}
#[derive(Default, Clone, Debug)]
struct IrsModel {
    reg: BTreeMap<usize, IrsEntry>,
    /// insertion order of the registered accounts (selector support only)
    order: Vec<usize>,
    recovered_to: BTreeMap<usize, usize>,
    removed: BTreeSet<usize>,
}

struct IrsX {
    e: Env,
    c: Address,
    accts: Vec<Address>,
    idents: Vec<Address>,
}
impl IrsX {
    fn aidx(&self, a: &Address) -> usize {
        self.accts.iter().position(|x| x == a).unwrap_or(UNK)
    }
    fn iidx(&self, a: &Address) -> usize {
        self.idents.iter().position(|x| x == a).unwrap_or(UNK)
    }
    fn canon(&self, cd: &CountryData) -> ScVal {
        let v: Val = cd.into_val(&self.e);
        ScVal::try_from_val(&self.e, &v).expect("country data to ScVal")
    }
    fn cvec(&self, l: &[Cd]) -> SVec<CountryData> {
        let mut v = SVec::new(&self.e);
        for c in l {
            v.push_back(irs_cd(&self.e, c));
        }
        v
    }
}

#[derive(Clone, Debug, PartialEq)]
struct IrsAcctObs {
    stored_identity: Option<usize>,
    /// (is organization, countries)
    profile: Option<(bool, Vec<ScVal>)>,
    entries: Option<Vec<ScVal>>,
    /// get_country_data(i) for i in 0..=len(entries) (the last one is "one past")
    by_index: Vec<Option<ScVal>>,
    recovered_to: Option<Option<usize>>,
}
fn irs_observe(x: &IrsX) -> Vec<IrsAcctObs> {
    let e = &x.e;
    e.as_contract(&x.c, || {
        x.accts
            .iter()
            .map(|a| {
                let stored_identity = guarded(|| irs::stored_identity(e, a)).map(|i| x.iidx(&i));
                let profile = guarded(|| irs::get_identity_profile(e, a)).map(|p| (p.identity_type == IdentityType::Organization, p.countries.iter().map(|c| x.canon(&c)).collect::<Vec<_>>()));
                let entries = guarded(|| irs::get_country_data_entries(e, a)).map(|v| v.iter().map(|c| x.canon(&c)).collect::<Vec<_>>());
                let n = entries.as_ref().map(|v| v.len()).unwrap_or(0);
                let by_index = (0..=n as u32).map(|i| guarded(|| irs::get_country_data(e, a, i)).map(|c| x.canon(&c))).collect();
                let recovered_to = guarded(|| irs::get_recovered_to(e, a)).map(|o| o.map(|t| x.aidx(&t)));
                IrsAcctObs { stored_identity, profile, entries, by_index, recovered_to }
            })
            .collect()
    })
}
fn irs_canon(o: &[IrsAcctObs]) -> Vec<IrsAcctObs> {
    o.iter()
        .map(|a| {
            let mut a = a.clone();
            a.profile = a.profile.map(|(t, c)| (t, sorted(&c)));
            a.entries = a.entries.map(|c| sorted(&c));
            a.by_index.sort();
            a
        })
        .collect()
}
fn irs_check(obs: &[IrsAcctObs], m: &IrsModel, f: &str) -> R {
    let sig = |clause: &str| format!("C20/identity_registry_storage.{f}/{clause}");
    for (a, o) in obs.iter().enumerate() {
        let me = m.reg.get(&a);
        ensure!(o.stored_identity == me.map(|x| x.ident), sig("stored_identity-mismatch"), "stored_identity(account #{a}) = {:?}, model {:?} (None = refused)", o.stored_identity, me.map(|x| x.ident));
        let want_c = me.map(|x| sorted(&x.countries));
        let got_p = o.profile.as_ref().map(|(t, c)| (*t, sorted(c)));
        ensure!(got_p == me.map(|x| (x.org, sorted(&x.countries))), sig("get_identity_profile-mismatch"), "get_identity_profile(account #{a}) = {:?}, model {:?}", o.profile, me);
        // documented: empty vector when nothing is stored
        ensure!(o.entries.as_ref().map(|c| sorted(c)) == Some(want_c.clone().unwrap_or_default()), sig("get_country_data_entries-mismatch"), "get_country_data_entries(account #{a}) = {:?}, model {:?}", o.entries, want_c);
        // index access: 0..count enumerates every entry exactly once, one past the end is refused
        let n = want_c.as_ref().map(|c| c.len()).unwrap_or(0);
        ensure!(o.by_index.len() == n + 1, sig("get_country_data-index-range"), "account #{a}: {} indices probed, model count {n}", o.by_index.len());
        let inside: Option<Vec<ScVal>> = o.by_index[..n].iter().cloned().collect();
        ensure!(inside.as_ref().map(|c| sorted(c)) == Some(want_c.clone().unwrap_or_default()), sig("get_country_data-index-bijection"), "get_country_data(account #{a}, 0..{n}) = {:?}, model {:?}", &o.by_index[..n], want_c);
        ensure!(o.by_index[n].is_none(), sig("get_country_data-one-past-accepted"), "get_country_data(account #{a}, {n}) answered {:?} although the account has {n} entries", o.by_index[n]);
        ensure!(o.recovered_to == Some(m.recovered_to.get(&a).copied()), sig("get_recovered_to-mismatch"), "get_recovered_to(account #{a}) = {:?}, model {:?}", o.recovered_to, m.recovered_to.get(&a));
    }
    Ok(())
}

fn irs_resolve_acct(s: ASel, m: &IrsModel, tr: &Track) -> usize {
    let choose = |c: Vec<usize>, k: u16| -> Option<usize> {
        if c.is_empty() {
            None
        } else {
            Some(c[pick(k, c.len())])
        }
    };
    let free = |k: u16| choose((0..IRS_NA).filter(|a| !m.reg.contains_key(a) && !m.recovered_to.contains_key(a)).collect(), k);
    match s {
        ASel::Registered(p) => {
            if m.order.is_empty() {
                free(0).unwrap_or(0)
            } else {
                pick_pos(p, &m.order, tr)
            }
        }
        ASel::Free(k) => free(k).unwrap_or_else(|| pick(k, IRS_NA)),
        ASel::Recovered(k) => choose(m.recovered_to.keys().copied().collect(), k).or_else(|| free(k)).unwrap_or_else(|| pick(k, IRS_NA)),
        ASel::RemovedBefore(k) => choose(m.removed.iter().copied().filter(|a| !m.reg.contains_key(a) && !m.recovered_to.contains_key(a)).collect(), k).or_else(|| free(k)).unwrap_or_else(|| pick(k, IRS_NA)),
        ASel::Any(k) => pick(k, IRS_NA),
    }
}
fn irs_resolve_list(l: &CList, current: usize) -> Vec<Cd> {
    match l {
        CList::Items(v) => v.clone(),
        CList::ToLimit(d, head, filler) => {
            let n = (MAX_COUNTRY_ENTRIES as i64 + *d as i64 - current as i64).max(1) as usize;
            let mut v = vec![*filler; n];
            v[0] = *head;
            v
        }
    }
}
fn irs_resolve_idx(s: IdxSel, count: usize, swapped: Option<usize>) -> u32 {
    (match s {
        IdxSel::First => 0,
        IdxSel::Last => count.saturating_sub(1),
        IdxSel::Mid => count / 2,
        IdxSel::Swapped => swapped.filter(|p| *p < count).unwrap_or(count / 2),
        IdxSel::OnePast => count,
        IdxSel::Raw(k) => k as usize,
    }) as u32
}

/// model effect of a call, applied only when the call succeeded
enum IrsEff {
    Add { a: usize, ident: usize, org: bool, countries: Vec<ScVal> },
    Remove { a: usize },
    ModifyIdentity { a: usize, ident: usize },
    Recover { old: usize, new: usize },
    AddCountries { a: usize, add: Vec<ScVal> },
    ModifyCountry { a: usize, i: usize, cv: ScVal },
    DeleteCountry { a: usize, i: usize, cur: usize },
}

pub fn run_irs(case: &IrsCase, ctx: &mut Ctx) -> R {
    let e = new_env();
    let c = e.register(Irs, ());
    let accts: Vec<Address> = (0..IRS_NA).map(|_| Address::generate(&e)).collect();
    let idents: Vec<Address> = (0..IRS_NID).map(|_| Address::generate(&e)).collect();
    let x = IrsX { e, c, accts, idents };
    let e = &x.e;
    let mut m = IrsModel::default();
    let mut tr = Track::default();
    let mut obs = irs_observe(&x);
    irs_check(&obs, &m, "initial")?;
    // per-account: slot of the last country deletion (IdxSel::Swapped) and whether it was a middle slot
    let mut del_slot: BTreeMap<usize, (usize, bool)> = BTreeMap::new();
    let (mut recovered_ok, mut recovered_refusals, mut refused) = (0u32, 0u32, 0u32);

    for (step, op) in case.ops.iter().enumerate() {
        let what = format!("step {step} {:?}", op);
        let (f, res, pred, at_limit): (&str, Result<Val, String>, Result<(), &'static str>, bool);
        let effect: IrsEff;
        let list_reason = |l: &[Cd]| -> Option<&'static str> {
            if l.is_empty() {
                Some("empty-country-list")
            } else if !l.iter().all(cd_valid) {
                Some("invalid-metadata")
            } else {
                None
            }
        };
        match op {
            IrsOp::Add { a, ident, org, list } => {
                f = "add_identity";
                let a = irs_resolve_acct(*a, &m, &tr);
                let l = irs_resolve_list(list, 0);
                let ident = *ident as usize % IRS_NID;
                pred = if m.recovered_to.contains_key(&a) {
                    Err("recovered-account")
                } else if m.reg.contains_key(&a) {
                    Err("duplicate")
                } else if let Some(r) = list_reason(&l) {
                    Err(r)
                } else if l.len() > MAX_COUNTRY_ENTRIES as usize {
                    Err("limit")
                } else {
                    Ok(())
                };
                at_limit = l.len() == MAX_COUNTRY_ENTRIES as usize;
                let ty = if *org { IdentityType::Organization } else { IdentityType::Individual };
                res = call(e, &x.c, f, args![e; x.accts[a].clone(), x.idents[ident].clone(), ty, x.cvec(&l)]);
                let countries: Vec<ScVal> = l.iter().map(|c| x.canon(&irs_cd(e, c))).collect();
                effect = IrsEff::Add { a, ident, org: *org, countries };
            }
            IrsOp::Remove { a } => {
                f = "remove_identity";
                let a = irs_resolve_acct(*a, &m, &tr);
                pred = if m.reg.contains_key(&a) { Ok(()) } else { Err("absent") };
                at_limit = false;
                res = call(e, &x.c, f, args![e; x.accts[a].clone()]);
                effect = IrsEff::Remove { a };
            }
            IrsOp::ModifyIdentity { a, ident } => {
                f = "modify_identity";
                let a = irs_resolve_acct(*a, &m, &tr);
                let ident = *ident as usize % IRS_NID;
                pred = if m.reg.contains_key(&a) { Ok(()) } else { Err("absent") };
                at_limit = false;
                res = call(e, &x.c, f, args![e; x.accts[a].clone(), x.idents[ident].clone()]);
                effect = IrsEff::ModifyIdentity { a, ident };
            }
            IrsOp::Recover { old, new } => {
                f = "recover_identity";
                let old = irs_resolve_acct(*old, &m, &tr);
                let new = irs_resolve_acct(*new, &m, &tr);
                pred = if !m.reg.contains_key(&old) {
                    Err("absent")
                } else if m.recovered_to.contains_key(&new) {
                    Err("recovered-account")
                } else if m.reg.contains_key(&new) {
                    Err("duplicate")
                } else {
                    Ok(())
                };
                at_limit = false;
                res = call(e, &x.c, f, args![e; x.accts[old].clone(), x.accts[new].clone()]);
                effect = IrsEff::Recover { old, new };
            }
            IrsOp::AddCountries { a, list } => {
                f = "add_country_data_entries";
                let a = irs_resolve_acct(*a, &m, &tr);
                let cur = m.reg.get(&a).map(|x| x.countries.len()).unwrap_or(0);
                let l = irs_resolve_list(list, cur);
                pred = if let Some(r) = list_reason(&l) {
                    Err(r)
                } else if !m.reg.contains_key(&a) {
                    Err("absent")
                } else if cur + l.len() > MAX_COUNTRY_ENTRIES as usize {
                    Err("limit")
                } else {
                    Ok(())
                };
                at_limit = cur + l.len() == MAX_COUNTRY_ENTRIES as usize;
                res = call(e, &x.c, f, args![e; x.accts[a].clone(), x.cvec(&l)]);
                let add: Vec<ScVal> = l.iter().map(|c| x.canon(&irs_cd(e, c))).collect();
                effect = IrsEff::AddCountries { a, add };
            }
            IrsOp::ModifyCountry { a, idx, cd } => {
                f = "modify_country_data";
                let a = irs_resolve_acct(*a, &m, &tr);
                let cur = m.reg.get(&a).map(|x| x.countries.len()).unwrap_or(0);
                let i = irs_resolve_idx(*idx, cur, del_slot.get(&a).map(|s| s.0));
                pred = if !cd_valid(cd) {
                    Err("invalid-metadata")
                } else if !m.reg.contains_key(&a) {
                    Err("absent")
                } else if i as usize >= cur {
                    Err("index-out-of-range")
                } else {
                    Ok(())
                };
                at_limit = false;
                let v = irs_cd(e, cd);
                let cv = x.canon(&v);
                res = call(e, &x.c, f, args![e; x.accts[a].clone(), i, v]);
                effect = IrsEff::ModifyCountry { a, i: i as usize, cv };
            }
            IrsOp::DeleteCountry { a, idx } => {
                f = "delete_country_data";
                let a = irs_resolve_acct(*a, &m, &tr);
                let cur = m.reg.get(&a).map(|x| x.countries.len()).unwrap_or(0);
                let i = irs_resolve_idx(*idx, cur, del_slot.get(&a).map(|s| s.0));
                pred = if !m.reg.contains_key(&a) {
                    Err("absent")
                } else if i as usize >= cur {
                    Err("index-out-of-range")
                } else if cur == 1 {
                    Err("last-country-entry")
                } else {
                    Ok(())
                };
                at_limit = false;
                res = call(e, &x.c, f, args![e; x.accts[a].clone(), i]);
                effect = IrsEff::DeleteCountry { a, i: i as usize, cur };
            }
        }
        ctx.op(res.is_ok());
        let obs2 = irs_observe(&x);
        if let Some(cl) = outcome_clause(pred, res.is_ok(), at_limit) {
            let cl = match (f, cl.as_str()) {
                ("add_identity", "recovered-account-accepted") => "recovered-account-registered".to_string(),
                ("recover_identity", "recovered-account-accepted") => "recovered-into-recovered-account".to_string(),
                _ => cl,
            };
            bail!(format!("C20/identity_registry_storage.{f}/{cl}"), "{what}: model says {:?}, call returned {:?}; model before the call: registered {:?}, recovered_to {:?}", pred, res, m.reg.keys().collect::<Vec<_>>(), m.recovered_to);
        }
        if res.is_err() {
            refused += 1;
            ensure!(irs_canon(&obs2) == irs_canon(&obs), format!("C20/identity_registry_storage.{f}/refused-call-changed-state"), "{what}: refused but the registry changed: {:?} -> {:?}", obs, obs2);
            match pred {
                Err("recovered-account") => {
                    recovered_refusals += 1;
                    ctx.class(if f == "add_identity" { "irs:add_on_recovered_refused" } else { "irs:recover_into_recovered_refused" });
                }
                Err("duplicate") => ctx.class("irs:duplicate_refused"),
                Err("absent") => ctx.class("irs:absent_refused"),
                Err("limit") => ctx.class("irs:country_over_limit_refused"),
                Err("invalid-metadata") => ctx.class("irs:invalid_metadata_refused"),
                Err("last-country-entry") => ctx.class("irs:delete_last_country_refused"),
                _ => ctx.class("irs:other_refused"),
            }
        } else {
            match effect {
                IrsEff::Add { a, ident, org, countries } => {
                    if m.removed.contains(&a) {
                        ctx.class("irs:readd_after_removal");
                    }
                    m.reg.insert(a, IrsEntry { ident, org, countries });
                    m.order.push(a);
                }
                IrsEff::Remove { a } => {
                    let p = m.order.iter().position(|q| *q == a);
                    let len = m.order.len();
                    m.reg.remove(&a);
                    m.order.retain(|q| *q != a);
                    m.removed.insert(a);
                    del_slot.remove(&a);
                    match p {
                        Some(_) if len == 1 => ctx.class("irs:remove_only"),
                        Some(0) => ctx.class("irs:remove_first"),
                        Some(p) if p + 1 == len => ctx.class("irs:remove_last"),
                        _ => ctx.class("irs:remove_middle"),
                    }
                    if tr.on_removed(a, p, len) {
                        ctx.class("irs:remove_middle_then_successor");
                    }
                }
                IrsEff::ModifyIdentity { a, ident } => {
                    m.reg.get_mut(&a).unwrap().ident = ident;
                }
                IrsEff::Recover { old, new } => {
                    let ent = m.reg.remove(&old).unwrap();
                    m.reg.insert(new, ent);
                    for q in m.order.iter_mut() {
                        if *q == old {
                            *q = new;
                        }
                    }
                    if let Some(s) = del_slot.remove(&old) {
                        del_slot.insert(new, s);
                    }
                    if m.recovered_to.values().any(|t| *t == old) {
                        ctx.class("irs:chained_recovery");
                    }
                    m.recovered_to.insert(old, new);
                }
                IrsEff::AddCountries { a, add } => {
                    m.reg.get_mut(&a).unwrap().countries.extend(add);
                }
                IrsEff::ModifyCountry { a, i, cv } => {
                    m.reg.get_mut(&a).unwrap().countries[i] = cv;
                }
                IrsEff::DeleteCountry { a, i, cur } => {
                    m.reg.get_mut(&a).unwrap().countries.remove(i);
                    if let Some((slot, true)) = del_slot.get(&a) {
                        if *slot == i {
                            ctx.class("irs:delete_middle_then_successor");
                        }
                    }
                    del_slot.insert(a, (i, i > 0 && i + 1 < cur));
                    match i {
                        0 => ctx.class("irs:delete_first_country"),
                        i if i + 1 == cur => ctx.class("irs:delete_last_index_country"),
                        _ => ctx.class("irs:delete_middle_country"),
                    }
                }
            }
            if at_limit {
                ctx.class("irs:country_at_limit_ok");
            }
            if f == "recover_identity" {
                recovered_ok += 1;
                ctx.class("irs:recovery_ok");
            }
        }
        // compare as multisets, then adopt the observed enumeration order (order is not asserted)
        irs_check(&obs2, &m, f)?;
        for (a, o) in obs2.iter().enumerate() {
            if let (Some(ent), Some(seen)) = (m.reg.get_mut(&a), o.entries.as_ref()) {
                ent.countries = seen.clone();
            }
        }
        obs = obs2;
    }
    if recovered_ok >= 1 && recovered_refusals >= 1 && refused >= 2 {
        ctx.nontrivial = true;
        ctx.class("nontrivial_irs");
    }
    Ok(())
}

// ------------------------------------------------------------------ 4. identity claims

use sha3::{Digest, Keccak256};
use soroban_sdk::xdr::ToXdr;
use stellar_tokens::rwa::identity_claims::{self as ic, Claim};

const CL_NI: usize = 5;
const CL_NT: usize = 3;
const CL_TOPICS: [u32; CL_NT] = [1, 1000, u32::MAX];
/// slot = issuer * CL_NT + topic: the (issuer, topic) pairs are the keys of the claim map
const CL_SLOTS: usize = CL_NI * CL_NT;

#[derive(Clone, Copy, Debug, Serialize, Deserialize, PartialEq, Eq, PartialOrd, Ord)]
pub struct ClaimBody {
    pub scheme: u8,
    pub sig: u8,
    pub data: u8,
    pub uri: u8,
}
#[derive(Clone, Debug, Serialize, Deserialize)]
pub enum ClOp {
    /// add (slot absent) or update in place (slot present)
    Add { slot: Sel, body: ClaimBody },
    /// re-add an existing claim with exactly the stored content
    ReAddSame { slot: Pos },
    Remove { slot: Sel },
    /// remove by an id that no (issuer, topic) of the universe hashes to
    RemoveUnknown(u8),
    /// script the issuer mock: `is_claim_valid` for a topic passes / panics
    SetValid { issuer: u8, topic: u8, valid: bool },
}
#[derive(Clone, Debug, Serialize, Deserialize)]
pub struct ClCase {
    pub ops: Vec<ClOp>,
}
fn cl_strategy(_tier: Tier) -> BoxedStrategy<ClCase> {
    let body = (0u8..3, 0u8..4, 0u8..4, 0u8..3).prop_map(|(scheme, sig, data, uri)| ClaimBody { scheme, sig, data, uri });
    let op = prop_oneof![
        10 => (sel_strategy(3, 5, 2), body).prop_map(|(slot, body)| ClOp::Add { slot, body }),
        1 => pos_strategy().prop_map(|slot| ClOp::ReAddSame { slot }),
        6 => sel_strategy(8, 1, 2).prop_map(|slot| ClOp::Remove { slot }),
        1 => any::<u8>().prop_map(ClOp::RemoveUnknown),
        2 => (0u8..CL_NI as u8, 0u8..CL_NT as u8, proptest::bool::weighted(0.6)).prop_map(|(issuer, topic, valid)| ClOp::SetValid { issuer, topic, valid }),
    ];
    proptest::collection::vec(op, 1..=50).prop_map(|ops| ClCase { ops }).boxed()
}

struct ClX {
    e: Env,
    c: Address,
    issuers: Vec<Address>,
    /// independently computed claim ids: keccak256(issuer XDR || topic big-endian), per slot
    ids: Vec<[u8; 32]>,
}
impl ClX {
    fn id(&self, slot: usize) -> BytesN<32> {
        BytesN::from_array(&self.e, &self.ids[slot])
    }
    fn slot_of(&self, id: &BytesN<32>) -> usize {
        let a = id.to_array();
        self.ids.iter().position(|x| *x == a).unwrap_or(UNK)
    }
    fn claim(&self, slot: usize, b: &ClaimBody) -> Claim {
        let e = &self.e;
        let bytes = |k: u8, salt: u8| -> Bytes {
            match k {
                0 => Bytes::new(e),
                1 => Bytes::from_slice(e, &[salt, 1, 2, 3]),
                2 => Bytes::from_slice(e, &[salt; 64]),
                _ => Bytes::from_slice(e, &[0xAB; 96]),
            }
        };
        let uri = match b.uri {
            0 => "",
            1 => "https://example.com",
            _ => "ipfs://bafybeigdyrzt5sfp7udm7hu76uh7y26nf3efuylqabf3oclgtqy55fbzdi",
        };
        Claim { topic: CL_TOPICS[slot % CL_NT], scheme: b.scheme as u32 + 100, issuer: self.issuers[slot / CL_NT].clone(), signature: bytes(b.sig, 0x51), data: bytes(b.data, 0xDA), uri: SString::from_str(e, uri) }
    }
}

#[derive(Clone, Debug, PartialEq)]
struct ClObs {
    /// get_claim per slot (None = refused)
    claims: Vec<Option<Claim>>,
    unknown_id: Option<Claim>,
    /// get_claim_ids_by_topic per topic, as slots in enumeration order
    by_topic: Vec<Option<Vec<usize>>>,
    other_topic: Option<Vec<usize>>,
}
fn cl_observe(x: &ClX) -> ClObs {
    let e = &x.e;
    e.as_contract(&x.c, || {
        let claims = (0..CL_SLOTS).map(|s| guarded(|| ic::get_claim(e, &x.id(s)))).collect();
        let unknown_id = guarded(|| ic::get_claim(e, &BytesN::from_array(e, &[0x77; 32])));
        let conv = |v: SVec<BytesN<32>>| -> Vec<usize> { v.iter().map(|id| x.slot_of(&id)).collect() };
        let by_topic = CL_TOPICS.iter().map(|t| guarded(|| ic::get_claim_ids_by_topic(e, *t)).map(conv)).collect();
        let other_topic = guarded(|| ic::get_claim_ids_by_topic(e, 31337)).map(conv);
        ClObs { claims, unknown_id, by_topic, other_topic }
    })
}
fn cl_canon(o: &ClObs) -> (Vec<Option<Claim>>, bool, Vec<Option<Vec<usize>>>, Option<Vec<usize>>) {
    (o.claims.clone(), o.unknown_id.is_some(), o.by_topic.iter().map(|v| v.as_ref().map(|v| sorted(v))).collect(), o.other_topic.clone())
}
fn cl_check(o: &ClObs, m: &BTreeMap<usize, ClaimBody>, x: &ClX, f: &str) -> R {
    let sig = |clause: &str| format!("C20/identity_claims.{f}/{clause}");
    for s in 0..CL_SLOTS {
        let want = m.get(&s).map(|b| x.claim(s, b));
        ensure!(o.claims[s] == want, sig("get_claim-mismatch"), "get_claim(id of issuer #{}, topic #{}) = {:?}, model {:?} (None = refused)", s / CL_NT, s % CL_NT, o.claims[s], want);
    }
    ensure!(o.unknown_id.is_none(), sig("get_claim-unknown-id-answered"), "get_claim(0x77..77) = {:?}", o.unknown_id);
    for t in 0..CL_NT {
        let want: Vec<usize> = m.keys().copied().filter(|s| s % CL_NT == t).collect();
        // every id exactly once; documented: empty vector for a topic without claims
        ensure!(o.by_topic[t].as_ref().map(|v| sorted(v)) == Some(want.clone()), sig("get_claim_ids_by_topic-mismatch"), "get_claim_ids_by_topic(topic #{t}) = {:?} (as issuer*{CL_NT}+topic slots), model {:?}", o.by_topic[t], want);
    }
    ensure!(o.other_topic == Some(vec![]), sig("get_claim_ids_by_topic-mismatch"), "get_claim_ids_by_topic(31337) = {:?}, model []", o.other_topic);
    Ok(())
}

pub fn run_claims(case: &ClCase, ctx: &mut Ctx) -> R {
    let e = new_env();
    let c = e.register(Ident, ());
    let issuers: Vec<Address> = (0..CL_NI).map(|_| e.register(IssuerMock, ())).collect();
    let ids: Vec<[u8; 32]> = (0..CL_SLOTS)
        .map(|s| {
            let mut h = Keccak256::new();
            let xdr: Vec<u8> = issuers[s / CL_NT].clone().to_xdr(&e).iter().collect();
            h.update(&xdr);
            h.update(CL_TOPICS[s % CL_NT].to_be_bytes());
            h.finalize().into()
        })
        .collect();
    let x = ClX { e, c, issuers, ids };
    let e = &x.e;
    let mut m: BTreeMap<usize, ClaimBody> = BTreeMap::new();
    let mut invalid: BTreeSet<(usize, usize)> = BTreeSet::new();
    let mut tr = Track::default();
    let mut obs = cl_observe(&x);
    cl_check(&obs, &m, &x, "initial")?;
    let (mut updated, mut last_of_topic, mut refused, mut shared_topic) = (0u32, 0u32, 0u32, false);

    for (step, op) in case.ops.iter().enumerate() {
        let what = format!("step {step} {:?}", op);
        // enumeration order of the present claims: the per-topic id lists, concatenated
        let order: Vec<usize> = obs.by_topic.iter().flat_map(|v| v.clone().unwrap_or_default()).filter(|s| *s != UNK).collect();
        let f: &str;
        let was_refused;
        match op {
            ClOp::SetValid { issuer, topic, valid } => {
                f = "set_valid";
                let (i, t) = (*issuer as usize % CL_NI, *topic as usize % CL_NT);
                let r = call(e, &x.issuers[i], "set_valid", args![e; CL_TOPICS[t], *valid]);
                ensure!(r.is_ok(), "C20/identity_claims.setup/issuer-mock", "{what}: {:?}", r);
                if *valid {
                    invalid.remove(&(i, t));
                } else {
                    invalid.insert((i, t));
                }
                was_refused = false;
            }
            ClOp::Add { .. } | ClOp::ReAddSame { .. } => {
                f = "add_claim";
                let (slot, body) = match op {
                    ClOp::Add { slot, body } => (resolve(*slot, &order, CL_SLOTS, &tr), *body),
                    ClOp::ReAddSame { slot } => {
                        let s = resolve(Sel::Existing(*slot), &order, CL_SLOTS, &tr);
                        (s, m.get(&s).copied().unwrap_or(ClaimBody { scheme: 0, sig: 1, data: 1, uri: 1 }))
                    }
                    _ => unreachable!(),
                };
                let cl = x.claim(slot, &body);
                let pred: Result<(), &'static str> = if invalid.contains(&(slot / CL_NT, slot % CL_NT)) { Err("issuer-rejects-claim") } else { Ok(()) };
                let r = envx::call_t::<BytesN<32>>(e, &x.c, f, args![e; cl.topic, cl.scheme, cl.issuer.clone(), cl.signature.clone(), cl.data.clone(), cl.uri.clone()]);
                ctx.op(r.is_ok());
                if let Some(clause) = outcome_clause(pred, r.is_ok(), false) {
                    bail!(format!("C20/identity_claims.add_claim/{clause}"), "{what}: add_claim(issuer #{}, topic #{}) model says {:?}, call returned {:?}", slot / CL_NT, slot % CL_NT, pred, r.as_ref().map(|_| "id"));
                }
                match r {
                    Ok(id) => {
                        ensure!(id.to_array() == x.ids[slot], "C20/identity_claims.add_claim/claim-id-not-keccak-issuer-topic", "{what}: returned id {:?}, keccak256(issuer || topic) = {:?}", id.to_array(), x.ids[slot]);
                        match m.get(&slot) {
                            Some(old) if *old != body => {
                                updated += 1;
                                ctx.class("claims:update_in_place");
                            }
                            Some(_) => ctx.class("claims:readd_identical"),
                            None => {
                                ctx.class("claims:add_new");
                                if tr.removed.contains(&slot) {
                                    ctx.class("claims:readd_after_removal");
                                }
                                if m.keys().any(|s| s % CL_NT == slot % CL_NT) {
                                    shared_topic = true;
                                }
                            }
                        }
                        m.insert(slot, body);
                        was_refused = false;
                    }
                    Err(_) => {
                        ctx.class("claims:issuer_rejects_refused");
                        was_refused = true;
                    }
                }
            }
            ClOp::Remove { .. } | ClOp::RemoveUnknown(_) => {
                f = "remove_claim";
                let (slot, id) = match op {
                    ClOp::Remove { slot } => {
                        let s = resolve(*slot, &order, CL_SLOTS, &tr);
                        (Some(s), x.id(s))
                    }
                    ClOp::RemoveUnknown(k) => (None, BytesN::from_array(e, &[*k; 32])),
                    _ => unreachable!(),
                };
                let present = slot.map(|s| m.contains_key(&s)).unwrap_or(false);
                let pred: Result<(), &'static str> = if present { Ok(()) } else { Err("absent") };
                let r = call(e, &x.c, f, args![e; id]);
                ctx.op(r.is_ok());
                if let Some(clause) = outcome_clause(pred, r.is_ok(), false) {
                    bail!(format!("C20/identity_claims.remove_claim/{clause}"), "{what}: remove_claim(slot {:?}) model present = {present}, call returned {:?}", slot, r);
                }
                if present {
                    let s = slot.unwrap();
                    m.remove(&s);
                    let t = s % CL_NT;
                    let tl = obs.by_topic[t].clone().unwrap_or_default();
                    let pt = tl.iter().position(|q| *q == s);
                    if m.keys().all(|q| q % CL_NT != t) {
                        last_of_topic += 1;
                        ctx.class("claims:last_claim_of_topic_removed");
                    }
                    match pt {
                        Some(_) if tl.len() == 1 => ctx.class("claims:remove_only_of_topic"),
                        Some(0) => ctx.class("claims:remove_first_of_topic"),
                        Some(p) if p + 1 == tl.len() => ctx.class("claims:remove_last_of_topic"),
                        _ => ctx.class("claims:remove_middle_of_topic"),
                    }
                    // Track works on the concatenated order; "middle" is judged inside the topic's own list
                    let p = order.iter().position(|q| *q == s);
                    let hit = tr.on_removed(s, p, order.len());
                    if !matches!(pt, Some(q) if q > 0 && q + 1 < tl.len()) {
                        tr.mid_pos = None;
                    }
                    if hit {
                        ctx.class("claims:remove_middle_then_successor");
                    }
                    was_refused = false;
                } else {
                    ctx.class("claims:absent_remove_refused");
                    was_refused = true;
                }
            }
        }
        let obs2 = cl_observe(&x);
        if was_refused {
            refused += 1;
            ensure!(cl_canon(&obs2) == cl_canon(&obs), format!("C20/identity_claims.{f}/refused-call-changed-state"), "{what}: refused but the claim store changed: {:?} -> {:?}", obs, obs2);
        }
        cl_check(&obs2, &m, &x, f)?;
        obs = obs2;
    }
    if updated >= 1 && last_of_topic >= 1 && shared_topic && refused >= 1 {
        ctx.nontrivial = true;
        ctx.class("nontrivial_claims");
    }
    Ok(())
}

// ------------------------------------------------------------------ property

pub fn property() -> Property {
    let mut subs: Vec<Box<dyn SubCheck>> = vec![
        gen_sub::<CtiCase>("cti", 400, 6000, cti_strategy, run_cti),
        gen_sub::<IkCase>("issuer-keys", 400, 6000, ik_strategy, run_issuer_keys),
        gen_sub::<IrsCase>("irs", 400, 6000, irs_strategy, run_irs),
        gen_sub::<ClCase>("claims", 400, 6000, cl_strategy, run_claims),
    ];
    subs.extend(super::c20b::subs());
    let mut p = Property {
        id: "C20",
        rule: "one sub-check per registry; case = history of <= 50 add / remove / update / batch operations over a universe of 4-8 keys chosen by state-relative selectors \
               (Existing(first|last|element now in the slot of the last removal|only-or-middle|i), Absent, RemovedBefore), 1 case in 6 a capacity scenario that pre-fills to limit-d (d in 0..3) and \
               then probes limit and limit+1; after EVERY step every getter is evaluated for every universe element (present or not; index access 0..count and one past) and compared with a reference \
               set/map (lists as sorted multisets, never order). non-trivial: cti = a successful edit touching both directions of the topic/issuer relation (remove a topic some issuer holds, remove an \
               issuer that holds topics, update that both adds and drops topics) and a refused call; issuer-keys = a removal after which the key leaves a topic's key list while other keys or pairs \
               remain, and a refused call; irs = a successful recover_identity, a later refused add_identity / recover-into on a recovered account, and >= 2 refused calls; claims = an in-place update \
               with different content, a topic holding >= 2 claims, removal of the last claim of a topic, and a refused call. distinct = distinct serialised case. Sub-checks of the second half: see c20b",
        subs,
        floors: vec![
            ("nontrivial_cti", 25, 250),
            ("cti:add_at_limit_ok", 5, 50),
            ("cti:add_over_limit_refused", 5, 50),
            ("cti:duplicate_add_refused", 35, 350),
            ("cti:remove_topic_held_by_issuers", 30, 300),
            ("cti:remove_issuer_with_topics", 39, 390),
            ("cti:update_adds_and_drops_topics", 10, 100),
            ("cti:remove_middle_then_successor", 3, 30),
            ("nontrivial_keys", 25, 250),
            ("keys:allow_at_limit_ok", 5, 50),
            ("keys:allow_over_limit_refused", 5, 50),
            ("keys:duplicate_allow_refused", 40, 400),
            ("keys:key_leaves_topic_keeps_other_pairs", 35, 350),
            ("keys:remove_middle_then_successor", 12, 120),
            ("nontrivial_irs", 18, 180),
            ("irs:country_at_limit_ok", 14, 140),
            ("irs:country_over_limit_refused", 29, 290),
            ("irs:add_on_recovered_refused", 32, 320),
            ("irs:recover_into_recovered_refused", 15, 150),
            ("irs:delete_middle_then_successor", 3, 30),
            ("nontrivial_claims", 24, 240),
            ("claims:update_in_place", 120, 1200),
            ("claims:last_claim_of_topic_removed", 90, 900),
            ("claims:remove_middle_then_successor", 1, 15),
        ],
        assumptions: vec![
            "Soroban native test host is trusted (rollback of refused invocations, storage); per-invocation resource limits and host diagnostics are switched off (only the library's explicit capacity counters are C20's subject)",
            "authorization is not C20's subject: the harness entry points forward to the library functions without require_auth (operator arguments ignored)",
            "mutations are real top-level invocations; getters are the library's public getter functions called inside one as_contract frame per step, a getter panic being observed as 'refused'",
            "enumeration order is never asserted; get_registries may answer one registry per (topic, registry) pair or each registry once; a recovered account = one carrying a recovered_to link (error docs of add_identity / recover_identity)",
            "identity_claims: whether the emptied topic index key is deleted or holds an empty vector is not observable through the getters and is not asserted",
        ],
    };
    p.floors.extend(super::c20b::FLOORS.iter().cloned());
    p
}

pub mod ftcore;
pub mod vaultx;

pub mod c01;
pub mod c01rwa;
pub mod c02;
pub mod c03;
pub mod c04;
pub mod c04b;
pub mod c05;
pub mod c06;
pub mod c06b;
pub mod c07;
pub mod c08;
pub mod c09;
pub mod c10;
pub mod c11;
pub mod c12;
pub mod c12b;
pub mod c13;
pub mod c14;
pub mod c15;
pub mod c15b;
pub mod c16;
pub mod c17;
pub mod c18;
pub mod c19;
pub mod c19b;
pub mod c20;
pub mod c20b;

use crate::engine::Property;

/// ids whose check is implemented (a stub has no sub-checks)
pub fn all_ids() -> Vec<&'static str> {
    ALL.iter().filter(|(_, f)| !f().subs.is_empty()).map(|(id, _)| *id).collect()
}

const ALL: &[(&str, fn() -> Property)] = &[
    ("C01", c01::property),
    ("C02", c02::property),
    ("C03", c03::property),
    ("C04", c04::property),
    ("C05", c05::property),
    ("C06", c06::property),
    ("C07", c07::property),
    ("C08", c08::property),
    ("C09", c09::property),
    ("C10", c10::property),
    ("C11", c11::property),
    ("C12", c12::property),
    ("C13", c13::property),
    ("C14", c14::property),
    ("C15", c15::property),
    ("C16", c16::property),
    ("C17", c17::property),
    ("C18", c18::property),
    ("C19", c19::property),
    ("C20", c20::property),
];

pub fn by_id(id: &str) -> Option<Property> {
    ALL.iter().find(|(i, _)| *i == id).map(|(_, f)| f())
}

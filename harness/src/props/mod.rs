pub mod ftcore;

pub mod c01;

use crate::engine::Property;

pub fn all_ids() -> Vec<&'static str> {
    vec!["C01"]
}

pub fn by_id(id: &str) -> Option<Property> {
    Some(match id {
        "C01" => c01::property(),
        _ => return None,
    })
}

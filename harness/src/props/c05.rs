//! C05 — Vault share accounting rounds in the vault's favour.
//!
//! Target: `examples/fungible-vault` (library `Vault`) constructed with every decimals offset
//! 0..=10 over an `FtBase` asset token; 3 users + a donor.
//!
//! Oracle (written from the statement and the `FungibleVault` docs, exact arithmetic in BigInt):
//! with A = asset balance of the vault, S = share supply, V = 10^offset BEFORE the call
//!   convert_to_shares / preview_deposit (a) = floor(a(S+V)/(A+1))
//!   preview_withdraw (a)                     = ceil (a(S+V)/(A+1))
//!   convert_to_assets / preview_redeem (s)  = floor(s(A+1)/(S+V))
//!   preview_mint (s)                         = ceil (s(A+1)/(S+V))
//!   max_redeem(o) = share balance of o, max_withdraw(o) = floor(bal(o)(A+1)/(S+V))
//! (negative input: documented error; result not representable in i128: documented MathOverflow).
//! An operation returns what its preview returned immediately before, moves exactly
//! (assets, shares) between exactly the named parties, spends exactly `shares` of the operator's
//! share allowance (resp. `assets` of the operator's asset allowance, pulled with `transfer_from`)
//! when operator != owner, emits one deposit/withdraw event with the same numbers and parties,
//! and never lowers (A+1)/(S+V).
//!
//! The vault set-up and op-execution helpers (`VaultEnv`, `VCall`, `VAuth`, `VDump`) are `pub`
//! so that other checks (C01 / C02 vault-share flavour) can drive the same contract.

use crate::big::*;
use crate::engine::*;
use crate::envx::{self, Ev, Inv};
use crate::gen::pick;
use num_bigint::BigInt;
use proptest::prelude::*;
use serde::{Deserialize, Serialize};
use soroban_sdk::{Address, Env, String as SString};
use std::collections::BTreeSet;
use stellar_tokens::fungible::Base;

// ===================================================================== set-up and execution (pub)

pub const N_USERS: usize = 3;
/// actors = users 0..N_USERS, then the donor
pub const N_ACTORS: usize = N_USERS + 1;

/// Observed state of (asset token, vault share token) over `parties` = actors + vault.
#[derive(Clone, Debug, PartialEq, Eq)]
pub struct VDump {
    pub asset_supply: i128,
    /// asset balances of the actors, then of the vault (last) == total assets
    pub asset_bal: Vec<i128>,
    pub share_supply: i128,
    pub share_bal: Vec<i128>,
    /// allowance[owner][spender] on the asset token
    pub asset_allow: Vec<Vec<i128>>,
    /// allowance[owner][spender] on the vault share token
    pub share_allow: Vec<Vec<i128>>,
}
impl VDump {
    pub fn vault_idx(&self) -> usize {
        self.asset_bal.len() - 1
    }
    pub fn total_assets(&self) -> i128 {
        self.asset_bal[self.vault_idx()]
    }
}

#[derive(Clone, Copy, Debug, PartialEq, Eq, PartialOrd, Ord, Serialize, Deserialize)]
pub enum VKind {
    Deposit,
    Mint,
    Withdraw,
    Redeem,
}
impl VKind {
    pub fn func(self) -> &'static str {
        match self {
            VKind::Deposit => "deposit",
            VKind::Mint => "mint",
            VKind::Withdraw => "withdraw",
            VKind::Redeem => "redeem",
        }
    }
    pub fn preview(self) -> &'static str {
        match self {
            VKind::Deposit => "preview_deposit",
            VKind::Mint => "preview_mint",
            VKind::Withdraw => "preview_withdraw",
            VKind::Redeem => "preview_redeem",
        }
    }
    pub fn is_entry(self) -> bool {
        matches!(self, VKind::Deposit | VKind::Mint)
    }
}

/// Authorization mode of one vault operation.  The only documented authorizer is `operator`;
/// for deposit/mint its entry must carry the nested asset pull as a sub-invocation.
#[derive(Clone, Debug, Serialize, Deserialize, PartialEq, Eq)]
pub enum VAuth {
    /// operator authorizes the exact invocation tree
    Exact,
    /// no entry at all
    Drop,
    /// somebody else authorizes the exact tree
    Swap(u16),
    /// deposit/mint: the root without the nested asset pull; withdraw/redeem: the sibling function
    DropSub,
    /// the root with amount + 1
    Tamper,
    /// Exact plus an unrelated entry of somebody else
    Surplus(u16),
}

/// A fully resolved vault operation (party indices into `VaultEnv::actors`).
#[derive(Clone, Debug)]
pub struct VCall {
    pub kind: VKind,
    /// assets for deposit/withdraw, shares for mint/redeem
    pub amount: i128,
    pub receiver: usize,
    /// `from` (deposit/mint) resp. `owner` (withdraw/redeem)
    pub holder: usize,
    pub operator: usize,
    /// deposit/mint: the amount the nested asset `transfer`/`transfer_from` will carry
    pub pull_assets: i128,
}

pub struct VaultEnv {
    pub e: Env,
    pub asset: Address,
    pub vault: Address,
    /// mint authority of the asset token
    pub admin: Address,
    /// users 0..N_USERS, then the donor
    pub actors: Vec<Address>,
    pub offset: u32,
    /// live_until ledger used for every approval (the ledger is never advanced)
    pub live: u32,
}

impl VaultEnv {
    /// Fresh Env with an `FtBase` asset token and the example vault over it.
    pub fn setup(offset: u32, seq: u32) -> VaultEnv {
        let e = envx::new_env(seq, envx::BIG_TTL);
        let admin = envx::actor(&e);
        let actors = envx::actors(&e, N_ACTORS);
        let asset = e.register(crate::contracts::ft::ft_base::FtBase, (admin.clone(),));
        let vault = e.register(
            crate::examples::fungible_vault::contract::ExampleContract,
            (SString::from_str(&e, "Vault"), SString::from_str(&e, "VLT"), asset.clone(), offset),
        );
        envx::no_auth(&e);
        VaultEnv { live: seq + 1000, e, asset, vault, admin, actors, offset }
    }

    /// actors + vault
    pub fn parties(&self) -> Vec<Address> {
        let mut v = self.actors.clone();
        v.push(self.vault.clone());
        v
    }

    /// Bulk read through the library getters (one frame per token).
    pub fn dump(&self) -> VDump {
        let e = &self.e;
        let ps = self.parties();
        let read = |c: &Address| {
            e.as_contract(c, || {
                let supply = Base::total_supply(e);
                let bal: Vec<i128> = ps.iter().map(|a| Base::balance(e, a)).collect();
                let allow: Vec<Vec<i128>> = ps.iter().map(|o| ps.iter().map(|s| Base::allowance(e, o, s)).collect()).collect();
                (supply, bal, allow)
            })
        };
        let (asset_supply, asset_bal, asset_allow) = read(&self.asset);
        let (share_supply, share_bal, share_allow) = read(&self.vault);
        VDump { asset_supply, asset_bal, share_supply, share_bal, asset_allow, share_allow }
    }

    /// Entry-point getter returning an i128.
    pub fn q(&self, f: &str, args: soroban_sdk::Vec<soroban_sdk::Val>) -> Result<i128, String> {
        envx::call_t::<i128>(&self.e, &self.vault, f, args)
    }
    pub fn q_amount(&self, f: &str, x: i128) -> Result<i128, String> {
        self.q(f, args![&self.e; x])
    }
    pub fn q_addr(&self, f: &str, who: usize) -> Result<i128, String> {
        self.q(f, args![&self.e; self.actors[who].clone()])
    }

    fn authed(&self, who: &Address, c: &Address, f: &str, args: soroban_sdk::Vec<soroban_sdk::Val>) -> Result<(), String> {
        let inv = Inv::new(c, f, args.clone());
        envx::set_auth(&self.e, &[(who, &inv)]);
        let r = envx::call(&self.e, c, f, args).map(|_| ());
        envx::no_auth(&self.e);
        r
    }
    /// Asset mint to actor `who`, authorized by the asset admin.
    pub fn fund(&self, who: usize, amount: i128) -> Result<(), String> {
        self.authed(&self.admin, &self.asset, "mint", args![&self.e; self.actors[who].clone(), amount])
    }
    /// `asset.approve(owner, spender, amount, live)` authorized by `owner`.
    pub fn asset_approve(&self, owner: usize, spender: usize, amount: i128) -> Result<(), String> {
        let a = &self.actors;
        self.authed(&a[owner], &self.asset, "approve", args![&self.e; a[owner].clone(), a[spender].clone(), amount, self.live])
    }
    /// `vault.approve(owner, spender, amount, live)` (share allowance) authorized by `owner`.
    pub fn share_approve(&self, owner: usize, spender: usize, amount: i128) -> Result<(), String> {
        let a = &self.actors;
        self.authed(&a[owner], &self.vault, "approve", args![&self.e; a[owner].clone(), a[spender].clone(), amount, self.live])
    }
    /// Donation: direct asset `transfer(by, vault, amount)` authorized by `by`.
    pub fn donate(&self, by: usize, amount: i128) -> Result<(), String> {
        let a = &self.actors;
        self.authed(&a[by], &self.asset, "transfer", args![&self.e; a[by].clone(), self.vault.clone(), amount])
    }
    /// Share `transfer(from, to, amount)` on the vault token authorized by `from`.
    pub fn share_transfer(&self, from: usize, to: usize, amount: i128) -> Result<(), String> {
        let a = &self.actors;
        self.authed(&a[from], &self.vault, "transfer", args![&self.e; a[from].clone(), a[to].clone(), amount])
    }

    /// The invocation tree the operator must authorize for `c`.
    pub fn auth_tree(&self, c: &VCall) -> Inv {
        let e = &self.e;
        let a = &self.actors;
        let root = Inv::new(
            &self.vault,
            c.kind.func(),
            args![e; c.amount, a[c.receiver].clone(), a[c.holder].clone(), a[c.operator].clone()],
        );
        if !c.kind.is_entry() {
            // the asset leaves the vault under the vault's own (invoker) authority
            return root;
        }
        let sub = if c.operator == c.holder {
            // the vault pulls with `transfer(from, vault, assets)`: `from` (== operator) authorizes it
            Inv::new(&self.asset, "transfer", args![e; a[c.holder].clone(), self.vault.clone(), c.pull_assets])
        } else {
            // the vault pulls with `transfer_from(operator, from, vault, assets)`: the operator is the spender
            Inv::new(
                &self.asset,
                "transfer_from",
                args![e; a[c.operator].clone(), a[c.holder].clone(), self.vault.clone(), c.pull_assets],
            )
        };
        root.with_sub(sub)
    }

    /// Attach authorization according to `mode`, invoke, return (result, effective_exact, vault events).
    /// `effective_exact` is true iff the operator's exact tree was attached.
    pub fn exec(&self, c: &VCall, mode: &VAuth) -> (Result<i128, String>, bool, Vec<Ev>) {
        let e = &self.e;
        let a = &self.actors;
        let tree = self.auth_tree(c);
        let others: Vec<usize> = (0..a.len()).filter(|i| *i != c.operator).collect();
        let mut entries: Vec<(Address, Inv)> = vec![(a[c.operator].clone(), tree.clone())];
        let mut exact = true;
        match mode {
            VAuth::Exact => {}
            VAuth::Drop => {
                entries.clear();
                exact = false;
            }
            VAuth::Swap(o) => {
                entries[0].0 = a[others[pick(*o, others.len())]].clone();
                exact = false;
            }
            VAuth::DropSub => {
                if c.kind.is_entry() {
                    entries[0].1.subs.clear();
                } else {
                    entries[0].1.func = match c.kind {
                        VKind::Withdraw => "redeem".into(),
                        _ => "withdraw".into(),
                    };
                }
                exact = false;
            }
            VAuth::Tamper => {
                let mut t = c.clone();
                t.amount = c.amount.wrapping_add(1);
                entries[0].1 = self.auth_tree(&t);
                exact = false;
            }
            VAuth::Surplus(o) => {
                let who = a[others[pick(*o, others.len())]].clone();
                let junk = Inv::new(&self.asset, "approve", args![e; who.clone(), who.clone(), 1i128, self.live]);
                entries.push((who, junk));
            }
        }
        let refs: Vec<(&Address, &Inv)> = entries.iter().map(|(x, i)| (x, i)).collect();
        envx::set_auth(e, &refs);
        let r = envx::call_t::<i128>(
            e,
            &self.vault,
            c.kind.func(),
            args![e; c.amount, a[c.receiver].clone(), a[c.holder].clone(), a[c.operator].clone()],
        );
        let evs = if r.is_ok() { envx::events_of(e, &self.vault) } else { vec![] };
        envx::no_auth(e);
        (r, exact, evs)
    }
}

/// Decoded vault event: (name, topic addresses 1..=3, assets, shares).
pub fn decode_vault_event(e: &Env, ev: &Ev) -> Option<(String, [Address; 3], i128, i128)> {
    let name = ev.topic_sym(0)?;
    let t = [ev.topic_addr(e, 1)?, ev.topic_addr(e, 2)?, ev.topic_addr(e, 3)?];
    let assets = envx::scval_i128(&ev.data_field("assets")?)?;
    let shares = envx::scval_i128(&ev.data_field("shares")?)?;
    Some((name, t, assets, shares))
}

// ===================================================================== exact oracle

/// What the documentation fixes for one conversion.
#[derive(Clone, Debug, PartialEq, Eq)]
pub enum Exp {
    /// must succeed with exactly this value
    Val(i128),
    /// must fail (documented error): "negative" | "overflow"
    MustFail(&'static str),
    /// an intermediate sum (S + 10^offset or A + 1) does not fit i128: MathOverflow is documented for
    /// "mathematical operations", so failure is accepted; success must carry the exact value
    MayFail(i128),
}
#[derive(Clone, Debug)]
pub struct Conv {
    pub exp: Exp,
    /// the value the opposite rounding would give (when it fits)
    pub alt: Option<i128>,
    /// exact division has a non-zero remainder
    pub rem: bool,
    /// x*y exceeds i128 although the result fits
    pub phantom: bool,
}
impl Conv {
    pub fn value(&self) -> Option<i128> {
        match self.exp {
            Exp::Val(v) | Exp::MayFail(v) => Some(v),
            Exp::MustFail(_) => None,
        }
    }
}

pub struct Rate {
    /// A + 1
    pub a1: BigInt,
    /// S + 10^offset
    pub sv: BigInt,
    pub inter_overflow: bool,
}
pub fn rate_of(total_assets: i128, supply: i128, offset: u32) -> Rate {
    let a1 = b(total_assets) + 1;
    let sv = b(supply) + pow10(offset);
    let inter_overflow = fits_i128(&a1).is_none() || fits_i128(&sv).is_none();
    Rate { a1, sv, inter_overflow }
}
/// `to_shares`: x(S+V)/(A+1), else x(A+1)/(S+V); rounded up when `ceil`.
pub fn convert(r: &Rate, x: i128, to_shares: bool, ceil: bool) -> Conv {
    if x < 0 {
        return Conv { exp: Exp::MustFail("negative"), alt: None, rem: false, phantom: false };
    }
    if x == 0 {
        return Conv { exp: Exp::Val(0), alt: Some(0), rem: false, phantom: false };
    }
    let (n, d) = if to_shares { (&r.sv, &r.a1) } else { (&r.a1, &r.sv) };
    let prod = b(x) * n;
    let fl = div_floor(&prod, d);
    let ce = div_ceil(&prod, d);
    let rem = fl != ce;
    let (main, other) = if ceil { (ce, fl) } else { (fl, ce) };
    let exp = match fits_i128(&main) {
        Some(v) if r.inter_overflow => Exp::MayFail(v),
        Some(v) => Exp::Val(v),
        None => Exp::MustFail("overflow"),
    };
    let phantom = fits_i128(&prod).is_none() && fits_i128(&main).is_some();
    Conv { exp, alt: fits_i128(&other), rem, phantom }
}

fn sat(x: &BigInt) -> i128 {
    fits_i128(x).unwrap_or(i128::MAX)
}

/// Compare a conversion getter's answer with the oracle.
fn check_conv(f: &str, got: &Result<i128, String>, c: &Conv, what: &str) -> R {
    match (&c.exp, got) {
        (Exp::Val(v), Ok(g)) | (Exp::MayFail(v), Ok(g)) => {
            if g != v {
                let clause = if c.alt == Some(*g) { "wrong-rounding" } else { "wrong-value" };
                bail!(format!("C05/{f}/{clause}"), "{what}: {f} returned {g}, exact formula gives {v} (opposite rounding: {:?})", c.alt);
            }
        }
        (Exp::Val(v), Err(er)) => {
            bail!(format!("C05/{f}/unexpected-failure"), "{what}: {f} failed ({er}) although the exact value {v} fits i128")
        }
        (Exp::MayFail(_), Err(_)) => {}
        (Exp::MustFail(why), Ok(g)) => {
            bail!(format!("C05/{f}/{why}-accepted"), "{what}: {f} returned {g} although the input is {why} (documented error)")
        }
        (Exp::MustFail(_), Err(_)) => {}
    }
    Ok(())
}

/// Model prediction for one vault operation under exact authorization.
#[derive(Clone, Debug)]
pub enum Pred {
    Ok { assets: i128, shares: i128 },
    Fail(&'static str),
    /// intermediate overflow: either outcome; on success these are the amounts
    Unsure { assets: i128, shares: i128 },
}

pub fn predict(m: &VDump, offset: u32, c: &VCall) -> (Pred, Conv) {
    let r = rate_of(m.total_assets(), m.share_supply, offset);
    let x = c.amount;
    let (conv, assets, shares);
    match c.kind {
        VKind::Deposit => {
            conv = convert(&r, x, true, false);
            let Some(s) = conv.value() else { return (Pred::Fail(fail_reason(&conv)), conv) };
            assets = x;
            shares = s;
        }
        VKind::Mint => {
            conv = convert(&r, x, false, true);
            let Some(a) = conv.value() else { return (Pred::Fail(fail_reason(&conv)), conv) };
            assets = a;
            shares = x;
        }
        VKind::Withdraw => {
            conv = convert(&r, x, true, true);
            if x < 0 {
                return (Pred::Fail("negative"), conv);
            }
            // max_withdraw(owner) = floor(bal (A+1)/(S+V)) always fits (<= A)
            let maxw = convert(&r, m.share_bal[c.holder], false, false).value().unwrap_or(0);
            if x > maxw {
                return (Pred::Fail("exceeds-max"), conv);
            }
            let Some(s) = conv.value() else { return (Pred::Fail(fail_reason(&conv)), conv) };
            assets = x;
            shares = s;
        }
        VKind::Redeem => {
            conv = convert(&r, x, false, false);
            if x < 0 {
                return (Pred::Fail("negative"), conv);
            }
            if x > m.share_bal[c.holder] {
                return (Pred::Fail("exceeds-max"), conv);
            }
            let Some(a) = conv.value() else { return (Pred::Fail(fail_reason(&conv)), conv) };
            assets = a;
            shares = x;
        }
    }
    if c.kind.is_entry() {
        if m.asset_bal[c.holder] < assets {
            return (Pred::Fail("insufficient-assets"), conv);
        }
        if c.operator != c.holder && m.asset_allow[c.holder][c.operator] < assets {
            return (Pred::Fail("insufficient-asset-allowance"), conv);
        }
        if m.share_supply.checked_add(shares).is_none() {
            return (Pred::Fail("share-supply-overflow"), conv);
        }
    } else if c.operator != c.holder && m.share_allow[c.holder][c.operator] < shares {
        return (Pred::Fail("insufficient-share-allowance"), conv);
    }
    // any conversion on the way (including the max_withdraw bound) may hit the intermediate overflow
    let p = if r.inter_overflow { Pred::Unsure { assets, shares } } else { Pred::Ok { assets, shares } };
    (p, conv)
}
fn fail_reason(c: &Conv) -> &'static str {
    match c.exp {
        Exp::MustFail(w) => w,
        _ => "?",
    }
}

/// Post-state the statement prescribes.
pub fn apply(m: &VDump, c: &VCall, assets: i128, shares: i128) -> VDump {
    let mut n = m.clone();
    let v = m.vault_idx();
    if c.kind.is_entry() {
        n.asset_bal[c.holder] -= assets;
        n.asset_bal[v] += assets;
        if c.operator != c.holder && assets > 0 {
            n.asset_allow[c.holder][c.operator] -= assets;
        }
        n.share_bal[c.receiver] += shares;
        n.share_supply += shares;
    } else {
        if c.operator != c.holder && shares > 0 {
            n.share_allow[c.holder][c.operator] -= shares;
        }
        n.share_bal[c.holder] -= shares;
        n.share_supply -= shares;
        n.asset_bal[v] -= assets;
        n.asset_bal[c.receiver] += assets;
    }
    n
}

/// Classify the first difference between the observed and the prescribed post-state.
fn diff_state(f: &str, c: &VCall, pre: &VDump, want: &VDump, got: &VDump, what: &str) -> R {
    if want == got {
        return Ok(());
    }
    let v = want.vault_idx();
    let n = want.asset_bal.len();
    let (asset_named, share_named): (Vec<usize>, Vec<usize>) =
        if c.kind.is_entry() { (vec![c.holder, v], vec![c.receiver]) } else { (vec![v, c.receiver], vec![c.holder]) };
    // parties that are not named by the call must not move at all
    for i in 0..n {
        if !asset_named.contains(&i) && got.asset_bal[i] != pre.asset_bal[i] {
            bail!(
                format!("C05/{f}/wrong-party"),
                "{what}: asset balance of party {i} (not a named asset party {:?}) changed {} -> {}",
                asset_named,
                pre.asset_bal[i],
                got.asset_bal[i]
            );
        }
        if !share_named.contains(&i) && got.share_bal[i] != pre.share_bal[i] {
            bail!(
                format!("C05/{f}/wrong-party"),
                "{what}: share balance of party {i} (not the named share party {:?}) changed {} -> {}",
                share_named,
                pre.share_bal[i],
                got.share_bal[i]
            );
        }
    }
    for i in 0..n {
        ensure!(
            got.asset_bal[i] == want.asset_bal[i],
            format!("C05/{f}/wrong-assets-moved"),
            "{what}: asset balance of party {i}: {} -> {}, expected {}",
            pre.asset_bal[i],
            got.asset_bal[i],
            want.asset_bal[i]
        );
        ensure!(
            got.share_bal[i] == want.share_bal[i],
            format!("C05/{f}/wrong-shares-moved"),
            "{what}: share balance of party {i}: {} -> {}, expected {}",
            pre.share_bal[i],
            got.share_bal[i],
            want.share_bal[i]
        );
    }
    ensure!(
        got.share_supply == want.share_supply,
        format!("C05/{f}/wrong-share-supply"),
        "{what}: share supply {} -> {}, expected {}",
        pre.share_supply,
        got.share_supply,
        want.share_supply
    );
    ensure!(
        got.asset_supply == want.asset_supply,
        format!("C05/{f}/asset-supply-changed"),
        "{what}: asset supply {} -> {}",
        pre.asset_supply,
        got.asset_supply
    );
    for o in 0..n {
        for s in 0..n {
            let spent_pair = c.operator != c.holder && o == c.holder && s == c.operator;
            if got.share_allow[o][s] != want.share_allow[o][s] {
                let clause = if spent_pair && !c.kind.is_entry() { "share-allowance-not-spent-exactly" } else { "foreign-share-allowance-changed" };
                bail!(
                    format!("C05/{f}/{clause}"),
                    "{what}: share allowance ({o},{s}) {} -> {}, expected {}",
                    pre.share_allow[o][s],
                    got.share_allow[o][s],
                    want.share_allow[o][s]
                );
            }
            if got.asset_allow[o][s] != want.asset_allow[o][s] {
                let clause = if spent_pair && c.kind.is_entry() { "asset-allowance-not-spent-exactly" } else { "foreign-asset-allowance-changed" };
                bail!(
                    format!("C05/{f}/{clause}"),
                    "{what}: asset allowance ({o},{s}) {} -> {}, expected {}",
                    pre.asset_allow[o][s],
                    got.asset_allow[o][s],
                    want.asset_allow[o][s]
                );
            }
        }
    }
    bail!(format!("C05/{f}/state-mismatch"), "{what}: observed {:?} expected {:?}", got, want)
}

/// (A'+1)(S+V) >= (A+1)(S'+V), cross-multiplied.
fn rate_not_decreased(pre: &VDump, post: &VDump, offset: u32) -> bool {
    let v = pow10(offset);
    let lhs = (b(post.total_assets()) + 1) * (b(pre.share_supply) + &v);
    let rhs = (b(pre.total_assets()) + 1) * (b(post.share_supply) + &v);
    lhs >= rhs
}

// ===================================================================== case

#[derive(Clone, Debug, Serialize, Deserialize)]
pub enum Amt {
    Abs(#[serde(with = "crate::gen::i128_str")] i128),
    /// k/4 of the reference quantity (k <= 4)
    Frac(u8),
    /// p/65536 of the reference quantity
    Part(u16),
    /// reference quantity + d: deposit/donate -> asset balance of the payer; mint -> shares affordable with
    /// that balance; withdraw -> max_withdraw(owner); redeem / share transfer -> share balance (= max_redeem)
    MaxPlus(i8),
    /// what the operator's current allowance permits + d (falls back to MaxPlus when operator == holder)
    AllowPlus(i8),
    /// (i128::MAX - share supply) + d, expressed in the unit of the call
    SupplyGap(i8),
}

#[derive(Clone, Debug, Serialize, Deserialize)]
pub enum Allow {
    /// leave the allowance as it is
    Keep,
    /// approve exactly what the call needs + d just before the call
    Needed(i8),
    /// approve i128::MAX
    Max,
}
#[derive(Clone, Debug, Serialize, Deserialize)]
pub enum Who {
    /// operator == from / owner
    Holder,
    /// some other actor, with an allowance decision
    Other { sel: u16, allow: Allow },
}

#[derive(Clone, Copy, Debug, Serialize, Deserialize, PartialEq, Eq)]
pub enum ProbeKind {
    ConvertToShares,
    ConvertToAssets,
    PreviewDeposit,
    PreviewMint,
    PreviewWithdraw,
    PreviewRedeem,
    MaxWithdraw,
    MaxRedeem,
    Totals,
}
#[derive(Clone, Copy, Debug, Serialize, Deserialize, PartialEq, Eq)]
pub enum RtKind {
    DepositRedeem,
    DepositWithdraw,
    MintWithdraw,
    MintRedeem,
}

#[derive(Clone, Debug, Serialize, Deserialize)]
pub enum Op {
    Vault { kind: VKind, amt: Amt, receiver: u16, holder: u16, operator: Who, auth: VAuth },
    Donate { by: u16, amt: Amt },
    ApproveAsset { owner: u16, spender: u16, amt: Amt },
    ApproveShares { owner: u16, spender: u16, amt: Amt },
    ShareTransfer { from: u16, to: u16, amt: Amt },
    Probe { kind: ProbeKind, who: u16, amt: Amt },
    /// two operations of one user back to back: nobody gains from rounding
    RoundTrip { kind: RtKind, who: u16, amt: Amt },
}

#[derive(Clone, Debug, Serialize, Deserialize)]
pub struct Case {
    pub offset: u32,
    pub seq: u32,
    /// asset funding of the 4 actors
    #[serde(with = "crate::gen::i128_vec_str")]
    pub funds: Vec<i128>,
    pub ops: Vec<Op>,
}

// ---------------------------------------------------------------- strategies

fn pow10_i(k: u32) -> i128 {
    10i128.pow(k)
}

fn abs_strategy() -> BoxedStrategy<i128> {
    prop_oneof![
        4 => proptest::sample::select(vec![0i128, 1, 2, 3, 7]),
        4 => (1u32..=38, -1i128..=1).prop_map(|(k, d)| pow10_i(k) + d),
        2 => 0i128..=5000,
        3 => crate::gen::i128_anybits().prop_map(|x| x.checked_abs().unwrap_or(i128::MAX)),
        1 => proptest::sample::select(vec![i128::MAX, i128::MAX - 1, i128::MAX / 2, i128::MAX / 2 + 1, 1i128 << 126, 1i128 << 100, 1i128 << 64]),
        1 => proptest::sample::select(vec![-1i128, -7, i128::MIN, -1_000_000_000_000_000_000]),
    ]
    .boxed()
}

fn amt_strategy() -> BoxedStrategy<Amt> {
    prop_oneof![
        6 => abs_strategy().prop_map(Amt::Abs),
        3 => (0u8..=4).prop_map(Amt::Frac),
        6 => any::<u16>().prop_map(Amt::Part),
        4 => (-1i8..=1).prop_map(Amt::MaxPlus),
        1 => (-1i8..=1).prop_map(Amt::AllowPlus),
        1 => (-1i8..=1).prop_map(Amt::SupplyGap),
    ]
    .boxed()
}
/// amounts for probes: absolute lattice dominates
fn probe_amt_strategy() -> BoxedStrategy<Amt> {
    prop_oneof![
        8 => abs_strategy().prop_map(Amt::Abs),
        3 => any::<u16>().prop_map(Amt::Part),
        1 => (-1i8..=1).prop_map(Amt::MaxPlus),
        1 => (-1i8..=1).prop_map(Amt::SupplyGap),
    ]
    .boxed()
}
/// amounts that are likely to go through (funding the vault)
fn easy_amt_strategy() -> BoxedStrategy<Amt> {
    prop_oneof![
        2 => (1u8..=4).prop_map(Amt::Frac),
        4 => (1u16..).prop_map(Amt::Part),
        2 => proptest::sample::select(vec![1i128, 2, 3, 7, 9, 11, 99, 101, 999, 1001]).prop_map(Amt::Abs),
    ]
    .boxed()
}

fn allow_strategy() -> BoxedStrategy<Allow> {
    prop_oneof![
        5 => Just(Allow::Needed(0)),
        2 => Just(Allow::Needed(-1)),
        2 => (1i8..=5).prop_map(Allow::Needed),
        2 => Just(Allow::Max),
        2 => Just(Allow::Keep),
    ]
    .boxed()
}
fn who_strategy() -> BoxedStrategy<Who> {
    prop_oneof![
        6 => Just(Who::Holder),
        5 => (any::<u16>(), allow_strategy()).prop_map(|(sel, allow)| Who::Other { sel, allow }),
    ]
    .boxed()
}
fn auth_strategy() -> BoxedStrategy<VAuth> {
    prop_oneof![
        36 => Just(VAuth::Exact),
        1 => Just(VAuth::Drop),
        1 => any::<u16>().prop_map(VAuth::Swap),
        1 => Just(VAuth::DropSub),
        1 => Just(VAuth::Tamper),
        2 => any::<u16>().prop_map(VAuth::Surplus),
    ]
    .boxed()
}

fn vault_op(kind: VKind) -> BoxedStrategy<Op> {
    (amt_strategy(), any::<u16>(), any::<u16>(), who_strategy(), auth_strategy())
        .prop_map(move |(amt, receiver, holder, operator, auth)| Op::Vault { kind, amt, receiver, holder, operator, auth })
        .boxed()
}

fn op_strategy() -> BoxedStrategy<Op> {
    let probe_kind = proptest::sample::select(vec![
        ProbeKind::ConvertToShares,
        ProbeKind::ConvertToAssets,
        ProbeKind::PreviewDeposit,
        ProbeKind::PreviewMint,
        ProbeKind::PreviewWithdraw,
        ProbeKind::PreviewRedeem,
        ProbeKind::MaxWithdraw,
        ProbeKind::MaxRedeem,
        ProbeKind::Totals,
    ]);
    let rt_kind = proptest::sample::select(vec![RtKind::DepositRedeem, RtKind::DepositWithdraw, RtKind::MintWithdraw, RtKind::MintRedeem]);
    prop_oneof![
        6 => vault_op(VKind::Deposit),
        5 => vault_op(VKind::Mint),
        6 => vault_op(VKind::Withdraw),
        6 => vault_op(VKind::Redeem),
        4 => (any::<u16>(), amt_strategy()).prop_map(|(by, amt)| Op::Donate { by, amt }),
        1 => (any::<u16>(), any::<u16>(), amt_strategy()).prop_map(|(owner, spender, amt)| Op::ApproveAsset { owner, spender, amt }),
        1 => (any::<u16>(), any::<u16>(), amt_strategy()).prop_map(|(owner, spender, amt)| Op::ApproveShares { owner, spender, amt }),
        2 => (any::<u16>(), any::<u16>(), amt_strategy()).prop_map(|(from, to, amt)| Op::ShareTransfer { from, to, amt }),
        6 => (probe_kind, any::<u16>(), probe_amt_strategy()).prop_map(|(kind, who, amt)| Op::Probe { kind, who, amt }),
        3 => (rt_kind, any::<u16>(), easy_amt_strategy()).prop_map(|(kind, who, amt)| Op::RoundTrip { kind, who, amt }),
    ]
    .boxed()
}

/// pre-funded vault: a deposit (or mint) by some user, possibly followed by a donation
fn prefix_strategy() -> BoxedStrategy<Vec<Op>> {
    let first = (proptest::bool::weighted(0.7), easy_amt_strategy(), any::<u16>()).prop_map(|(dep, amt, holder)| Op::Vault {
        kind: if dep { VKind::Deposit } else { VKind::Mint },
        amt,
        receiver: holder,
        holder,
        operator: Who::Holder,
        auth: VAuth::Exact,
    });
    let don = (any::<u16>(), easy_amt_strategy()).prop_map(|(by, amt)| Op::Donate { by, amt });
    prop_oneof![
        3 => Just(vec![]),
        3 => first.clone().prop_map(|f| vec![f]),
        3 => (first, don.clone()).prop_map(|(f, d)| vec![f, d]),
        1 => don.prop_map(|d| vec![d]),
    ]
    .boxed()
}

fn fund_strategy() -> BoxedStrategy<i128> {
    prop_oneof![
        1 => Just(0i128),
        3 => 1i128..=5000,
        3 => 1_000_000i128..=1_000_000_000_000,
        3 => (17u32..=30, 0i128..1000).prop_map(|(k, d)| pow10_i(k) + d),
        3 => (100u32..=123, any::<u64>()).prop_map(|(k, d)| (1i128 << k) + d as i128),
    ]
    .boxed()
}

fn strategy_for(offset: u32, tier: Tier) -> BoxedStrategy<Case> {
    let max_ops = tier.pick(26usize, 38usize);
    (100u32..5000, proptest::collection::vec(fund_strategy(), N_ACTORS), prefix_strategy(), proptest::collection::vec(op_strategy(), 1..=max_ops))
        .prop_map(move |(seq, funds, mut pre, ops)| {
            pre.extend(ops);
            Case { offset, seq, funds, ops: pre }
        })
        .boxed()
}

// ===================================================================== interpreter

#[derive(Default)]
struct Stats {
    kinds_ok: BTreeSet<VKind>,
    rem_seen: bool,
}

struct Run<'a> {
    v: &'a VaultEnv,
    /// reference model == last verified observation
    m: VDump,
    st: Stats,
}

fn note_conv(ctx: &mut Ctx, st: &mut Stats, c: &Conv) {
    if c.rem {
        st.rem_seen = true;
        ctx.class("conversion_with_remainder");
    }
    if c.phantom {
        ctx.class("phantom_overflow_hit");
    }
    match c.exp {
        Exp::MustFail("overflow") => ctx.class("result_overflow"),
        Exp::MustFail(_) => ctx.class("negative_input"),
        Exp::MayFail(_) => ctx.class("intermediate_overflow"),
        Exp::Val(_) => {}
    }
}

impl<'a> Run<'a> {
    fn rate(&self) -> Rate {
        rate_of(self.m.total_assets(), self.m.share_supply, self.v.offset)
    }

    /// Reference quantity for the amount selectors of a vault op.
    fn resolve_vault_amt(&self, amt: &Amt, kind: VKind, holder: usize, operator: usize) -> i128 {
        let m = &self.m;
        let r = self.rate();
        let shares_for = |assets: i128| sat(&div_floor(&(b(assets) * &r.sv), &r.a1));
        let assets_for = |shares: i128| sat(&div_floor(&(b(shares) * &r.a1), &r.sv));
        let base = match kind {
            VKind::Deposit => m.asset_bal[holder],
            VKind::Mint => shares_for(m.asset_bal[holder]),
            VKind::Withdraw => assets_for(m.share_bal[holder]),
            VKind::Redeem => m.share_bal[holder],
        };
        match amt {
            Amt::Abs(x) => *x,
            Amt::Frac(k) => frac(base, *k),
            Amt::Part(p) => part(base, *p),
            Amt::MaxPlus(d) => base.saturating_add(*d as i128),
            Amt::AllowPlus(d) => {
                if operator == holder {
                    base.saturating_add(*d as i128)
                } else {
                    let al = match kind {
                        VKind::Deposit => m.asset_allow[holder][operator],
                        VKind::Mint => shares_for(m.asset_allow[holder][operator]),
                        VKind::Withdraw => assets_for(m.share_allow[holder][operator]),
                        VKind::Redeem => m.share_allow[holder][operator],
                    };
                    al.saturating_add(*d as i128)
                }
            }
            Amt::SupplyGap(d) => {
                let gap = i128::MAX - m.share_supply;
                let g = match kind {
                    VKind::Deposit | VKind::Withdraw => {
                        // assets whose floor-conversion reaches the gap: ceil(gap (A+1)/(S+V))
                        sat(&div_ceil(&(b(gap) * &r.a1), &r.sv))
                    }
                    _ => gap,
                };
                g.saturating_add(*d as i128)
            }
        }
    }
    fn resolve_simple(&self, amt: &Amt, base: i128) -> i128 {
        match amt {
            Amt::Abs(x) => *x,
            Amt::Frac(k) => frac(base, *k),
            Amt::Part(p) => part(base, *p),
            Amt::MaxPlus(d) | Amt::AllowPlus(d) => base.saturating_add(*d as i128),
            Amt::SupplyGap(d) => (i128::MAX - self.m.share_supply).saturating_add(*d as i128),
        }
    }

    /// observe, compare with the model, adopt
    fn sync(&mut self, want: &VDump, sig: &str, what: &str) -> R {
        let got = self.v.dump();
        ensure!(&got == want, sig.to_string(), "{what}: observed state {:?} differs from the model {:?}", got, want);
        self.m = got;
        Ok(())
    }

    /// One vault operation, fully checked.  Returns Some((assets, shares)) when it succeeded.
    fn vault_op(&mut self, ctx: &mut Ctx, c0: &VCall, mode: &VAuth, what: &str) -> Result<Option<(i128, i128)>, Violation> {
        let v = self.v;
        let f = c0.kind.func();
        let pre = self.m.clone();
        let (pred, conv) = predict(&pre, v.offset, c0);
        note_conv(ctx, &mut self.st, &conv);
        if c0.kind == VKind::Withdraw {
            // the max_withdraw bound is itself a conversion
            let mw = convert(&self.rate(), pre.share_bal[c0.holder], false, false);
            if mw.rem {
                self.st.rem_seen = true;
            }
        }
        let what = format!(
            "{what} {f}({}, receiver {}, holder {}, operator {}) auth {:?}; before: A={} S={} offset={}; model predicts {:?}",
            c0.amount,
            c0.receiver,
            c0.holder,
            c0.operator,
            mode,
            pre.total_assets(),
            pre.share_supply,
            v.offset,
            pred
        );

        // preview immediately before the operation
        let pv = v.q_amount(c0.kind.preview(), c0.amount);
        let pv_check = check_conv(c0.kind.preview(), &pv, &conv, &what);

        let mut c = c0.clone();
        c.pull_assets = match c0.kind {
            VKind::Deposit => c0.amount,
            VKind::Mint => pv.clone().ok().or(conv.value()).unwrap_or(0),
            _ => 0,
        };
        let (res, exact, evs) = v.exec(&c, mode);
        let post = v.dump();
        ctx.op(res.is_ok());

        if !exact {
            ensure!(
                res.is_err(),
                format!("C05/{f}/accepted-without-operator-authorization"),
                "{what}: succeeded ({:?}) although the operator's exact authorization tree was not attached",
                res
            );
            ensure!(post == pre, format!("C05/{f}/failed-call-changed-state"), "{what}: rejected call changed the state");
            pv_check?;
            ctx.class("auth_mode_rejected");
            return Ok(None);
        }

        let ret = match res {
            Err(er) => {
                ensure!(post == pre, format!("C05/{f}/failed-call-changed-state"), "{what}: failed call changed the state");
                pv_check?;
                match pred {
                    Pred::Ok { .. } => {
                        bail!(format!("C05/{f}/unexpected-failure"), "{what}: failed with {er} although every documented precondition holds")
                    }
                    Pred::Fail(why) => {
                        ctx.class(&format!("rejected:{why}"));
                        if why == "exceeds-max" {
                            let maxv = match c.kind {
                                VKind::Withdraw => convert(&self.rate(), pre.share_bal[c.holder], false, false).value().unwrap_or(0),
                                _ => pre.share_bal[c.holder],
                            };
                            if c.amount == maxv + 1 {
                                ctx.class(&format!("{f}_max_plus_1_rejected"));
                            }
                        }
                    }
                    Pred::Unsure { .. } => ctx.class("rejected:intermediate-overflow"),
                }
                return Ok(None);
            }
            Ok(x) => x,
        };

        // ---- success under exact authorization
        // core: the assets-per-share rate never decreases (observed balances only)
        ensure!(
            rate_not_decreased(&pre, &post, v.offset),
            format!("C05/{f}/rate-decreased"),
            "{what}: (A+1)/(S+V) decreased: A {} -> {}, S {} -> {} (returned {ret})",
            pre.total_assets(),
            post.total_assets(),
            pre.share_supply,
            post.share_supply
        );
        pv_check?;
        let (assets, shares) = match pred {
            Pred::Ok { assets, shares } | Pred::Unsure { assets, shares } => (assets, shares),
            Pred::Fail(why) => bail!(
                format!("C05/{f}/{why}-accepted"),
                "{what}: succeeded (returned {ret}); A {} -> {}, S {} -> {}",
                pre.total_assets(),
                post.total_assets(),
                pre.share_supply,
                post.share_supply
            ),
        };
        if let Ok(p) = &pv {
            ensure!(ret == *p, format!("C05/{f}/preview-mismatch"), "{what}: {} returned {p} immediately before, the operation returned {ret}", c.kind.preview());
        }
        let want_ret = if matches!(c.kind, VKind::Deposit | VKind::Withdraw) { shares } else { assets };
        ensure!(ret == want_ret, format!("C05/{f}/wrong-return"), "{what}: returned {ret}, exact formula gives {want_ret}");

        let want = apply(&pre, &c, assets, shares);
        diff_state(f, &c, &pre, &want, &post, &what)?;

        // the event carries the same two numbers and the same parties
        let ev_name = if c.kind.is_entry() { "deposit" } else { "withdraw" };
        let decoded: Vec<_> = evs.iter().filter(|ev| ev.topic_sym(0).as_deref() == Some(ev_name)).collect();
        ensure!(decoded.len() == 1, format!("C05/{f}/event-missing"), "{what}: expected exactly one `{ev_name}` event of the vault, got {:?}", evs);
        let Some((_, t, ea, es)) = decode_vault_event(&v.e, decoded[0]) else {
            bail!(format!("C05/{f}/event-malformed"), "{what}: cannot decode {:?}", decoded[0])
        };
        let a = &v.actors;
        // deposit: [operator, from, receiver]; withdraw: [operator, receiver, owner]
        let want_t = if c.kind.is_entry() {
            [a[c.operator].clone(), a[c.holder].clone(), a[c.receiver].clone()]
        } else {
            [a[c.operator].clone(), a[c.receiver].clone(), a[c.holder].clone()]
        };
        ensure!(
            (ea, es) == (assets, shares),
            format!("C05/{f}/event-wrong-amounts"),
            "{what}: event carries (assets {ea}, shares {es}), the operation moved (assets {assets}, shares {shares})"
        );
        ensure!(t == want_t, format!("C05/{f}/event-wrong-parties"), "{what}: event parties {:?}, expected {:?}", t, want_t);

        // bookkeeping
        self.m = post;
        ctx.class(&format!("ok:{f}"));
        if assets > 0 || shares > 0 {
            self.st.kinds_ok.insert(c.kind);
        }
        if pre.total_assets() == 0 && pre.share_supply == 0 {
            ctx.class("empty_vault_op_ok");
        }
        if c.operator != c.holder {
            ctx.class("operator_ne_owner_ok");
            if !c.kind.is_entry() && shares > 0 {
                ctx.class("share_allowance_spent");
            }
            if c.kind.is_entry() && assets > 0 {
                ctx.class("asset_allowance_spent");
            }
        }
        if conv.phantom {
            ctx.class("phantom_overflow_op_ok");
        }
        if conv.rem {
            ctx.class("op_with_remainder_ok");
        }
        match c.kind {
            VKind::Withdraw => {
                let maxw = convert(&rate_of(pre.total_assets(), pre.share_supply, v.offset), pre.share_bal[c.holder], false, false).value();
                if Some(c.amount) == maxw && c.amount > 0 {
                    ctx.class("withdraw_at_max_ok");
                }
            }
            VKind::Redeem => {
                if c.amount == pre.share_bal[c.holder] && c.amount > 0 {
                    ctx.class("redeem_at_max_ok");
                }
            }
            _ => {}
        }
        Ok(Some((assets, shares)))
    }
}

fn frac(base: i128, k: u8) -> i128 {
    let k = (k as i128).min(4);
    base / 4 * k + if k >= 4 { base % 4 } else { 0 }
}
fn part(base: i128, p: u16) -> i128 {
    sat(&((b(base) * b(p as i128 + 1)) >> 16))
}

fn other_than(holder: usize, sel: u16) -> usize {
    let others: Vec<usize> = (0..N_ACTORS).filter(|i| *i != holder).collect();
    others[pick(sel, others.len())]
}
/// donations come mostly from the donor (last actor)
fn donor_idx(sel: u16) -> usize {
    const MAP: [usize; 8] = [0, 1, 2, 3, 3, 3, 3, 3];
    MAP[pick(sel, MAP.len())]
}

pub fn run(case: &Case, ctx: &mut Ctx) -> R {
    let v = VaultEnv::setup(case.offset, case.seq);
    ctx.class(&format!("offset:{}", case.offset));
    for (i, f) in case.funds.iter().enumerate().take(N_ACTORS) {
        if *f > 0 {
            v.fund(i, *f).map_err(|er| violation("C05/setup/fund", er))?;
        }
    }
    let d0 = v.dump();
    ensure!(
        d0.total_assets() == 0 && d0.share_supply == 0 && d0.asset_bal[..N_ACTORS] == case.funds[..N_ACTORS],
        "C05/setup/initial-state",
        "unexpected initial state {:?}",
        d0
    );
    let qa = envx::call_t::<Address>(&v.e, &v.vault, "query_asset", args![&v.e]);
    ensure!(qa.as_ref().ok() == Some(&v.asset), "C05/query_asset/wrong-asset", "query_asset returned {:?}", qa);

    let mut run = Run { v: &v, m: d0, st: Stats::default() };

    for (step, op) in case.ops.iter().enumerate() {
        let what = format!("step {step}");
        match op {
            Op::Vault { kind, amt, receiver, holder, operator, auth } => {
                let holder = pick(*holder, N_ACTORS);
                let receiver = pick(*receiver, N_ACTORS);
                let (opr, allow) = match operator {
                    Who::Holder => (holder, None),
                    Who::Other { sel, allow } => (other_than(holder, *sel), Some(allow.clone())),
                };
                let amount = run.resolve_vault_amt(amt, *kind, holder, opr);
                let c = VCall { kind: *kind, amount, receiver, holder, operator: opr, pull_assets: 0 };
                if let Some(al) = allow {
                    // generated approval just before the call (set-up; the allowance is what is under test)
                    let needed = {
                        let (_, conv) = predict(&run.m, v.offset, &c);
                        match kind {
                            VKind::Deposit | VKind::Redeem => (amount >= 0).then_some(amount),
                            VKind::Mint | VKind::Withdraw => conv.value(),
                        }
                    };
                    let appr = match (al, needed) {
                        (Allow::Keep, _) => None,
                        (Allow::Max, _) => Some(i128::MAX),
                        (Allow::Needed(d), Some(n)) => Some(n.saturating_add(d as i128).max(0)),
                        (Allow::Needed(_), None) => None,
                    };
                    if let Some(x) = appr {
                        let mut want = run.m.clone();
                        if kind.is_entry() {
                            v.asset_approve(holder, opr, x).map_err(|er| violation("C05/setup/asset-approve", er))?;
                            want.asset_allow[holder][opr] = x;
                        } else {
                            v.share_approve(holder, opr, x).map_err(|er| violation("C05/setup/share-approve", er))?;
                            want.share_allow[holder][opr] = x;
                        }
                        run.sync(&want, "C05/setup/approve-state", &what)?;
                    }
                }
                run.vault_op(ctx, &c, auth, &what)?;
            }
            Op::Donate { by, amt } => {
                let by = donor_idx(*by);
                let x = run.resolve_simple(amt, run.m.asset_bal[by]);
                let pre = run.m.clone();
                let r = v.donate(by, x);
                let ok_expected = x >= 0 && x <= pre.asset_bal[by];
                ensure!(r.is_ok() == ok_expected, "C05/setup/donate", "{what}: donate({by}, {x}) -> {:?}, balance {}", r, pre.asset_bal[by]);
                let mut want = pre.clone();
                if ok_expected {
                    let vi = want.vault_idx();
                    want.asset_bal[by] -= x;
                    want.asset_bal[vi] += x;
                }
                run.sync(&want, "C05/donate/state-mismatch", &what)?;
                if ok_expected {
                    ensure!(rate_not_decreased(&pre, &run.m, v.offset), "C05/donate/rate-decreased", "{what}: donation lowered the rate");
                    if x > 0 {
                        ctx.class("donation_ok");
                    }
                }
            }
            Op::ApproveAsset { owner, spender, amt } | Op::ApproveShares { owner, spender, amt } => {
                let is_asset = matches!(op, Op::ApproveAsset { .. });
                let o = pick(*owner, N_ACTORS);
                let s = pick(*spender, N_ACTORS);
                let base = if is_asset { run.m.asset_bal[o] } else { run.m.share_bal[o] };
                let x = run.resolve_simple(amt, base);
                if x < 0 {
                    ctx.class("skipped_op");
                    continue;
                }
                let mut want = run.m.clone();
                if is_asset {
                    v.asset_approve(o, s, x).map_err(|er| violation("C05/setup/asset-approve", er))?;
                    want.asset_allow[o][s] = x;
                } else {
                    v.share_approve(o, s, x).map_err(|er| violation("C05/setup/share-approve", er))?;
                    want.share_allow[o][s] = x;
                }
                run.sync(&want, "C05/setup/approve-state", &what)?;
                ctx.class("approve_op");
            }
            Op::ShareTransfer { from, to, amt } => {
                let f = pick(*from, N_ACTORS);
                let t = pick(*to, N_ACTORS);
                let x = run.resolve_simple(amt, run.m.share_bal[f]);
                let pre = run.m.clone();
                let r = v.share_transfer(f, t, x);
                let ok_expected = x >= 0 && x <= pre.share_bal[f];
                ensure!(r.is_ok() == ok_expected, "C05/setup/share-transfer", "{what}: share transfer({f},{t},{x}) -> {:?}, balance {}", r, pre.share_bal[f]);
                let mut want = pre.clone();
                if ok_expected {
                    want.share_bal[f] -= x;
                    want.share_bal[t] += x;
                    if x > 0 && f != t {
                        ctx.class("share_transfer_ok");
                    }
                }
                run.sync(&want, "C05/share_transfer/state-mismatch", &what)?;
            }
            Op::Probe { kind, who, amt } => {
                let who = pick(*who, N_ACTORS);
                let r = run.rate();
                let m = &run.m;
                let what = format!("{what} probe {:?}; A={} S={} offset={}", kind, m.total_assets(), m.share_supply, v.offset);
                let (fname, to_shares, ceil) = match kind {
                    ProbeKind::ConvertToShares => ("convert_to_shares", true, false),
                    ProbeKind::PreviewDeposit => ("preview_deposit", true, false),
                    ProbeKind::PreviewWithdraw => ("preview_withdraw", true, true),
                    ProbeKind::ConvertToAssets => ("convert_to_assets", false, false),
                    ProbeKind::PreviewRedeem => ("preview_redeem", false, false),
                    ProbeKind::PreviewMint => ("preview_mint", false, true),
                    ProbeKind::MaxWithdraw => ("max_withdraw", false, false),
                    ProbeKind::MaxRedeem => ("max_redeem", false, false),
                    ProbeKind::Totals => ("total_assets", false, false),
                };
                match kind {
                    ProbeKind::Totals => {
                        let ta = v.q("total_assets", args![&v.e]);
                        ensure!(ta == Ok(m.total_assets()), "C05/total_assets/wrong-value", "{what}: total_assets() = {:?}, asset balance of the vault = {}", ta, m.total_assets());
                        let ts = v.q("total_supply", args![&v.e]);
                        ensure!(ts == Ok(m.share_supply), "C05/total_supply/wrong-value", "{what}: total_supply() = {:?}, model {}", ts, m.share_supply);
                        // documented constants of the deposit side ("currently i128::MAX") and the share decimals
                        // (underlying decimals + offset): the same offset that the rate formula uses
                        for f in ["max_deposit", "max_mint"] {
                            let g = v.q_addr(f, who);
                            ensure!(g == Ok(i128::MAX), format!("C05/{f}/wrong-value"), "{what}: {f}({who}) = {:?}, documented i128::MAX", g);
                        }
                        let ad = envx::call_t::<u32>(&v.e, &v.asset, "decimals", args![&v.e]);
                        let vd = envx::call_t::<u32>(&v.e, &v.vault, "decimals", args![&v.e]);
                        if let Ok(ad) = ad {
                            ensure!(vd == Ok(ad + v.offset), "C05/decimals/wrong-value", "{what}: vault decimals() = {:?}, underlying {} + offset {}", vd, ad, v.offset);
                        }
                    }
                    ProbeKind::MaxRedeem => {
                        let g = v.q_addr(fname, who);
                        ensure!(g == Ok(m.share_bal[who]), "C05/max_redeem/wrong-value", "{what}: max_redeem({who}) = {:?}, share balance {}", g, m.share_bal[who]);
                    }
                    ProbeKind::MaxWithdraw => {
                        let conv = convert(&r, m.share_bal[who], false, false);
                        let g = v.q_addr(fname, who);
                        let w = format!("{what} owner {who} with {} shares", m.share_bal[who]);
                        note_conv(ctx, &mut run.st, &conv);
                        check_conv(fname, &g, &conv, &w)?;
                    }
                    _ => {
                        let base = if to_shares { m.total_assets().max(m.asset_bal[who]) } else { m.share_supply.max(1) };
                        let x = run.resolve_simple(amt, base);
                        let conv = convert(&r, x, to_shares, ceil);
                        let g = v.q_amount(fname, x);
                        let w = format!("{what} input {x}");
                        note_conv(ctx, &mut run.st, &conv);
                        check_conv(fname, &g, &conv, &w)?;
                    }
                }
                ctx.class("probe");
            }
            Op::RoundTrip { kind, who, amt } => {
                let u = pick(*who, N_ACTORS);
                let (k1, k2) = match kind {
                    RtKind::DepositRedeem => (VKind::Deposit, VKind::Redeem),
                    RtKind::DepositWithdraw => (VKind::Deposit, VKind::Withdraw),
                    RtKind::MintWithdraw => (VKind::Mint, VKind::Withdraw),
                    RtKind::MintRedeem => (VKind::Mint, VKind::Redeem),
                };
                let x = run.resolve_vault_amt(amt, k1, u, u);
                let c1 = VCall { kind: k1, amount: x, receiver: u, holder: u, operator: u, pull_assets: 0 };
                let Some((a_in, s_in)) = run.vault_op(ctx, &c1, &VAuth::Exact, &format!("{what} round-trip {:?} leg 1", kind))? else {
                    ctx.class("roundtrip_leg1_rejected");
                    continue;
                };
                // leg 2 undoes leg 1 in the unit of the second call
                let y = if k2 == VKind::Redeem { s_in } else { a_in };
                let c2 = VCall { kind: k2, amount: y, receiver: u, holder: u, operator: u, pull_assets: 0 };
                match run.vault_op(ctx, &c2, &VAuth::Exact, &format!("{what} round-trip {:?} leg 2", kind))? {
                    None => ctx.class("roundtrip_leg2_rejected"),
                    Some((a_out, s_out)) => {
                        // rounding is in the vault's favour: never more assets out than in, never fewer shares burned than minted
                        if k2 == VKind::Redeem {
                            ensure!(
                                a_out <= a_in,
                                "C05/roundtrip/assets-gained",
                                "{what}: {:?} by user {u}: paid {a_in} assets for {s_in} shares, redeeming them returned {a_out}",
                                kind
                            );
                        } else {
                            ensure!(
                                s_out >= s_in,
                                "C05/roundtrip/shares-gained",
                                "{what}: {:?} by user {u}: got {s_in} shares for {a_in} assets, withdrawing the assets burned only {s_out}",
                                kind
                            );
                        }
                        ctx.class("roundtrip_ok");
                    }
                }
            }
        }
    }

    // entry-point view agrees with the bulk read
    let ta = v.q("total_assets", args![&v.e]);
    ensure!(ta == Ok(run.m.total_assets()), "C05/total_assets/wrong-value", "final total_assets() = {:?}, asset balance of the vault = {}", ta, run.m.total_assets());
    let ts = v.q("total_supply", args![&v.e]);
    ensure!(ts == Ok(run.m.share_supply), "C05/total_supply/wrong-value", "final total_supply() = {:?}, model {}", ts, run.m.share_supply);

    if run.st.rem_seen && run.st.kinds_ok.len() >= 2 {
        ctx.nontrivial = true;
        ctx.class("nontrivial");
    }
    Ok(())
}

macro_rules! offset_sub {
    ($name:expr, $off:expr) => {{
        fn strat(tier: Tier) -> BoxedStrategy<Case> {
            strategy_for($off, tier)
        }
        gen_sub::<Case>($name, 150, 3750, strat, run)
    }};
}

pub fn property() -> Property {
    Property {
        id: "C05",
        rule: "case = (decimals offset 0..=10 [one sub-check each], asset funding of 3 users + donor from {0, small, 10^6.., 10^17.., 2^100..}, optional \
               pre-funding prefix, history of <=28 (thorough 40) ops deposit/mint/withdraw/redeem [operator = holder or another actor with a generated \
               allowance Needed-1/Needed/Needed+k/Max/Keep; auth Exact|Surplus mostly, Drop|Swap|DropSub|Tamper sometimes] / donate / approve / share transfer / \
               conversion+max probes / two-leg round trips; amounts from {0,1,2,3,7,10^k+-1, k/4 and p/65536 of balance, max+-1, allowance+-1, supply gap, huge, negative}); \
               non-trivial = some evaluated conversion had a non-zero remainder AND >= 2 different operation kinds succeeded moving a non-zero amount; distinct = distinct serialised case",
        subs: vec![
            offset_sub!("offset-0", 0),
            offset_sub!("offset-1", 1),
            offset_sub!("offset-2", 2),
            offset_sub!("offset-3", 3),
            offset_sub!("offset-4", 4),
            offset_sub!("offset-5", 5),
            offset_sub!("offset-6", 6),
            offset_sub!("offset-7", 7),
            offset_sub!("offset-8", 8),
            offset_sub!("offset-9", 9),
            offset_sub!("offset-10", 10),
        ],
        floors: vec![
            ("nontrivial", 100, 2000),
            ("ok:deposit", 300, 6000),
            ("ok:mint", 250, 5000),
            ("ok:withdraw", 200, 4000),
            ("ok:redeem", 230, 4600),
            ("operator_ne_owner_ok", 270, 5400),
            ("share_allowance_spent", 35, 700),
            ("asset_allowance_spent", 85, 1700),
            ("phantom_overflow_hit", 430, 8600),
            ("phantom_overflow_op_ok", 190, 3800),
            ("empty_vault_op_ok", 170, 3400),
            ("donation_ok", 180, 3600),
            ("op_with_remainder_ok", 470, 9400),
            ("auth_mode_rejected", 110, 2200),
            ("withdraw_at_max_ok", 16, 320),
            ("withdraw_max_plus_1_rejected", 50, 1000),
            ("redeem_at_max_ok", 40, 800),
            ("redeem_max_plus_1_rejected", 25, 500),
            ("roundtrip_ok", 110, 2200),
            ("result_overflow", 80, 1600),
            ("probe", 300, 6000),
        ],
        assumptions: vec![
            "Soroban native test host (auth-tree matching, rollback of failed invocations, event buffer) is trusted",
            "plain actors are contract addresses with an accept-all account contract: 'X authorized' == 'an entry of X with exactly this invocation tree was attached'",
            "asset token = library Base token (FtBase); total assets = its balance of the vault; the ledger is not advanced, so allowances never expire",
            "when S + 10^offset does not fit i128 (intermediate overflow) a documented MathOverflow failure is accepted; a success must still carry the exact value",
        ],
    }
}

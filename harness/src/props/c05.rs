//! C05 — not implemented yet.
use crate::engine::*;

pub fn property() -> Property {
    Property { id: "C05", rule: "", subs: vec![], floors: vec![], assumptions: vec![] }
}

//! C13 — Voting power equals delegated balances, now and at every past ledger.
//!
//! Targets: example `fungible-votes`, harness `FtVotes` (with burn), harness `NftVotes`
//! (1 unit per NFT), and the bare `votes` library behind `VotesLib`.
//!
//! Oracle (reference model written from the statement): `units[a]`, `delegate[a]`; votes of `a`
//! = Σ units of the accounts currently delegating to `a` (recomputed from scratch after every
//! step); total = Σ units; per ledger the END-OF-LEDGER `(votes[..], total)` snapshot.  After
//! every step the full current state is compared; every k-th step and at the end EVERY past
//! ledger `start-2 ..= current-1` (and ledger 0) is queried for every account and for the total
//! and compared with the model's snapshot (so a later operation that rewrites the past is seen);
//! queries at `current` and `current+δ` must be refused.  `num_checkpoints(a)` = number of
//! distinct ledgers in which an operation changed `a`'s votes (documented coalescing rule:
//! "pushes a new checkpoint or updates the last one if same ledger").

use crate::contracts::c13::{nft_votes::NftVotes, votes_lib::VotesLib};
use crate::contracts::ft::ft_votes::FtVotes;
use crate::engine::*;
use crate::envx::{self, Inv};
use crate::examples::fungible_votes::contract::ExampleContract as ExVotesContract;
use crate::gen::pick;
use proptest::prelude::*;
use serde::{Deserialize, Serialize};
use soroban_sdk::{Address, Env, TryFromVal, Val, Vec as SVec};
use std::collections::{BTreeMap, BTreeSet};
use std::panic::{catch_unwind, AssertUnwindSafe};
use stellar_governance::votes as lib;

const N: usize = 4;
/// maximal ledger span of one history
const MAX_SPAN: u32 = 200;
/// first explicit NFT id (never reached by the sequential counter)
const EXPLICIT_BASE: u32 = 1_000_000;
/// budget installed around every single past-ledger query of a bulk sweep so that a non-terminating
/// lookup is observed as a violation instead of hanging the run (a query normally needs < 1 % of this)
const QUERY_CPU: u64 = 100_000_000;
const QUERY_MEM: u64 = 400_000_000;

// ------------------------------------------------------------------------------------ case

#[derive(Clone, Copy, Debug, Serialize, Deserialize, PartialEq, Eq)]
pub enum Target {
    ExVotes,
    FtVotes,
    NftVotes,
    Lib,
}
impl Target {
    fn is_fungible(self) -> bool {
        matches!(self, Target::ExVotes | Target::FtVotes)
    }
    fn is_token(self) -> bool {
        !matches!(self, Target::Lib)
    }
    fn label(self) -> &'static str {
        match self {
            Target::ExVotes => "ex-fungible-votes",
            Target::FtVotes => "ft-votes",
            Target::NftVotes => "nft-votes",
            Target::Lib => "lib",
        }
    }
}

/// Amount selector, resolved against the model at execution time.
/// NFT flavour: `BalPlus(1)` selects a token the sender does NOT own (must fail); anything else an own token.
#[derive(Clone, Debug, Serialize, Deserialize)]
pub enum Amt {
    Abs(u32),
    /// (1 << 100) >> k for tokens; u128::MAX >> k for the bare library
    Huge(u8),
    /// balance * num / 4 (num = 4: full balance, 0: zero)
    Frac(u8),
    /// balance + d  (d = +1 must fail; balance 0 and d = -1 is a negative amount and must fail)
    BalPlus(i8),
}

#[derive(Clone, Debug, Serialize, Deserialize)]
pub enum DelSel {
    SelfD,
    Acct(u16),
    /// the current delegate (documented error SameDelegate); self when there is none yet
    Current,
    /// any account different from the current delegate (always a change)
    Changed(u16),
}

#[derive(Clone, Debug, Serialize, Deserialize)]
pub enum Op {
    Mint { to: u16, amt: Amt, explicit: bool },
    Burn { from: u16, amt: Amt, tok: u16 },
    BurnFrom { spender: u16, from: u16, amt: Amt, tok: u16 },
    Transfer { from: u16, to: u16, amt: Amt, tok: u16 },
    TransferFrom { spender: u16, from: u16, to: u16, amt: Amt, tok: u16 },
    Delegate { who: u16, to: DelSel },
    Advance { k: u8 },
}

#[derive(Clone, Debug, Serialize, Deserialize)]
pub struct Case {
    pub target: Target,
    pub seq: u32,
    /// a full past-ledger sweep after every `sweep_every`-th step (and at the end)
    pub sweep_every: u8,
    /// selectors of past ledgers also queried through the public entry points
    pub probes: Vec<u16>,
    pub ops: Vec<Op>,
}

fn amt_strategy(t: Target) -> BoxedStrategy<Amt> {
    if t == Target::NftVotes {
        return prop_oneof![9 => Just(Amt::Frac(4)), 1 => Just(Amt::BalPlus(1))].boxed();
    }
    prop_oneof![
        4 => (0u32..=50).prop_map(Amt::Abs),
        1 => any::<u32>().prop_map(Amt::Abs),
        1 => (0u8..=8).prop_map(Amt::Huge),
        8 => (0u8..=4).prop_map(Amt::Frac),
        2 => prop_oneof![Just(-1i8), Just(0i8), Just(1i8)].prop_map(Amt::BalPlus),
    ]
    .boxed()
}

fn op_strategy(t: Target) -> BoxedStrategy<Op> {
    let s = || any::<u16>();
    let a = amt_strategy(t);
    let mint_amt: BoxedStrategy<Amt> = if t == Target::NftVotes {
        Just(Amt::Abs(1)).boxed()
    } else {
        prop_oneof![6 => (0u32..=100).prop_map(Amt::Abs), 2 => any::<u32>().prop_map(Amt::Abs), 1 => (0u8..=8).prop_map(Amt::Huge)].boxed()
    };
    let has_burn = t != Target::ExVotes;
    let has_from = t != Target::Lib;
    let del = prop_oneof![
        2 => Just(DelSel::SelfD),
        3 => s().prop_map(DelSel::Acct),
        1 => Just(DelSel::Current),
        4 => s().prop_map(DelSel::Changed),
    ];
    let adv = proptest::sample::select(vec![0u8, 0, 0, 1, 1, 2, 3, 4, 5, 6, 7, 8, 9, 10]);
    prop_oneof![
        5 => (s(), mint_amt, any::<bool>()).prop_map(|(to, amt, explicit)| Op::Mint { to, amt, explicit }),
        (if has_burn { 2 } else { 0 }) => (s(), a.clone(), s()).prop_map(|(from, amt, tok)| Op::Burn { from, amt, tok }),
        (if has_burn && has_from { 1 } else { 0 }) =>
            (s(), s(), a.clone(), s()).prop_map(|(spender, from, amt, tok)| Op::BurnFrom { spender, from, amt, tok }),
        7 => (s(), s(), a.clone(), s()).prop_map(|(from, to, amt, tok)| Op::Transfer { from, to, amt, tok }),
        (if has_from { 3 } else { 0 }) =>
            (s(), s(), s(), a.clone(), s()).prop_map(|(spender, from, to, amt, tok)| Op::TransferFrom { spender, from, to, amt, tok }),
        5 => (s(), del).prop_map(|(who, to)| Op::Delegate { who, to }),
        6 => adv.prop_map(|k| Op::Advance { k }),
    ]
    .boxed()
}

fn strategy_for(t: Target, tier: Tier) -> BoxedStrategy<Case> {
    let max_ops = tier.pick(60usize, 90usize);
    (
        prop_oneof![1 => Just(2u32), 1 => Just(3u32), 6 => 100u32..5000],
        4u8..=16,
        proptest::collection::vec(any::<u16>(), 0..6),
        prop_oneof![
            1 => proptest::collection::vec(op_strategy(t), 0..=15),
            4 => proptest::collection::vec(op_strategy(t), 25..=max_ops),
        ],
    )
        .prop_map(move |(seq, sweep_every, probes, ops)| Case { target: t, seq, sweep_every, probes, ops })
        .boxed()
}

// ------------------------------------------------------------------------------------ model

#[derive(Clone, Debug, PartialEq, Eq)]
struct EndOfLedger {
    votes: [u128; N],
    total: u128,
}

struct Model {
    units: [u128; N],
    deleg: [Option<usize>; N],
    /// end-of-ledger snapshot of every ledger in which a successful operation happened
    hist: BTreeMap<u32, EndOfLedger>,
    /// ledgers in which an operation changed the account's votes
    written: [BTreeSet<u32>; N],
    /// number of vote-changing operations per (account, ledger)
    writes: BTreeMap<(usize, u32), u32>,
    /// NFT flavour: live tokens (id, owner)
    tokens: Vec<(u32, usize)>,
    burned: Vec<u32>,
    next_explicit: u32,
}

impl Model {
    fn new() -> Model {
        Model {
            units: [0; N],
            deleg: [None; N],
            hist: BTreeMap::new(),
            written: Default::default(),
            writes: BTreeMap::new(),
            tokens: vec![],
            burned: vec![],
            next_explicit: EXPLICIT_BASE,
        }
    }
    /// the statement: votes(a) = Σ units of the accounts currently delegating to a
    fn votes(&self) -> [u128; N] {
        let mut v = [0u128; N];
        for x in 0..N {
            if let Some(d) = self.deleg[x] {
                v[d] += self.units[x];
            }
        }
        v
    }
    fn total(&self) -> u128 {
        self.units.iter().sum()
    }
    /// value that held at the end of ledger `q` (0 before the first write)
    fn at(&self, q: u32) -> EndOfLedger {
        match self.hist.range(..=q).next_back() {
            Some((_, s)) => s.clone(),
            None => EndOfLedger { votes: [0; N], total: 0 },
        }
    }
    /// record the state after a successful operation executed in ledger `now`
    fn commit(&mut self, before: [u128; N], now: u32) {
        let after = self.votes();
        for a in 0..N {
            if after[a] != before[a] {
                self.written[a].insert(now);
                *self.writes.entry((a, now)).or_insert(0) += 1;
            }
        }
        self.hist.insert(now, EndOfLedger { votes: after, total: self.total() });
    }
}

// ------------------------------------------------------------------------------------ driver

struct Tok {
    e: Env,
    addr: Address,
    target: Target,
    admin: Address,
    accts: Vec<Address>,
}

fn panic_text(p: Box<dyn std::any::Any + Send>) -> String {
    if let Some(s) = p.downcast_ref::<String>() {
        s.clone()
    } else if let Some(s) = p.downcast_ref::<&str>() {
        s.to_string()
    } else {
        "panic".to_string()
    }
}

/// current observable state read with the library's own getters in one contract frame
#[derive(Debug)]
struct Snap {
    units: [u128; N],
    votes: [u128; N],
    deleg: [Option<usize>; N],
    deleg_unknown: bool,
    ncp: [u32; N],
    total: u128,
    /// token balance (token flavours), as i128 to hold a (wrong) negative value
    bal: [i128; N],
}

impl Tok {
    fn setup(target: Target, seq: u32) -> Result<Tok, Violation> {
        let e = envx::new_env(seq, envx::BIG_TTL);
        // the SDK's default per-invocation "mainnet resource limits" would abort the process (panic inside a
        // drop guard) when a bulk sweep frame or a runaway lookup exceeds them; the budget guard in `sweep`
        // is what bounds work here
        e.cost_estimate().disable_resource_limits();
        let admin = envx::actor(&e);
        let accts = envx::actors(&e, N);
        let addr = match target {
            Target::ExVotes => e.register(ExVotesContract, (admin.clone(),)),
            Target::FtVotes => e.register(FtVotes, (admin.clone(),)),
            Target::NftVotes => e.register(NftVotes, (admin.clone(),)),
            Target::Lib => e.register(VotesLib, ()),
        };
        let t = Tok { e, addr, target, admin, accts };
        // set-up: allowances / operator approvals for every (owner, spender) pair so that
        // transfer_from / burn_from are exercised (allowances are not C13's subject)
        let e = &t.e;
        let live = seq.saturating_add(5000);
        for o in 0..N {
            for s in 0..N {
                let (func, args) = match target {
                    Target::ExVotes | Target::FtVotes => {
                        ("approve", crate::args![e; t.accts[o].clone(), t.accts[s].clone(), i128::MAX, live])
                    }
                    Target::NftVotes => {
                        if o == s {
                            continue;
                        }
                        ("approve_for_all", crate::args![e; t.accts[o].clone(), t.accts[s].clone(), live])
                    }
                    Target::Lib => continue,
                };
                let inv = Inv::new(&t.addr, func, args.clone());
                envx::set_auth(e, &[(&t.accts[o], &inv)]);
                let r = envx::call(e, &t.addr, func, args);
                ensure!(r.is_ok(), "C13/setup/approve-failed", "{func} of account {o} for {s} failed: {:?}", r);
            }
        }
        envx::no_auth(e);
        Ok(t)
    }

    fn idx_of(&self, a: &Address) -> Option<usize> {
        self.accts.iter().position(|x| x == a)
    }

    fn snap(&self) -> Result<Snap, String> {
        let e = &self.e;
        let r = catch_unwind(AssertUnwindSafe(|| {
            e.as_contract(&self.addr, || {
                let mut s = Snap {
                    units: [0; N],
                    votes: [0; N],
                    deleg: [None; N],
                    deleg_unknown: false,
                    ncp: [0; N],
                    total: lib::get_total_supply(e),
                    bal: [0; N],
                };
                for (i, a) in self.accts.iter().enumerate() {
                    s.units[i] = lib::get_voting_units(e, a);
                    s.votes[i] = lib::get_votes(e, a);
                    s.ncp[i] = lib::num_checkpoints(e, a);
                    if let Some(d) = lib::get_delegate(e, a) {
                        match self.idx_of(&d) {
                            Some(j) => s.deleg[i] = Some(j),
                            None => s.deleg_unknown = true,
                        }
                    }
                    s.bal[i] = match self.target {
                        Target::ExVotes | Target::FtVotes => stellar_tokens::fungible::Base::balance(e, a),
                        Target::NftVotes => stellar_tokens::non_fungible::Base::balance(e, a) as i128,
                        Target::Lib => 0,
                    };
                }
                s
            })
        }));
        r.map_err(panic_text)
    }

    /// bulk past-query sweep over `ledgers` (all < current) for every account and the total;
    /// returns the first disagreement with the model
    fn sweep(&self, m: &Model, ledgers: &[u32]) -> Result<Option<String>, String> {
        let e = &self.e;
        let r = catch_unwind(AssertUnwindSafe(|| {
            e.as_contract(&self.addr, || {
                for &q in ledgers {
                    let want = m.at(q);
                    for (i, a) in self.accts.iter().enumerate() {
                        e.cost_estimate().budget().reset_limits(QUERY_CPU, QUERY_MEM);
                        let got = lib::get_votes_at_checkpoint(e, a, q);
                        if got != want.votes[i] {
                            return Some(format!(
                                "get_votes_at_checkpoint(account {i}, ledger {q}) = {got}, value at the end of that ledger was {}",
                                want.votes[i]
                            ));
                        }
                    }
                    e.cost_estimate().budget().reset_limits(QUERY_CPU, QUERY_MEM);
                    let got = lib::get_total_supply_at_checkpoint(e, q);
                    if got != want.total {
                        return Some(format!(
                            "T:get_total_supply_at_checkpoint(ledger {q}) = {got}, value at the end of that ledger was {}",
                            want.total
                        ));
                    }
                }
                None
            })
        }));
        let (cpu, mem) = envx::budget_limits();
        e.cost_estimate().budget().reset_limits(cpu, mem);
        r.map_err(panic_text)
    }

    fn api<T: TryFromVal<Env, Val>>(&self, f: &str, args: SVec<Val>) -> Result<T, String> {
        envx::no_auth(&self.e);
        envx::call_t::<T>(&self.e, &self.addr, f, args)
    }
}

/// what the model does when the call succeeds
enum Effect {
    Move { from: Option<usize>, to: Option<usize>, amt: u128 },
    NftMint { to: usize, id: Option<u32> },
    NftMove { tok: usize, to: usize },
    NftBurn { tok: usize },
    Deleg { who: usize, to: usize },
    /// a call the model refuses; nothing to apply
    Nothing,
}

struct Planned {
    func: &'static str,
    args: SVec<Val>,
    signer: Option<Address>,
    eff: Effect,
    expect_ok: bool,
    /// documented reason when `expect_ok` is false
    why_not: &'static str,
}

fn resolve_amt(t: Target, amt: &Amt, bal: u128) -> i128 {
    // token flavours: i128 domain; amounts stay far below i128::MAX / 60 so that neither the
    // supply nor the set-up allowance can be exhausted by a history of <= 90 operations
    let b = bal as i128;
    match amt {
        Amt::Abs(x) => *x as i128,
        Amt::Huge(k) => {
            debug_assert!(t.is_fungible());
            (1i128 << 100) >> *k
        }
        Amt::Frac(n) => {
            let n = (*n).min(4) as i128;
            if n == 4 {
                b
            } else {
                b / 4 * n + (b % 4) * n / 4
            }
        }
        Amt::BalPlus(d) => b + *d as i128,
    }
}

fn resolve_amt_lib(amt: &Amt, bal: u128) -> u128 {
    match amt {
        Amt::Abs(x) => *x as u128,
        Amt::Huge(k) => u128::MAX >> *k,
        Amt::Frac(n) => {
            let n = (*n).min(4) as u128;
            if n == 4 {
                bal
            } else {
                bal / 4 * n + (bal % 4) * n / 4
            }
        }
        Amt::BalPlus(d) => {
            if *d >= 0 {
                bal.saturating_add(*d as u128)
            } else {
                bal.saturating_sub(1)
            }
        }
    }
}

/// NFT: pick a token for a sender; `foreign` asks for a token the sender does not own
fn pick_token(m: &Model, from: usize, sel: u16, foreign: bool) -> (u32, Option<usize>, bool) {
    // returns (token id, index in m.tokens if live, owned by from)
    let own: Vec<usize> = m.tokens.iter().enumerate().filter(|(_, (_, o))| *o == from).map(|(i, _)| i).collect();
    let other: Vec<usize> = m.tokens.iter().enumerate().filter(|(_, (_, o))| *o != from).map(|(i, _)| i).collect();
    if !foreign && !own.is_empty() {
        let i = own[pick(sel, own.len())];
        return (m.tokens[i].0, Some(i), true);
    }
    if !other.is_empty() {
        let i = other[pick(sel, other.len())];
        return (m.tokens[i].0, Some(i), false);
    }
    if foreign && !own.is_empty() {
        // nothing foreign exists: a burned or never-minted id
        let id = if m.burned.is_empty() { EXPLICIT_BASE - 1 } else { m.burned[pick(sel, m.burned.len())] };
        return (id, None, false);
    }
    let id = if m.burned.is_empty() { EXPLICIT_BASE - 1 } else { m.burned[pick(sel, m.burned.len())] };
    (id, None, false)
}

fn plan(t: &Tok, m: &Model, op: &Op, ctx: &mut Ctx) -> Option<Planned> {
    let e = &t.e;
    let acct = |s: u16| pick(s, N);
    // sender selector: odd `tok` restricts the choice to accounts that currently hold units (if any),
    // so that most transfers/burns move something; even `tok` keeps the raw choice (empty senders)
    let holder = |s: u16, tok: u16| {
        let h: Vec<usize> = (0..N).filter(|x| m.units[*x] > 0).collect();
        if tok & 1 == 1 && !h.is_empty() {
            h[pick(s, h.len())]
        } else {
            pick(s, N)
        }
    };
    let a = |i: usize| t.accts[i].clone();
    let tg = t.target;
    match op {
        Op::Advance { .. } => None,
        Op::Mint { to, amt, explicit } => {
            let ti = acct(*to);
            match tg {
                Target::ExVotes | Target::FtVotes => {
                    let x = resolve_amt(tg, amt, m.units[ti]);
                    let args = crate::args![e; a(ti), x];
                    let ok = x >= 0 && (m.total() as i128).checked_add(x).is_some();
                    Some(Planned {
                        func: "mint",
                        args,
                        signer: Some(t.admin.clone()),
                        eff: if ok { Effect::Move { from: None, to: Some(ti), amt: x as u128 } } else { Effect::Nothing },
                        expect_ok: ok,
                        why_not: "negative amount or supply overflow",
                    })
                }
                Target::NftVotes => {
                    if *explicit {
                        let id = m.next_explicit;
                        Some(Planned {
                            func: "mint_id",
                            args: crate::args![e; a(ti), id],
                            signer: Some(t.admin.clone()),
                            eff: Effect::NftMint { to: ti, id: Some(id) },
                            expect_ok: true,
                            why_not: "",
                        })
                    } else {
                        Some(Planned {
                            func: "mint",
                            args: crate::args![e; a(ti)],
                            signer: Some(t.admin.clone()),
                            eff: Effect::NftMint { to: ti, id: None },
                            expect_ok: true,
                            why_not: "",
                        })
                    }
                }
                Target::Lib => {
                    let x = resolve_amt_lib(amt, m.units[ti]);
                    let ok = m.total().checked_add(x).is_some();
                    if !ok {
                        ctx.class("lib_mint_overflow_attempt");
                    }
                    Some(Planned {
                        func: "transfer_voting_units",
                        args: crate::args![e; Option::<Address>::None, Some(a(ti)), x],
                        signer: None,
                        eff: if ok { Effect::Move { from: None, to: Some(ti), amt: x } } else { Effect::Nothing },
                        expect_ok: ok,
                        why_not: "total supply overflow (MathOverflow)",
                    })
                }
            }
        }
        Op::Burn { from, amt, tok } | Op::BurnFrom { from, amt, tok, .. } => {
            let fi = holder(*from, *tok);
            let spender = match op {
                Op::BurnFrom { spender, .. } => Some(acct(*spender)),
                _ => None,
            };
            match tg {
                Target::ExVotes => {
                    ctx.class("skipped_op");
                    None
                }
                Target::FtVotes => {
                    let x = resolve_amt(tg, amt, m.units[fi]);
                    let ok = x >= 0 && (x as u128) <= m.units[fi];
                    let eff = if ok { Effect::Move { from: Some(fi), to: None, amt: x as u128 } } else { Effect::Nothing };
                    Some(match spender {
                        None => Planned {
                            func: "burn",
                            args: crate::args![e; a(fi), x],
                            signer: Some(a(fi)),
                            eff,
                            expect_ok: ok,
                            why_not: "negative amount or insufficient balance",
                        },
                        Some(si) => Planned {
                            func: "burn_from",
                            args: crate::args![e; a(si), a(fi), x],
                            signer: Some(a(si)),
                            eff,
                            expect_ok: ok,
                            why_not: "negative amount or insufficient balance",
                        },
                    })
                }
                Target::NftVotes => {
                    let foreign = matches!(amt, Amt::BalPlus(1));
                    let (id, ix, owned) = pick_token(m, fi, *tok, foreign);
                    let eff = if owned { Effect::NftBurn { tok: ix.unwrap() } } else { Effect::Nothing };
                    Some(match spender {
                        None => Planned {
                            func: "burn",
                            args: crate::args![e; a(fi), id],
                            signer: Some(a(fi)),
                            eff,
                            expect_ok: owned,
                            why_not: "token not owned by `from` / non-existent",
                        },
                        Some(si) => Planned {
                            func: "burn_from",
                            args: crate::args![e; a(si), a(fi), id],
                            signer: Some(a(si)),
                            eff,
                            expect_ok: owned,
                            why_not: "token not owned by `from` / non-existent",
                        },
                    })
                }
                Target::Lib => {
                    let x = resolve_amt_lib(amt, m.units[fi]);
                    let ok = x == 0 || x <= m.units[fi];
                    Some(Planned {
                        func: "transfer_voting_units",
                        args: crate::args![e; Some(a(fi)), Option::<Address>::None, x],
                        signer: None,
                        eff: if ok { Effect::Move { from: Some(fi), to: None, amt: x } } else { Effect::Nothing },
                        expect_ok: ok,
                        why_not: "more voting units than available (InsufficientVotingUnits)",
                    })
                }
            }
        }
        Op::Transfer { from, to, amt, tok } | Op::TransferFrom { from, to, amt, tok, .. } => {
            let fi = holder(*from, *tok);
            let ti = acct(*to);
            let spender = match op {
                Op::TransferFrom { spender, .. } if tg != Target::Lib => Some(acct(*spender)),
                _ => None,
            };
            match tg {
                Target::ExVotes | Target::FtVotes => {
                    let x = resolve_amt(tg, amt, m.units[fi]);
                    let ok = x >= 0 && (x as u128) <= m.units[fi];
                    let eff = if ok { Effect::Move { from: Some(fi), to: Some(ti), amt: x as u128 } } else { Effect::Nothing };
                    Some(match spender {
                        None => Planned {
                            func: "transfer",
                            args: crate::args![e; a(fi), a(ti), x],
                            signer: Some(a(fi)),
                            eff,
                            expect_ok: ok,
                            why_not: "negative amount or insufficient balance",
                        },
                        Some(si) => Planned {
                            func: "transfer_from",
                            args: crate::args![e; a(si), a(fi), a(ti), x],
                            signer: Some(a(si)),
                            eff,
                            expect_ok: ok,
                            why_not: "negative amount or insufficient balance",
                        },
                    })
                }
                Target::NftVotes => {
                    let foreign = matches!(amt, Amt::BalPlus(1));
                    let (id, ix, owned) = pick_token(m, fi, *tok, foreign);
                    let eff = if owned { Effect::NftMove { tok: ix.unwrap(), to: ti } } else { Effect::Nothing };
                    Some(match spender {
                        None => Planned {
                            func: "transfer",
                            args: crate::args![e; a(fi), a(ti), id],
                            signer: Some(a(fi)),
                            eff,
                            expect_ok: owned,
                            why_not: "token not owned by `from` / non-existent",
                        },
                        Some(si) => Planned {
                            func: "transfer_from",
                            args: crate::args![e; a(si), a(fi), a(ti), id],
                            signer: Some(a(si)),
                            eff,
                            expect_ok: owned,
                            why_not: "token not owned by `from` / non-existent",
                        },
                    })
                }
                Target::Lib => {
                    let x = resolve_amt_lib(amt, m.units[fi]);
                    let ok = x == 0 || x <= m.units[fi];
                    Some(Planned {
                        func: "transfer_voting_units",
                        args: crate::args![e; Some(a(fi)), Some(a(ti)), x],
                        signer: None,
                        eff: if ok { Effect::Move { from: Some(fi), to: Some(ti), amt: x } } else { Effect::Nothing },
                        expect_ok: ok,
                        why_not: "more voting units than available (InsufficientVotingUnits)",
                    })
                }
            }
        }
        Op::Delegate { who, to } => {
            let wi = acct(*who);
            let cur = m.deleg[wi];
            let di = match to {
                DelSel::SelfD => wi,
                DelSel::Acct(s) => acct(*s),
                DelSel::Current => cur.unwrap_or(wi),
                DelSel::Changed(s) => {
                    let cands: Vec<usize> = (0..N).filter(|x| Some(*x) != cur).collect();
                    cands[pick(*s, cands.len())]
                }
            };
            let ok = cur != Some(di);
            Some(Planned {
                func: "delegate",
                args: crate::args![e; a(wi), a(di)],
                signer: Some(a(wi)),
                eff: if ok { Effect::Deleg { who: wi, to: di } } else { Effect::Nothing },
                expect_ok: ok,
                why_not: "delegatee is already the current delegate (SameDelegate)",
            })
        }
    }
}

fn check_current(t: &Tok, m: &Model, prev_ncp: &mut [u32; N], what: &str) -> R {
    let s = t.snap().map_err(|p| violation("C13/getters/panicked", format!("after {what}: a current-state getter panicked: {p}")))?;
    let votes = m.votes();
    ensure!(!s.deleg_unknown, "C13/get_delegate/mismatch", "after {what}: a delegate outside the universe is reported");
    for a in 0..N {
        if t.target.is_token() {
            ensure!(
                s.bal[a] >= 0 && s.units[a] == s.bal[a] as u128,
                "C13/get_voting_units/ne-balance",
                "after {what}: get_voting_units(account {a}) = {} but token balance = {}",
                s.units[a],
                s.bal[a]
            );
            ensure!(
                s.bal[a] as u128 == m.units[a],
                "C13/balance/ne-model",
                "after {what}: token balance(account {a}) = {}, expected {}",
                s.bal[a],
                m.units[a]
            );
        }
        ensure!(
            s.units[a] == m.units[a],
            "C13/get_voting_units/ne-model",
            "after {what}: get_voting_units(account {a}) = {}, expected {}",
            s.units[a],
            m.units[a]
        );
        ensure!(
            s.deleg[a] == m.deleg[a],
            "C13/get_delegate/mismatch",
            "after {what}: get_delegate(account {a}) = {:?}, expected {:?}",
            s.deleg[a],
            m.deleg[a]
        );
    }
    for a in 0..N {
        ensure!(
            s.votes[a] == votes[a],
            "C13/get_votes/ne-delegated-units",
            "after {what}: get_votes(account {a}) = {} but the accounts delegating to it hold {} (units {:?}, delegates {:?})",
            s.votes[a],
            votes[a],
            m.units,
            m.deleg
        );
    }
    ensure!(
        s.total == m.total(),
        "C13/get_total_supply/ne-sum-units",
        "after {what}: get_total_supply() = {} but the voting units sum to {} ({:?})",
        s.total,
        m.total(),
        m.units
    );
    for a in 0..N {
        let want = m.written[a].len() as u32;
        ensure!(
            s.ncp[a] >= prev_ncp[a],
            "C13/num_checkpoints/decreased",
            "after {what}: num_checkpoints(account {a}) went from {} to {}",
            prev_ncp[a],
            s.ncp[a]
        );
        ensure!(
            s.ncp[a] <= want,
            "C13/num_checkpoints/not-coalesced",
            "after {what}: num_checkpoints(account {a}) = {} but its votes were written in only {} distinct ledgers {:?}",
            s.ncp[a],
            want,
            m.written[a]
        );
        ensure!(
            s.ncp[a] == want,
            "C13/num_checkpoints/fewer-than-written-ledgers",
            "after {what}: num_checkpoints(account {a}) = {} but its votes were written in {} distinct ledgers {:?}",
            s.ncp[a],
            want,
            m.written[a]
        );
        prev_ncp[a] = s.ncp[a];
    }
    Ok(())
}

/// entry-point reads of one account (public API agrees with the model)
fn check_api_account(t: &Tok, m: &Model, a: usize, what: &str, full: bool) -> R {
    let e = &t.e;
    let acc = t.accts[a].clone();
    let v: u128 =
        t.api("get_votes", crate::args![e; acc.clone()]).map_err(|er| violation("C13/api/get_votes-failed", format!("after {what}: {er}")))?;
    ensure!(v == m.votes()[a], "C13/api/get_votes-mismatch", "after {what}: get_votes(account {a}) = {v}, expected {}", m.votes()[a]);
    let d: Option<Address> = t
        .api("get_delegate", crate::args![e; acc.clone()])
        .map_err(|er| violation("C13/api/get_delegate-failed", format!("after {what}: {er}")))?;
    let di = d.as_ref().and_then(|x| t.idx_of(x));
    ensure!(
        d.is_some() == m.deleg[a].is_some() && di == m.deleg[a],
        "C13/api/get_delegate-mismatch",
        "after {what}: get_delegate(account {a}) = {:?}, expected {:?}",
        di,
        m.deleg[a]
    );
    if full {
        match t.target {
            Target::ExVotes | Target::FtVotes => {
                let b: i128 = t
                    .api("balance", crate::args![e; acc.clone()])
                    .map_err(|er| violation("C13/api/balance-failed", format!("after {what}: {er}")))?;
                ensure!(b >= 0 && b as u128 == m.units[a], "C13/api/balance-mismatch", "after {what}: balance(account {a}) = {b}, expected {}", m.units[a]);
            }
            Target::NftVotes => {
                let b: u32 = t
                    .api("balance", crate::args![e; acc.clone()])
                    .map_err(|er| violation("C13/api/balance-failed", format!("after {what}: {er}")))?;
                ensure!(b as u128 == m.units[a], "C13/api/balance-mismatch", "after {what}: balance(account {a}) = {b}, expected {}", m.units[a]);
            }
            Target::Lib => {}
        }
        if matches!(t.target, Target::NftVotes | Target::Lib) {
            let u: u128 = t
                .api("get_voting_units", crate::args![e; acc.clone()])
                .map_err(|er| violation("C13/api/get_voting_units-failed", format!("after {what}: {er}")))?;
            ensure!(u == m.units[a], "C13/api/get_voting_units-mismatch", "after {what}: get_voting_units(account {a}) = {u}, expected {}", m.units[a]);
            let n: u32 = t
                .api("num_checkpoints", crate::args![e; acc.clone()])
                .map_err(|er| violation("C13/api/num_checkpoints-failed", format!("after {what}: {er}")))?;
            ensure!(
                n as usize == m.written[a].len(),
                "C13/api/num_checkpoints-mismatch",
                "after {what}: num_checkpoints(account {a}) = {n}, expected {}",
                m.written[a].len()
            );
        }
    }
    Ok(())
}

/// full sweep over every past ledger + entry-point probes + refused current/future queries
fn check_past(t: &Tok, m: &Model, case: &Case, round: usize, what: &str, ctx: &mut Ctx) -> R {
    let e = &t.e;
    let cur = envx::seq(e);
    let lo = case.seq.saturating_sub(2);
    let mut ledgers: Vec<u32> = vec![];
    if lo > 0 {
        ledgers.push(0);
        ledgers.push(lo / 2);
    }
    ledgers.extend(lo..cur);
    let r = t
        .sweep(m, &ledgers)
        .map_err(|p| {
            if p.contains("Budget") {
                violation("C13/past-query/did-not-terminate", format!("after {what}: a query for a past ledger (< {cur}) exhausted {QUERY_CPU} cpu instructions: {p}"))
            } else {
                violation("C13/past-query/panicked", format!("after {what}: a query for a past ledger (< {cur}) panicked: {p}"))
            }
        })?;
    if let Some(msg) = r {
        if let Some(rest) = msg.strip_prefix("T:") {
            bail!("C13/get_total_supply_at_checkpoint/ne-end-of-ledger", "after {what} (current ledger {cur}): {rest}; model history {:?}", m.hist);
        }
        bail!("C13/get_votes_at_checkpoint/ne-end-of-ledger", "after {what} (current ledger {cur}): {msg}; model history {:?}", m.hist);
    }
    ctx.class_n("past_queries", (ledgers.len() * (N + 1)) as u64);

    // the same through the public entry points on a sample
    for (j, p) in case.probes.iter().enumerate() {
        if ledgers.is_empty() {
            break;
        }
        let q = ledgers[pick(*p, ledgers.len())];
        let a = (j + round) % N;
        let want = m.at(q);
        let v: u128 = t
            .api("get_votes_at_checkpoint", crate::args![e; t.accts[a].clone(), q])
            .map_err(|er| violation("C13/api/get_votes_at_checkpoint-failed", format!("after {what}: past ledger {q} (current {cur}) refused: {er}")))?;
        ensure!(
            v == want.votes[a],
            "C13/api/get_votes_at_checkpoint-mismatch",
            "after {what}: get_votes_at_checkpoint(account {a}, {q}) = {v}, expected {}",
            want.votes[a]
        );
        let s: u128 = t
            .api("get_total_supply_at_checkpoint", crate::args![e; q])
            .map_err(|er| violation("C13/api/get_total_supply_at_checkpoint-failed", format!("after {what}: past ledger {q} (current {cur}) refused: {er}")))?;
        ensure!(s == want.total, "C13/api/get_total_supply_at_checkpoint-mismatch", "after {what}: get_total_supply_at_checkpoint({q}) = {s}, expected {}", want.total);
        ctx.class("past_query_entry_point");
    }

    // current and future ledgers are refused
    let deltas = [0u32, 1, 0, 7, 0, u32::MAX - cur];
    let d1 = deltas[round % deltas.len()];
    let d2 = deltas[(round + 1) % deltas.len()];
    let a = round % N;
    let r: Result<u128, String> = t.api("get_votes_at_checkpoint", crate::args![e; t.accts[a].clone(), cur.saturating_add(d1)]);
    ensure!(
        r.is_err(),
        "C13/get_votes_at_checkpoint/future-accepted",
        "after {what}: get_votes_at_checkpoint(account {a}, {}) answered {:?} although the current ledger is {cur}",
        cur.saturating_add(d1),
        r
    );
    let r: Result<u128, String> = t.api("get_total_supply_at_checkpoint", crate::args![e; cur.saturating_add(d2)]);
    ensure!(
        r.is_err(),
        "C13/get_total_supply_at_checkpoint/future-accepted",
        "after {what}: get_total_supply_at_checkpoint({}) answered {:?} although the current ledger is {cur}",
        cur.saturating_add(d2),
        r
    );
    ctx.class_n("future_query_refused", 2);
    if cur > lo {
        // the most recent past ledger is always answerable
        let q = cur - 1;
        let v: u128 = t
            .api("get_votes_at_checkpoint", crate::args![e; t.accts[a].clone(), q])
            .map_err(|er| violation("C13/api/get_votes_at_checkpoint-failed", format!("after {what}: ledger current-1 = {q} refused: {er}")))?;
        ensure!(
            v == m.at(q).votes[a],
            "C13/api/get_votes_at_checkpoint-mismatch",
            "after {what}: get_votes_at_checkpoint(account {a}, current-1 = {q}) = {v}, expected {}",
            m.at(q).votes[a]
        );
    }
    Ok(())
}

pub fn run(case: &Case, ctx: &mut Ctx) -> R {
    let t = Tok::setup(case.target, case.seq)?;
    let e = &t.e;
    let mut m = Model::new();
    let mut prev_ncp = [0u32; N];
    check_current(&t, &m, &mut prev_ncp, "genesis")?;

    // non-triviality bookkeeping
    let mut transfers_ok = 0u32;
    let mut transfer_before_deleg = false; // a successful non-zero transfer happened
    let mut deleg_after_transfer = false; // … then a successful delegation change of an account holding units
    let mut interleaved = false; // … then another successful non-zero transfer
    let mut round = 0usize;
    let sweep_every = case.sweep_every.max(1) as usize;

    for (step, op) in case.ops.iter().enumerate() {
        let what = format!("step {step} {:?}", op);
        if let Op::Advance { k } = op {
            let span = envx::seq(e) - case.seq;
            let k = (*k as u32).min(MAX_SPAN.saturating_sub(span)).min(u32::MAX - 2 - envx::seq(e));
            envx::advance(e, k);
            if k >= 2 {
                ctx.class("gap_ledgers");
            }
            if k == 0 {
                ctx.class("advance_zero");
            }
        } else if let Some(p) = plan(&t, &m, op, ctx) {
            let now = envx::seq(e);
            match &p.signer {
                Some(who) => {
                    let inv = Inv::new(&t.addr, p.func, p.args.clone());
                    envx::set_auth(e, &[(who, &inv)]);
                }
                None => envx::no_auth(e),
            }
            let r = envx::call(e, &t.addr, p.func, p.args.clone());
            ctx.op(r.is_ok());
            if r.is_ok() && !p.expect_ok {
                bail!(format!("C13/{}/accepted-invalid", p.func), "{what}: the call succeeded although: {}", p.why_not);
            }
            if let (Err(er), true) = (&r, p.expect_ok) {
                bail!(
                    format!("C13/{}/refused-valid", p.func),
                    "{what}: the call failed ({er}) although the documented preconditions hold (units {:?}, delegates {:?})",
                    m.units,
                    m.deleg
                );
            }
            if r.is_err() {
                ctx.class("failed_call");
                if p.func == "delegate" {
                    ctx.class("same_delegate_refused");
                }
            } else {
                let before = m.votes();
                let mut moved: Option<(Option<usize>, Option<usize>, u128)> = None;
                match p.eff {
                    Effect::Nothing => {}
                    Effect::Move { from, to, amt } => {
                        if let Some(f) = from {
                            m.units[f] -= amt;
                        }
                        if let Some(x) = to {
                            m.units[x] += amt;
                        }
                        moved = Some((from, to, amt));
                        if amt == 0 {
                            ctx.class("zero_amount");
                        }
                        if let (Some(f), Some(_)) = (from, to) {
                            if amt > 0 && m.units[f] == 0 {
                                ctx.class("full_balance_transfer");
                            }
                        }
                    }
                    Effect::NftMint { to, id } => {
                        let id = match id {
                            Some(id) => {
                                m.next_explicit += 1;
                                id
                            }
                            None => {
                                let v = r.clone().unwrap();
                                match u32::try_from_val(e, &v) {
                                    Ok(x) => x,
                                    Err(_) => bail!("C13/setup/nft-mint-return", "{what}: sequential mint did not return a u32"),
                                }
                            }
                        };
                        ensure!(
                            !m.tokens.iter().any(|(i, _)| *i == id),
                            "C13/setup/nft-duplicate-id",
                            "{what}: minted id {id} is already live (harness domain error)"
                        );
                        m.tokens.push((id, to));
                        m.units[to] += 1;
                        moved = Some((None, Some(to), 1));
                    }
                    Effect::NftMove { tok, to } => {
                        let from = m.tokens[tok].1;
                        m.tokens[tok].1 = to;
                        m.units[from] -= 1;
                        m.units[to] += 1;
                        moved = Some((Some(from), Some(to), 1));
                    }
                    Effect::NftBurn { tok } => {
                        let (id, from) = m.tokens.remove(tok);
                        m.burned.push(id);
                        m.units[from] -= 1;
                        moved = Some((Some(from), None, 1));
                    }
                    Effect::Deleg { who, to } => {
                        if m.deleg[who].is_some() {
                            ctx.class("redelegate");
                        }
                        if who == to {
                            ctx.class("delegate_self");
                        }
                        m.deleg[who] = Some(to);
                        ctx.class("delegate_ok");
                        if m.units[who] > 0 {
                            ctx.class("delegate_with_units");
                            if transfer_before_deleg {
                                deleg_after_transfer = true;
                            }
                        }
                    }
                }
                if let Some((from, to, amt)) = moved {
                    match (from, to) {
                        (None, Some(_)) => ctx.class("mint_ok"),
                        (Some(_), None) => ctx.class("burn_ok"),
                        (Some(f), Some(x)) => {
                            ctx.class(if p.func == "transfer_from" { "transfer_from_ok" } else { "transfer_ok" });
                            if f == x {
                                ctx.class("self_transfer");
                            }
                            if amt > 0 && f != x {
                                transfers_ok += 1;
                                transfer_before_deleg = true;
                                if deleg_after_transfer {
                                    interleaved = true;
                                }
                            }
                        }
                        _ => {}
                    }
                }
                m.commit(before, now);
            }
        }
        check_current(&t, &m, &mut prev_ncp, &what)?;
        // public entry points: one rotating account per step
        check_api_account(&t, &m, step % N, &what, false)?;
        if (step + 1) % sweep_every == 0 {
            check_past(&t, &m, case, round, &what, ctx)?;
            round += 1;
        }
    }

    // final: every past ledger once more, and the public entry points for every account
    check_past(&t, &m, case, round, "the last step", ctx)?;
    for a in 0..N {
        check_api_account(&t, &m, a, "the last step", true)?;
    }
    let s: u128 = t.api("get_total_supply", crate::args![e]).map_err(|er| violation("C13/api/get_total_supply-failed", er))?;
    ensure!(s == m.total(), "C13/api/get_total_supply-mismatch", "final: get_total_supply() = {s}, expected {}", m.total());

    // classes + non-triviality
    let ge4 = (0..N).any(|a| m.written[a].len() >= 4);
    let multi = m.writes.values().any(|c| *c >= 2);
    if ge4 {
        ctx.class("acct_ge4_checkpoints");
    }
    if multi {
        ctx.class("same_ledger_overwrite");
    }
    if interleaved {
        ctx.class("delegation_interleaved_with_transfers");
    }
    let _ = transfers_ok;
    if ge4 && multi && interleaved {
        ctx.nontrivial = true;
        ctx.class("nontrivial");
        ctx.class(&format!("nontrivial:{}", case.target.label()));
    }
    Ok(())
}

macro_rules! target_sub {
    ($name:expr, $t:expr, $q:expr, $th:expr) => {{
        fn strat(tier: Tier) -> BoxedStrategy<Case> {
            strategy_for($t, tier)
        }
        gen_sub::<Case>($name, $q, $th, strat, run)
    }};
}

pub fn property() -> Property {
    Property {
        id: "C13",
        rule: "case = (target in {example fungible-votes, FtVotes with burn, NftVotes, bare votes library}, start ledger, history of <=60 (thorough 90) \
               mint/burn/burn_from/transfer/transfer_from/delegate/Advance(k in {0,0,0,1,1,2..10}) over 4 accounts with state-relative amounts, ledger span <= 200, exact authorization); \
               non-trivial = some account ends with >=4 checkpoints, some account's votes are written >=2 times inside one ledger, and a successful delegation change of an \
               account holding units lies between two successful non-zero transfers; distinct = distinct serialised case",
        subs: vec![
            target_sub!("ex-fungible-votes", Target::ExVotes, 350, 6000),
            target_sub!("ft-votes", Target::FtVotes, 400, 7000),
            target_sub!("nft-votes", Target::NftVotes, 350, 6000),
            target_sub!("lib", Target::Lib, 400, 6000),
        ],
        // measured over seeds 0..3 (quick): nontrivial 528..597, acct_ge4 ~650, same_ledger_overwrite ~1200,
        // interleaved ~950, same_delegate_refused ~1370, self_transfer ~3000, full_balance ~1050, zero_amount ~3850,
        // redelegate ~3900, past_queries ~1.0M, future_query_refused ~14300, burn_ok ~2600, transfer_from_ok ~2700
        floors: vec![
            ("nontrivial", 50, 800),
            ("nontrivial:ex-fungible-votes", 10, 150),
            ("nontrivial:ft-votes", 10, 150),
            ("nontrivial:nft-votes", 8, 120),
            ("nontrivial:lib", 10, 150),
            ("acct_ge4_checkpoints", 60, 900),
            ("same_ledger_overwrite", 100, 1500),
            ("delegation_interleaved_with_transfers", 90, 1400),
            ("same_delegate_refused", 130, 2000),
            ("redelegate", 350, 5000),
            ("delegate_self", 300, 4500),
            ("self_transfer", 300, 4500),
            ("full_balance_transfer", 100, 1500),
            ("zero_amount", 350, 5000),
            ("burn_ok", 250, 3500),
            ("transfer_from_ok", 250, 3500),
            ("gap_ledgers", 700, 10000),
            ("past_queries", 100_000, 1_500_000),
            ("past_query_entry_point", 1500, 20000),
            ("future_query_refused", 1400, 20000),
        ],
        assumptions: vec![
            "Soroban native test host (storage, rollback of failed invocations, auth matching, ledger sequence) is trusted",
            "universe = 4 accounts; delegatees are drawn from the same 4 accounts",
            "token amounts stay below 2^101 so that neither the i128 supply nor the set-up allowances can be exhausted; the bare library is driven up to u128::MAX",
            "the bare library is never called with from = to = None (the docs define None only as mint or burn side)",
        ],
    }
}

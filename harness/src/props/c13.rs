//! C13 — not implemented yet.
use crate::engine::*;

pub fn property() -> Property {
    Property { id: "C13", rule: "", subs: vec![], floors: vec![], assumptions: vec![] }
}

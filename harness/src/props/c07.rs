//! C07 — Admin / ownership changes hands only through a live two-step handshake.
//!
//! Targets: example `ownable` (transfer_ownership / accept_ownership / renounce_ownership /
//! `#[only_owner] increment`) and the harness `Acl` contract (transfer_admin_role /
//! accept_admin_transfer / renounce_admin / `#[only_admin] p_admin`).
//! Env: `min_temp_entry_ttl = 1` (storage lifetime == requested lifetime), `max_entry_ttl`
//! small (500) in a third of the cases so that "beyond the maximum TTL" is reachable.
//! Oracle: model {holder, pending: Option<(account, live_until)>}; an offer is live iff
//! `live_until >= ledger`.  Explicit authorization entries on every call.

use super::c06::{exec, Call};
use super::ftcore::{auth_strategy, AuthMode};
use crate::engine::*;
use crate::envx::{self, call_t};
use crate::gen::pick;
use proptest::prelude::*;
use serde::{Deserialize, Serialize};
use soroban_sdk::{symbol_short, Address, Env, IntoVal};

pub const NA: usize = 5;
const SMALL_TTL: u32 = 500;

#[derive(Clone, Copy, Debug, Serialize, Deserialize, PartialEq, Eq)]
pub enum Target {
    Ownable,
    Acl,
}

/// live_until_ledger selector of an offer
#[derive(Clone, Debug, Serialize, Deserialize)]
pub enum Live {
    /// current ledger + d
    Rel(i32),
    /// max_live_until_ledger + d
    MaxPlus(i8),
    /// the live_until of an earlier offer + d (re-offer with the same / a neighbouring expiry)
    LikeEarlier(u16, i8),
    /// 0 = cancel
    Cancel,
    Abs(u32),
}

/// account selector
#[derive(Clone, Debug, Serialize, Deserialize)]
pub enum Sel {
    Holder,
    /// the account of the model's pending offer (live or not); the last offeree when none
    Pending,
    /// the account named by an earlier successful offer
    Earlier(u16),
    Acct(u16),
}

#[derive(Clone, Debug, Serialize, Deserialize)]
pub enum Which {
    Current,
    Earlier(u16),
}

#[derive(Clone, Debug, Serialize, Deserialize)]
pub enum Op {
    Offer { to: Sel, live: Live, by: Sel, auth: AuthMode },
    /// `also`: a second account that attaches an entry for exactly this invocation
    Accept { by: Sel, also: Option<Sel>, auth: AuthMode },
    Renounce { by: Sel, auth: AuthMode },
    Probe { by: Sel, auth: AuthMode },
    Advance { k: u32 },
    /// jump to (live_until of the current / an earlier offer) + d
    AdvanceTo { which: Which, d: i8 },
    /// AdvanceTo followed by Accept (keeps the interesting pair together)
    AcceptAt { which: Which, d: i8, by: Sel, also: Option<Sel>, auth: AuthMode },
}

#[derive(Clone, Debug, Serialize, Deserialize)]
pub struct Case {
    pub target: Target,
    pub seq: u32,
    pub small_ttl: bool,
    pub ops: Vec<Op>,
}

fn op_strategy() -> BoxedStrategy<Op> {
    let a = auth_strategy(12);
    let live = prop_oneof![
        1 => Just(Live::Rel(-1)),
        2 => Just(Live::Rel(0)),
        2 => Just(Live::Rel(1)),
        7 => (2i32..60).prop_map(Live::Rel),
        2 => (100i32..498).prop_map(Live::Rel),
        2 => (-1i8..=1).prop_map(Live::MaxPlus),
        2 => (any::<u16>(), -1i8..=1).prop_map(|(w, d)| Live::LikeEarlier(w, d)),
        3 => Just(Live::Cancel),
        1 => prop_oneof![Just(1u32), Just(u32::MAX), 2u32..99].prop_map(Live::Abs),
    ];
    let to = prop_oneof![
        8 => any::<u16>().prop_map(Sel::Acct),
        3 => Just(Sel::Pending),
        2 => any::<u16>().prop_map(Sel::Earlier),
        1 => Just(Sel::Holder),
    ];
    let by_holder = prop_oneof![14 => Just(Sel::Holder), 1 => Just(Sel::Pending), 1 => any::<u16>().prop_map(Sel::Earlier), 2 => any::<u16>().prop_map(Sel::Acct)];
    let by_accept = prop_oneof![9 => Just(Sel::Pending), 3 => any::<u16>().prop_map(Sel::Earlier), 1 => Just(Sel::Holder), 1 => any::<u16>().prop_map(Sel::Acct)];
    let also = proptest::option::weighted(0.1, prop_oneof![2 => Just(Sel::Holder), 1 => any::<u16>().prop_map(Sel::Earlier), 1 => any::<u16>().prop_map(Sel::Acct)]);
    let by_probe = prop_oneof![5 => Just(Sel::Holder), 2 => Just(Sel::Pending), 1 => any::<u16>().prop_map(Sel::Earlier), 2 => any::<u16>().prop_map(Sel::Acct)];
    prop_oneof![
        10 => (to, live, by_holder.clone(), auth_strategy(20)).prop_map(|(to, live, by, auth)| Op::Offer { to, live, by, auth }),
        5 => (by_accept.clone(), also.clone(), a.clone()).prop_map(|(by, also, auth)| Op::Accept { by, also, auth }),
        6 => (prop_oneof![4 => Just(Which::Current), 1 => any::<u16>().prop_map(Which::Earlier)], -1i8..=1, by_accept, also, a.clone())
            .prop_map(|(which, d, by, also, auth)| Op::AcceptAt { which, d, by, also, auth }),
        1 => (by_holder, a.clone()).prop_map(|(by, auth)| Op::Renounce { by, auth }),
        3 => (by_probe, a.clone()).prop_map(|(by, auth)| Op::Probe { by, auth }),
        2 => prop_oneof![Just(0u32), Just(1), 2u32..70].prop_map(|k| Op::Advance { k }),
        5 => (prop_oneof![3 => Just(Which::Current), 2 => any::<u16>().prop_map(Which::Earlier)], -1i8..=1).prop_map(|(which, d)| Op::AdvanceTo { which, d }),
    ]
    .boxed()
}

fn strategy_for(target: Target, tier: Tier) -> BoxedStrategy<Case> {
    let max_ops = tier.pick(25usize, 50usize);
    (100u32..5000, proptest::bool::weighted(0.35), proptest::collection::vec(op_strategy(), 0..=max_ops))
        .prop_map(move |(seq, small_ttl, ops)| Case { target, seq, small_ttl, ops })
        .boxed()
}

#[derive(Clone, Copy, Debug, PartialEq, Eq)]
enum Gone {
    Never,
    Cancelled,
    Accepted,
    Renounced,
}

#[derive(Clone, Copy, Debug)]
struct Pending {
    addr: usize,
    until: u32,
    /// this offer replaced a live offer that had a different live_until
    replaced_diff: bool,
}

struct Model {
    holder: Option<usize>,
    last_holder: usize,
    pending: Option<Pending>,
    gone: Gone,
    /// every successful offer (account, live_until), oldest first
    offers: Vec<(usize, u32)>,
    counter: u32,
}

struct World {
    e: Env,
    c: Address,
    target: Target,
    accts: Vec<Address>,
}

impl World {
    fn f(&self, generic: &'static str) -> &'static str {
        match (self.target, generic) {
            (Target::Ownable, "offer") => "transfer_ownership",
            (Target::Ownable, "accept") => "accept_ownership",
            (Target::Ownable, "renounce") => "renounce_ownership",
            (Target::Ownable, "probe") => "increment",
            (Target::Ownable, "holder") => "get_owner",
            (Target::Acl, "offer") => "transfer_admin_role",
            (Target::Acl, "accept") => "accept_admin_transfer",
            (Target::Acl, "renounce") => "renounce_admin",
            (Target::Acl, "probe") => "p_admin",
            (Target::Acl, "holder") => "get_admin",
            (_, x) => x,
        }
    }
    /// (holder through the public getter, number of privileged effects)
    fn observe(&self) -> Result<(Option<Address>, u32), Violation> {
        let h = call_t::<Option<Address>>(&self.e, &self.c, self.f("holder"), args![&self.e]).map_err(|x| violation("C07/holder/getter-failed", x))?;
        let e = &self.e;
        let cnt = e.as_contract(&self.c, || match self.target {
            Target::Ownable => {
                use crate::examples::ownable::contract::DataKey;
                e.storage().instance().get::<_, i32>(&DataKey::Counter).unwrap_or(-1) as u32
            }
            Target::Acl => e.storage().instance().get::<_, u32>(&symbol_short!("CNT")).unwrap_or(0),
        });
        Ok((h, cnt))
    }
}

fn resolve(m: &Model, s: &Sel) -> usize {
    match s {
        Sel::Holder => m.holder.unwrap_or(m.last_holder),
        Sel::Pending => m.pending.map(|p| p.addr).or(m.offers.last().map(|o| o.0)).unwrap_or(1),
        Sel::Earlier(w) => {
            if m.offers.is_empty() {
                pick(*w, NA)
            } else {
                m.offers[pick(*w, m.offers.len())].0
            }
        }
        Sel::Acct(w) => pick(*w, NA),
    }
}

pub fn run(case: &Case, ctx: &mut Ctx) -> R {
    let max_ttl = if case.small_ttl { SMALL_TTL } else { envx::BIG_TTL };
    let e = envx::new_env(case.seq, max_ttl);
    let accts = envx::actors(&e, NA);
    let c = match case.target {
        Target::Ownable => e.register(crate::examples::ownable::contract::ExampleContract, (accts[0].clone(),)),
        Target::Acl => e.register(crate::contracts::c06::acl::Acl, (accts[0].clone(),)),
    };
    envx::no_auth(&e);
    let w = World { e, c, target: case.target, accts };
    let e = &w.e;
    let mut m = Model { holder: Some(0), last_holder: 0, pending: None, gone: Gone::Never, offers: vec![], counter: 0 };
    let mut accept_after_replaced_expiry = false;

    let check_obs = |m: &Model, what: &str| -> R {
        let (h, cnt) = w.observe()?;
        let want = m.holder.map(|i| w.accts[i].clone());
        ensure!(h == want, "C07/holder/mismatch", "after {what}: holder is {:?}, model says account {:?}", h.as_ref().and_then(|a| w.accts.iter().position(|x| x == a)), m.holder);
        ensure!(cnt == m.counter, "C07/probe/effect-count-mismatch", "after {what}: {cnt} privileged effects observed, model {}", m.counter);
        Ok(())
    };
    check_obs(&m, "construction")?;

    let mut ops: Vec<Op> = vec![];
    for op in &case.ops {
        match op {
            Op::AcceptAt { which, d, by, also, auth } => {
                ops.push(Op::AdvanceTo { which: which.clone(), d: *d });
                ops.push(Op::Accept { by: by.clone(), also: also.clone(), auth: auth.clone() });
            }
            o => ops.push(o.clone()),
        }
    }
    for (step, op) in ops.iter().enumerate() {
        let now = envx::seq(e);
        match op {
            Op::Advance { k } => {
                envx::advance(e, *k);
                check_obs(&m, "advance")?;
                continue;
            }
            Op::AdvanceTo { which, d } => {
                let base = match which {
                    Which::Current => m.pending.map(|p| p.until).or(m.offers.last().map(|o| o.1)),
                    Which::Earlier(wh) => {
                        if m.offers.is_empty() {
                            None
                        } else {
                            Some(m.offers[pick(*wh, m.offers.len())].1)
                        }
                    }
                };
                if let Some(b) = base {
                    let target = b as i64 + *d as i64;
                    if target > now as i64 && target - (now as i64) < 4_000_000 {
                        envx::set_seq(e, target as u32);
                        ctx.class("advance_to_offer_boundary");
                    }
                }
                check_obs(&m, "advance")?;
                continue;
            }
            _ => {}
        }
        let max_live = e.ledger().max_live_until_ledger();
        let live_pending: Option<Pending> = m.pending.filter(|p| p.until >= now);
        let addr = |i: usize| w.accts[i].clone();

        let (cl, mode, until, to_i): (Call, &AuthMode, u32, usize) = match op {
            Op::Offer { to, live, by, auth } => {
                let to_i = resolve(&m, to);
                let until: u32 = match live {
                    Live::Rel(d) => (now as i64 + *d as i64).clamp(1, u32::MAX as i64) as u32,
                    Live::MaxPlus(d) => (max_live as i64 + *d as i64).clamp(1, u32::MAX as i64) as u32,
                    Live::LikeEarlier(wh, d) => {
                        if m.offers.is_empty() {
                            now + 5
                        } else {
                            (m.offers[pick(*wh, m.offers.len())].1 as i64 + *d as i64).clamp(1, u32::MAX as i64) as u32
                        }
                    }
                    Live::Cancel => 0,
                    Live::Abs(x) => *x,
                };
                let s = resolve(&m, by);
                (Call { func: w.f("offer"), args: vec![addr(to_i).into_val(e), until.into_val(e)], signers: vec![addr(s)] }, auth, until, to_i)
            }
            Op::Accept { by, also, auth } => {
                let mut signers = vec![addr(resolve(&m, by))];
                if let Some(x) = also {
                    let extra = addr(resolve(&m, x));
                    if !signers.contains(&extra) {
                        signers.push(extra);
                        ctx.class("second_exact_signer");
                    }
                }
                (Call { func: w.f("accept"), args: vec![], signers }, auth, 0, 0)
            }
            Op::Renounce { by, auth } => (Call { func: w.f("renounce"), args: vec![], signers: vec![addr(resolve(&m, by))] }, auth, 0, 0),
            Op::Probe { by, auth } => (Call { func: w.f("probe"), args: vec![], signers: vec![addr(resolve(&m, by))] }, auth, 0, 0),
            Op::Advance { .. } | Op::AdvanceTo { .. } | Op::AcceptAt { .. } => unreachable!(),
        };
        let (res, attached) = exec(e, &w.c, &cl, mode, &w.accts);
        let ok = res.is_ok();
        ctx.op(ok);
        let authd = |i: usize| attached.contains(&w.accts[i]);
        let h_authd = m.holder.map(|h| authd(h)).unwrap_or(false);
        let what = format!(
            "step {step} {}({:?}) at ledger {now} (max_live_until {max_live}), entries attached for accounts {:?}; model: holder {:?}, pending {:?} ({:?})",
            cl.func,
            op,
            attached.iter().map(|a| w.accts.iter().position(|x| x == a)).collect::<Vec<_>>(),
            m.holder,
            m.pending,
            m.gone
        );

        match op {
            Op::Offer { .. } if until == 0 => {
                // cancel
                if ok {
                    ensure!(h_authd, "C07/cancel/without-holder-auth", "{what}: cancel succeeded without the holder's authorization");
                    match m.pending {
                        None => bail!("C07/cancel/no-offer-cancelled", "{what}: cancel succeeded although no offer exists"),
                        Some(p) if p.until >= now => {
                            ensure!(p.addr == to_i, "C07/cancel/wrong-account-cancelled", "{what}: cancel naming account {to_i} removed the offer to account {}", p.addr)
                        }
                        Some(_) => ctx.class("cancel_of_expired_offer_accepted"),
                    }
                    m.pending = None;
                    m.gone = Gone::Cancelled;
                    ctx.class("cancel_ok");
                } else {
                    if let (true, Some(p)) = (h_authd, live_pending) {
                        ensure!(p.addr != to_i, "C07/cancel/live-offer-not-cancelled", "{what}: the holder could not cancel its live offer: {:?}", res);
                        ctx.class("cancel_wrong_account_refused");
                    }
                }
            }
            Op::Offer { .. } => {
                let valid = now <= until && until <= max_live;
                if until > max_live {
                    ctx.class("offer_beyond_max_live_until");
                }
                if until == max_live {
                    ctx.class("offer_at_max_live_until");
                }
                if until == now {
                    ctx.class("offer_until_now");
                }
                if ok {
                    ensure!(h_authd, "C07/offer/without-holder-auth", "{what}: offer succeeded without the holder's authorization");
                    ensure!(valid, "C07/offer/invalid-live-until-accepted", "{what}: live_until {until} is outside [{now}, {max_live}] but the offer was stored");
                    let mut replaced_diff = false;
                    if let Some(p) = live_pending {
                        if until < p.until {
                            ctx.class("offer_replaces_live_with_shorter");
                            replaced_diff = true;
                        } else if until > p.until {
                            ctx.class("offer_replaces_live_with_longer");
                            replaced_diff = true;
                        } else {
                            ctx.class("offer_replaces_live_same_expiry");
                        }
                    } else if m.gone == Gone::Cancelled && m.pending.is_none() {
                        ctx.class("reoffer_after_cancel");
                    } else if m.pending.is_some() {
                        ctx.class("reoffer_after_expiry");
                    }
                    m.pending = Some(Pending { addr: to_i, until, replaced_diff });
                    m.offers.push((to_i, until));
                    ctx.class("offer_ok");
                } else {
                    ensure!(!(h_authd && valid), "C07/offer/valid-offer-refused", "{what}: the holder's offer with live_until {until} in [{now}, {max_live}] was refused: {:?}", res);
                }
            }
            Op::Accept { .. } => {
                if let Some(p) = m.pending {
                    if p.replaced_diff && now > p.until {
                        accept_after_replaced_expiry = true;
                    }
                    if now > p.until {
                        ctx.class("accept_attempt_after_expiry");
                    } else if now == p.until {
                        ctx.class("accept_attempt_at_expiry");
                    } else {
                        ctx.class("accept_attempt_before_expiry");
                    }
                }
                if ok {
                    let p = match m.pending {
                        None => match m.gone {
                            Gone::Cancelled => bail!("C07/accept/cancelled-offer-accepted", "{what}: accept succeeded after the offer was cancelled"),
                            Gone::Accepted => bail!("C07/accept/accepted-twice", "{what}: accept succeeded although the offer had already been accepted"),
                            _ => bail!("C07/accept/no-offer-accepted", "{what}: accept succeeded although no offer exists"),
                        },
                        Some(p) => p,
                    };
                    ensure!(p.until >= now, "C07/accept/expired-offer-accepted", "{what}: accept succeeded at ledger {now} although the offer's live_until_ledger {} has passed", p.until);
                    ensure!(authd(p.addr), "C07/accept/without-pending-auth", "{what}: accept succeeded without the authorization of the pending account {}", p.addr);
                    m.holder = Some(p.addr);
                    m.last_holder = p.addr;
                    m.pending = None;
                    m.gone = Gone::Accepted;
                    ctx.class("accept_ok");
                    check_obs(&m, &what)?;
                    // an accepted offer cannot be accepted again (same authorization, same ledger)
                    let (r2, _) = exec(e, &w.c, &cl, mode, &w.accts);
                    ctx.op(r2.is_ok());
                    ensure!(r2.is_err(), "C07/accept/accepted-twice", "{what}: the same accept succeeded a second time");
                } else if let Some(p) = live_pending {
                    ensure!(!(authd(p.addr) && m.holder.is_some()), "C07/accept/live-offer-refused", "{what}: the pending account could not accept its live offer: {:?}", res);
                }
            }
            Op::Renounce { .. } => {
                if ok {
                    ensure!(h_authd, "C07/renounce/without-holder-auth", "{what}: renounce succeeded without the holder's authorization");
                    ensure!(live_pending.is_none(), "C07/renounce/succeeded-while-pending", "{what}: renounce succeeded while an offer is pending");
                    m.holder = None;
                    m.pending = None;
                    m.gone = Gone::Renounced;
                    ctx.class("renounce_ok");
                } else if h_authd {
                    match (m.pending, live_pending) {
                        (None, _) => bail!("C07/renounce/refused-without-pending", "{what}: the holder's renounce was refused although no offer is pending: {:?}", res),
                        (Some(_), Some(_)) => ctx.class("renounce_refused_while_pending"),
                        (Some(_), None) => ctx.class("renounce_refused_expired_pending"),
                    }
                }
            }
            Op::Probe { .. } => {
                if ok {
                    ensure!(h_authd, "C07/probe/non-holder-passed", "{what}: the holder-guarded entry point ran without the holder's authorization");
                    m.counter += 1;
                    if live_pending.is_some() {
                        ctx.class("holder_probe_ok_while_pending");
                    }
                } else {
                    ensure!(!h_authd, "C07/probe/holder-refused", "{what}: the holder was refused on its guarded entry point: {:?}", res);
                }
            }
            Op::Advance { .. } | Op::AdvanceTo { .. } | Op::AcceptAt { .. } => unreachable!(),
        }
        check_obs(&m, &what)?;
        match mode {
            AuthMode::Exact | AuthMode::Surplus(_) => ctx.class("auth_exact_or_surplus"),
            _ => ctx.class("auth_defective"),
        }
    }
    if accept_after_replaced_expiry {
        ctx.nontrivial = true;
        ctx.class("nontrivial");
    }
    Ok(())
}

fn strat_ownable(tier: Tier) -> BoxedStrategy<Case> {
    strategy_for(Target::Ownable, tier)
}
fn strat_acl(tier: Tier) -> BoxedStrategy<Case> {
    strategy_for(Target::Acl, tier)
}

pub fn property() -> Property {
    Property {
        id: "C07",
        rule: "case = (target in {example ownable, harness Acl admin}, start ledger, max_entry_ttl in {500, 3.1M}, min_temp_entry_ttl = 1, history of <=25 (thorough 50) ops \
               offer(new, live_until in {now-1, now, now+1, now+k, like an earlier offer, max_live_until-1/0/+1, 0 = cancel}) / accept / renounce / holder-guarded probe / advance \
               (by k, or to live_until-1/0/+1 of the current or any earlier offer), signer by model-relative selector, auth mode Exact/Drop/Swap/Tamper/Surplus); \
               non-trivial = an offer replaced a live offer with a different live_until and a later accept was attempted after the newer offer's live_until; distinct = distinct serialised case",
        subs: vec![gen_sub::<Case>("ownable", 1800, 30000, strat_ownable, run), gen_sub::<Case>("acl-admin", 1200, 20000, strat_acl, run)],
        floors: vec![
            ("nontrivial", 15, 150),
            ("offer_replaces_live_with_shorter", 45, 450),
            ("offer_replaces_live_with_longer", 60, 600),
            ("accept_attempt_after_expiry", 200, 2000),
            ("accept_attempt_at_expiry", 90, 900),
            ("accept_ok", 140, 1400),
            ("cancel_ok", 8, 80),
            ("reoffer_after_cancel", 4, 40),
            ("reoffer_after_expiry", 55, 550),
            ("offer_beyond_max_live_until", 45, 450),
            ("offer_at_max_live_until", 30, 300),
            ("renounce_refused_while_pending", 12, 120),
            ("auth_defective", 750, 7500),
        ],
        assumptions: vec![
            "Soroban native test host (temporary-entry TTL rules, rollback, authorization matching) is trusted",
            "min_temp_entry_ttl = 1 so that the storage lifetime of the pending entry equals the requested lifetime (as the property prescribes)",
            "an address authorizes a call iff an authorization entry of that address for exactly this invocation is attached",
        ],
    }
}

//! C07 — not implemented yet.
use crate::engine::*;

pub fn property() -> Property {
    Property { id: "C07", rule: "", subs: vec![], floors: vec![], assumptions: vec![] }
}

//! C08 — A timelocked operation runs once, only after its delay and its predecessor.
//!
//! Target: `TimelockLib` (the `timelock` library functions 1:1) + two `Target` instances.
//! Reference model: `id -> Unset | Scheduled(ready) | Done` plus `min_delay`, written from
//! the property statement and the `# Errors` sections of the library docs.  After EVERY step
//! the reported ledger/state/predicates of every pool id (plus a cancelled "ghost" id and a
//! never-scheduled id), the minimum delay and the targets' invocation counters are compared
//! with the model; a failed call must leave all of it unchanged.

use crate::contracts::c08::{target::Target, timelock_lib::TimelockLib};
use crate::engine::*;
use crate::envx::{self, call, call_t};
use crate::gen::pick;
use proptest::prelude::*;
use serde::{Deserialize, Serialize};
use soroban_sdk::{Address, BytesN, Env, Symbol, Val, Vec as SVec};
use std::collections::BTreeMap;
use stellar_governance::timelock::{Operation, OperationState};

pub const POOL: usize = 5;
/// highest ledger the interpreter moves to (the host's TTL arithmetic overflows near u32::MAX)
pub const LEDGER_CAP: u32 = u32::MAX - 20_000_000;

#[derive(Clone, Debug, Serialize, Deserialize, PartialEq, Eq)]
pub enum Pred {
    None,
    /// an earlier pool operation (index mapped onto 0..i; `None` for the first op)
    Pool(u16),
    /// an id that is never scheduled
    Never,
    /// the id of an operation that was scheduled and cancelled during set-up
    Cancelled,
    /// the id of the same operation without predecessor (closest realisable "self" link:
    /// a literal self link would be a Keccak fixpoint)
    SelfBase,
}

#[derive(Clone, Debug, Serialize, Deserialize)]
pub struct OpSpec {
    /// 0 = bump(x), 1 = flaky(x), 2 = pair(x, x+1)
    pub func: u8,
    pub arg: u8,
    /// which of the two target instances
    pub tgt: bool,
    pub pred: Pred,
    pub salt: u8,
}

#[derive(Clone, Debug, Serialize, Deserialize)]
pub enum Delay {
    Zero,
    /// min_delay + d
    MinPlus(i8),
    K(u32),
    /// u32::MAX - now + d   (d = +1 makes now + delay overflow u32)
    ToMax(i8),
    Max,
}

#[derive(Clone, Debug, Serialize, Deserialize)]
pub enum Sel {
    Idx(u16),
    /// the operation most recently named by a schedule / advance-to-ready step
    Last,
    /// state-relative (resolved against the model; falls back to `Idx` when the class is empty):
    /// k-th unset / pending / done operation
    Unset(u16),
    Pending(u16),
    Done(u16),
    /// k-th pending operation whose predecessor condition holds (none or Done)
    Runnable(u16),
    /// k-th pending operation whose predecessor has not been executed
    Blocked(u16),
    /// k-th not-yet-executed operation whose POOL predecessor is Done (next link of a chain)
    Successor(u16),
}

#[derive(Clone, Debug, Serialize, Deserialize)]
pub enum Adv {
    K(u32),
    /// to `ready(op) + d` (never backwards)
    ToReady { op: Sel, d: i8 },
}

#[derive(Clone, Copy, Debug, Serialize, Deserialize)]
pub enum Tamper {
    Arg,
    Salt,
    Pred,
    Func,
    Target,
}

#[derive(Clone, Debug, Serialize, Deserialize)]
pub enum IdSel {
    Pool(Sel),
    Ghost,
    Never,
}

#[derive(Clone, Debug, Serialize, Deserialize)]
pub enum Step {
    Schedule { op: Sel, delay: Delay },
    /// `raw` = `set_execute_operation` (marks done without calling the target);
    /// `tamper` = present the operation with one field changed (an id that was never scheduled)
    /// `at = Some(d)`: first move the ledger to `ready(op) + d` (if that is in the future)
    Execute { op: Sel, raw: bool, tamper: Option<Tamper>, at: Option<i8> },
    Cancel { id: IdSel },
    SetMinDelay { v: u32 },
    Advance(Adv),
    /// read every getter / predicate entry point of one id individually
    Probe { op: Sel },
    /// hash_operation: determinism + one-field perturbation
    HashProbe { op: Sel, field: Tamper },
    /// script the targets' `flaky` entry point
    Fail { on: bool },
}

#[derive(Clone, Debug, Serialize, Deserialize)]
pub struct Case {
    pub seq: u32,
    pub min_delay: u32,
    pub pool: Vec<OpSpec>,
    pub steps: Vec<Step>,
}

// ---------------------------------------------------------------- strategy

fn sel() -> BoxedStrategy<Sel> {
    prop_oneof![3 => any::<u16>().prop_map(Sel::Idx), 2 => Just(Sel::Last)].boxed()
}
/// (idx, last, unset, pending, done, runnable, blocked, successor) weights
fn sel_w(w: [u32; 8]) -> BoxedStrategy<Sel> {
    prop_oneof![
        w[0] => any::<u16>().prop_map(Sel::Idx),
        w[1] => Just(Sel::Last),
        w[2] => any::<u16>().prop_map(Sel::Unset),
        w[3] => any::<u16>().prop_map(Sel::Pending),
        w[4] => any::<u16>().prop_map(Sel::Done),
        w[5] => any::<u16>().prop_map(Sel::Runnable),
        w[6] => any::<u16>().prop_map(Sel::Blocked),
        w[7] => any::<u16>().prop_map(Sel::Successor),
    ]
    .boxed()
}

fn tamper() -> BoxedStrategy<Tamper> {
    prop_oneof![Just(Tamper::Arg), Just(Tamper::Salt), Just(Tamper::Pred), Just(Tamper::Func), Just(Tamper::Target)].boxed()
}

fn delay() -> BoxedStrategy<Delay> {
    prop_oneof![
        2 => Just(Delay::Zero),
        16 => prop_oneof![1 => Just(-1i8), 4 => Just(0i8), 2 => Just(1i8)].prop_map(Delay::MinPlus),
        6 => (0u32..10).prop_map(Delay::K),
        1 => (-1i8..=1).prop_map(Delay::ToMax),
        1 => Just(Delay::Max),
    ]
    .boxed()
}

fn step() -> BoxedStrategy<Step> {
    prop_oneof![
        10 => (sel_w([1, 1, 10, 1, 1, 0, 0, 3]), delay()).prop_map(|(op, delay)| Step::Schedule { op, delay }),
        13 => (sel_w([1, 6, 1, 0, 1, 10, 2, 1]), proptest::bool::weighted(0.12), proptest::option::weighted(0.1, tamper()),
              proptest::option::weighted(0.6, prop_oneof![Just(-1i8), Just(0), Just(0), Just(1)]))
            .prop_map(|(op, raw, tamper, at)| Step::Execute { op, raw, tamper, at }),
        2 => prop_oneof![8 => sel_w([2, 2, 1, 4, 1, 0, 0, 0]).prop_map(IdSel::Pool), 1 => Just(IdSel::Ghost), 1 => Just(IdSel::Never)]
            .prop_map(|id| Step::Cancel { id }),
        3 => prop_oneof![20 => 0u32..8, 1 => Just(1000u32), 1 => Just(u32::MAX)].prop_map(|v| Step::SetMinDelay { v }),
        7 => prop_oneof![
            2 => (0u32..12).prop_map(Adv::K),
            5 => (sel_w([0, 8, 0, 1, 0, 4, 1, 2]), prop_oneof![Just(-1i8), Just(0), Just(0), Just(1)]).prop_map(|(op, d)| Adv::ToReady { op, d }),
        ]
        .prop_map(Step::Advance),
        2 => sel().prop_map(|op| Step::Probe { op }),
        1 => (sel(), tamper()).prop_map(|(op, field)| Step::HashProbe { op, field }),
        1 => any::<bool>().prop_map(|on| Step::Fail { on }),
    ]
    .boxed()
}

fn op_spec() -> BoxedStrategy<OpSpec> {
    let pred = prop_oneof![
        9 => Just(Pred::None),
        15 => any::<u16>().prop_map(Pred::Pool),
        1 => Just(Pred::Never),
        1 => Just(Pred::Cancelled),
        1 => Just(Pred::SelfBase),
    ];
    (0u8..3, 0u8..3, any::<bool>(), pred, 0u8..3).prop_map(|(func, arg, tgt, pred, salt)| OpSpec { func, arg, tgt, pred, salt }).boxed()
}

fn strategy(tier: Tier) -> BoxedStrategy<Case> {
    let max = tier.pick(35usize, 80usize);
    (
        prop_oneof![4 => 2u32..2000, 1 => Just(2u32), 1 => 1_000_000u32..2_000_000, 1 => (LEDGER_CAP - 3000)..(LEDGER_CAP - 1000)],
        prop_oneof![6 => 0u32..6, 1 => 6u32..40],
        proptest::collection::vec(op_spec(), POOL..=POOL),
        // two concatenated vectors truncated to `max`: long histories are the rule, and both parts shrink by deletion
        (proptest::collection::vec(step(), 0..=max), proptest::collection::vec(step(), 0..=max)),
    )
        .prop_map(move |(seq, min_delay, pool, (mut steps, more))| {
            steps.extend(more);
            steps.truncate(max);
            Case { seq, min_delay, pool, steps }
        })
        .boxed()
}

// ---------------------------------------------------------------- model

#[derive(Clone, Copy, Debug, PartialEq, Eq)]
enum St {
    Unset,
    Sched(u32),
    Done,
}

/// model-derived observation row `[ledger, state, exists, pending, ready, done]`
fn derive(st: St, now: u32) -> [u32; 6] {
    match st {
        St::Unset => [0, OperationState::Unset as u32, 0, 0, 0, 0],
        St::Sched(r) if r > now => [r, OperationState::Waiting as u32, 1, 1, 0, 0],
        St::Sched(r) => [r, OperationState::Ready as u32, 1, 1, 1, 0],
        St::Done => [1, OperationState::Done as u32, 1, 0, 0, 1],
    }
}

struct World {
    e: Env,
    tl: Address,
    tgts: [Address; 2],
    ops: Vec<Operation>,
    ids: Vec<BytesN<32>>,
    ghost: Operation,
    ghost_id: BytesN<32>,
    never_id: BytesN<32>,
    /// distinct (target index, function id, argument key) of the pool, for the counters
    keys: Vec<(usize, u32, u32)>,
}

fn zero(e: &Env) -> BytesN<32> {
    BytesN::from_array(e, &[0u8; 32])
}

fn fname(f: u8) -> &'static str {
    match f {
        0 => "bump",
        1 => "flaky",
        _ => "pair",
    }
}
fn fargs(e: &Env, f: u8, x: u32) -> SVec<Val> {
    if f == 2 {
        args![e; x, x.wrapping_add(1)]
    } else {
        args![e; x]
    }
}
fn fkey(f: u8, x: u32) -> (u32, u32) {
    if f == 2 {
        (2, x.wrapping_mul(1000).wrapping_add(x.wrapping_add(1)))
    } else {
        (f as u32, x)
    }
}

fn hash(e: &Env, tl: &Address, op: &Operation) -> Result<BytesN<32>, Violation> {
    call_t::<BytesN<32>>(e, tl, "hash_operation", args![e; op.clone()])
        .map_err(|er| violation("C08/hash_operation/failed", format!("hash_operation failed: {er}")))
}

fn tampered(w: &World, case: &Case, i: usize, t: Tamper) -> Operation {
    let e = &w.e;
    let mut op = w.ops[i].clone();
    let sp = &case.pool[i];
    match t {
        Tamper::Arg => op.args = fargs(e, sp.func, sp.arg as u32 + 7),
        Tamper::Salt => {
            let mut s = op.salt.to_array();
            s[31] ^= 1;
            op.salt = BytesN::from_array(e, &s);
        }
        Tamper::Pred => {
            op.predecessor = if op.predecessor == zero(e) { BytesN::from_array(e, &[1u8; 32]) } else { zero(e) };
        }
        Tamper::Func => op.function = Symbol::new(e, if sp.func == 0 { "flaky" } else { "bump" }),
        Tamper::Target => op.target = w.tgts[(!sp.tgt) as usize].clone(),
    }
    op
}

fn observe(w: &World) -> Result<(Vec<[u32; 6]>, u32, Vec<u32>, [u32; 2]), Violation> {
    let e = &w.e;
    let mut ids: SVec<BytesN<32>> = SVec::new(e);
    for id in &w.ids {
        ids.push_back(id.clone());
    }
    ids.push_back(w.ghost_id.clone());
    ids.push_back(w.never_id.clone());
    let d: SVec<SVec<u32>> =
        call_t(e, &w.tl, "dump", args![e; ids]).map_err(|er| violation("C08/getters/failed", format!("bulk getter read failed: {er}")))?;
    let n = w.ids.len() + 2;
    ensure!(d.len() as usize == n + 1, "C08/getters/failed", "dump returned {} rows", d.len());
    let mut rows = vec![];
    for i in 0..n {
        let r = d.get_unchecked(i as u32);
        let mut a = [0u32; 6];
        for (k, slot) in a.iter_mut().enumerate() {
            *slot = r.get(k as u32).unwrap_or(u32::MAX);
        }
        rows.push(a);
    }
    let min = d.get_unchecked(n as u32).get(0).unwrap_or(u32::MAX);
    // target counters
    let mut counts = vec![];
    let mut totals = [0u32; 2];
    for t in 0..2 {
        let mut keys: SVec<(u32, u32)> = SVec::new(e);
        for (ti, f, x) in &w.keys {
            if *ti == t {
                keys.push_back((*f, *x));
            }
        }
        let r: SVec<u32> = call_t(e, &w.tgts[t], "report", args![e; keys.clone()])
            .map_err(|er| violation("C08/harness/target-report", format!("target report failed: {er}")))?;
        for k in 0..keys.len() {
            counts.push(r.get(k).unwrap_or(u32::MAX));
        }
        totals[t] = r.get(keys.len()).unwrap_or(u32::MAX);
    }
    Ok((rows, min, counts, totals))
}

pub fn run(case: &Case, ctx: &mut Ctx) -> R {
    ensure!(case.pool.len() == POOL && case.seq >= 2, "C08/harness/ill-formed-case", "pool {} seq {}", case.pool.len(), case.seq);
    let e = envx::new_env(case.seq, envx::BIG_TTL);
    let tl = e.register(TimelockLib, (case.min_delay,));
    let tgts = [e.register(Target, ()), e.register(Target, ())];
    let never_id = BytesN::from_array(&e, &[0xEE; 32]);
    let ghost =
        Operation { target: tgts[0].clone(), function: Symbol::new(&e, "bump"), args: args![&e; 99u32], predecessor: zero(&e), salt: BytesN::from_array(&e, &[0xC0; 32]) };
    let ghost_id = hash(&e, &tl, &ghost)?;

    // ---- build the pool (ids via the entry point, in index order)
    let mut ops: Vec<Operation> = vec![];
    let mut ids: Vec<BytesN<32>> = vec![];
    let mut pred_of: Vec<Option<usize>> = vec![]; // Some(j) = pool predecessor
    let mut pred_ok_never: Vec<bool> = vec![]; // predecessor that can never be Done
    let mut depth: Vec<u32> = vec![];
    for (i, sp) in case.pool.iter().enumerate() {
        let mut salt = [0u8; 32];
        salt[0] = i as u8 + 1;
        salt[1] = sp.salt;
        let mut op = Operation {
            target: tgts[sp.tgt as usize].clone(),
            function: Symbol::new(&e, fname(sp.func)),
            args: fargs(&e, sp.func, sp.arg as u32),
            predecessor: zero(&e),
            salt: BytesN::from_array(&e, &salt),
        };
        let (pj, never) = match &sp.pred {
            Pred::None => (None, false),
            Pred::Pool(s) if i > 0 => {
                let j = pick(*s, i);
                op.predecessor = ids[j].clone();
                (Some(j), false)
            }
            Pred::Pool(_) => (None, false),
            Pred::Never => {
                op.predecessor = never_id.clone();
                ctx.class("pred_never_scheduled");
                (None, true)
            }
            Pred::Cancelled => {
                op.predecessor = ghost_id.clone();
                ctx.class("pred_cancelled");
                (None, true)
            }
            Pred::SelfBase => {
                op.predecessor = hash(&e, &tl, &op)?;
                ctx.class("pred_self_base");
                (None, true)
            }
        };
        depth.push(match pj {
            Some(j) => depth[j] + 1,
            None => 0,
        });
        pred_of.push(pj);
        pred_ok_never.push(never);
        let id = hash(&e, &tl, &op)?;
        ensure!(!ids.contains(&id) && id != ghost_id && id != never_id, "C08/hash_operation/collision", "pool op {i} collides with another id");
        ids.push(id);
        ops.push(op);
    }
    let mut keys: Vec<(usize, u32, u32)> = vec![(0, 0, 99)];
    for sp in &case.pool {
        let (f, x) = fkey(sp.func, sp.arg as u32);
        let k = (sp.tgt as usize, f, x);
        if !keys.contains(&k) {
            keys.push(k);
        }
    }
    keys.sort();
    let w = World { e: e.clone(), tl: tl.clone(), tgts, ops, ids, ghost, ghost_id, never_id, keys };

    // ---- set-up: the ghost operation is scheduled and cancelled
    let r = call(&e, &tl, "schedule_operation", args![&e; w.ghost.clone(), case.min_delay]);
    ensure!(r.is_ok(), "C08/schedule/refused-valid", "set-up: scheduling the ghost op with delay = min_delay failed: {:?}", r);
    let r = call(&e, &tl, "cancel_operation", args![&e; w.ghost_id.clone()]);
    ensure!(r.is_ok(), "C08/cancel/refused-pending", "set-up: cancelling the pending ghost op failed: {:?}", r);

    // ---- model
    let mut st = [St::Unset; POOL];
    let mut min_delay = case.min_delay;
    let mut counts: BTreeMap<(usize, u32, u32), u32> = w.keys.iter().map(|k| (*k, 0)).collect();
    let mut failing = false;
    let mut last: usize = 0;
    let mut min_changed_since_sched = [false; POOL];
    let (mut saw_m1, mut saw_at, mut saw_chain, mut saw_min_between, mut saw_blocked) = (false, false, false, false, false);

    let check = |st: &[St; POOL], min_delay: u32, counts: &BTreeMap<(usize, u32, u32), u32>, what: &str| -> R {
        let now = envx::seq(&w.e);
        let (rows, min, cs, totals) = observe(&w)?;
        for i in 0..POOL {
            let want = derive(st[i], now);
            ensure!(
                rows[i] == want,
                "C08/state/mismatch",
                "after {what} at ledger {now}: op {i} model {:?} => [ledger,state,exists,pending,ready,done] = {:?}, contract reports {:?}",
                st[i],
                want,
                rows[i]
            );
        }
        ensure!(rows[POOL] == derive(St::Unset, now), "C08/state/cancelled-not-unset", "after {what}: cancelled ghost id reports {:?}", rows[POOL]);
        ensure!(rows[POOL + 1] == derive(St::Unset, now), "C08/state/never-scheduled-not-unset", "after {what}: never-scheduled id reports {:?}", rows[POOL + 1]);
        ensure!(min == min_delay, "C08/min_delay/mismatch", "after {what}: get_min_delay {min}, model {min_delay}");
        let mut want_tot = [0u32; 2];
        let mut k = 0;
        for t in 0..2 {
            for key in w.keys.iter().filter(|k| k.0 == t) {
                let want = counts[key];
                want_tot[t] += want;
                ensure!(
                    cs[k] == want,
                    "C08/target/count-mismatch",
                    "after {what}: target {t} saw {} invocations of (fn {}, arg {}), successful executes in the model: {want}",
                    cs[k],
                    key.1,
                    key.2
                );
                k += 1;
            }
        }
        ensure!(totals == want_tot, "C08/target/unexpected-invocation", "after {what}: target totals {:?}, model {:?}", totals, want_tot);
        Ok(())
    };
    check(&st, min_delay, &counts, "set-up")?;

    let pred_of_c = pred_of.clone();
    let pred_never_c = pred_ok_never.clone();
    let resolve = |s: &Sel, last: usize, st: &[St; POOL]| -> usize {
        let pred_done = |i: usize| match (pred_of_c[i], pred_never_c[i]) {
            (_, true) => false,
            (Some(j), _) => st[j] == St::Done,
            (None, _) => true,
        };
        let class = |x: u16, f: &dyn Fn(usize) -> bool| -> usize {
            let v: Vec<usize> = (0..POOL).filter(|i| f(*i)).collect();
            if v.is_empty() {
                pick(x, POOL)
            } else {
                v[pick(x, v.len())]
            }
        };
        match s {
            Sel::Idx(x) => pick(*x, POOL),
            Sel::Last => last,
            Sel::Unset(x) => class(*x, &|i| st[i] == St::Unset),
            Sel::Pending(x) => class(*x, &|i| matches!(st[i], St::Sched(_))),
            Sel::Done(x) => class(*x, &|i| st[i] == St::Done),
            Sel::Runnable(x) => {
                if (0..POOL).any(|i| matches!(st[i], St::Sched(_)) && pred_done(i)) {
                    class(*x, &|i| matches!(st[i], St::Sched(_)) && pred_done(i))
                } else {
                    class(*x, &|i| matches!(st[i], St::Sched(_)))
                }
            }
            Sel::Blocked(x) => class(*x, &|i| matches!(st[i], St::Sched(_)) && !pred_done(i)),
            Sel::Successor(x) => class(*x, &|i| st[i] != St::Done && matches!(pred_of_c[i], Some(j) if st[j] == St::Done)),
        }
    };

    for (n, stp) in case.steps.iter().enumerate() {
        let now = envx::seq(&e);
        let what = format!("step {n} {:?}", stp);
        match stp {
            Step::Schedule { op, delay } => {
                let i = resolve(op, last, &st);
                last = i;
                let d: u32 = match delay {
                    Delay::Zero => 0,
                    Delay::MinPlus(k) => (min_delay as i64 + *k as i64).clamp(0, u32::MAX as i64) as u32,
                    Delay::K(k) => *k,
                    Delay::ToMax(k) => ((u32::MAX - now) as i64 + *k as i64).clamp(0, u32::MAX as i64) as u32,
                    Delay::Max => u32::MAX,
                };
                let want_ok = st[i] == St::Unset && d >= min_delay;
                let r = call_t::<BytesN<32>>(&e, &tl, "schedule_operation", args![&e; w.ops[i].clone(), d]);
                ctx.op(r.is_ok());
                match (&r, want_ok) {
                    (Ok(id), true) => {
                        ensure!(*id == w.ids[i], "C08/schedule/id-differs-from-hash_operation", "{what}: returned id differs from hash_operation of the same fields");
                        let ready = now.saturating_add(d);
                        if (now as u64) + (d as u64) > u32::MAX as u64 {
                            ctx.class("schedule_saturated");
                        }
                        if d == min_delay {
                            ctx.class("schedule_at_min_delay");
                        }
                        st[i] = St::Sched(ready);
                        min_changed_since_sched[i] = false;
                        ctx.class("schedule_ok");
                    }
                    (Err(_), false) => {
                        if st[i] == St::Done {
                            ctx.class("reschedule_done_refused");
                        } else if st[i] != St::Unset {
                            ctx.class("reschedule_pending_refused");
                        } else {
                            ctx.class("schedule_short_delay_refused");
                        }
                    }
                    (Ok(_), false) => {
                        if st[i] == St::Done {
                            bail!("C08/schedule/done-rescheduled", "{what}: op {i} is Done but was scheduled again")
                        } else if st[i] != St::Unset {
                            bail!("C08/schedule/pending-rescheduled", "{what}: op {i} is {:?} but was scheduled again", st[i])
                        } else {
                            bail!("C08/schedule/delay-below-min-accepted", "{what}: delay {d} < min_delay {min_delay} accepted")
                        }
                    }
                    (Err(er), true) => bail!("C08/schedule/refused-valid", "{what}: op {i} Unset, delay {d} >= min_delay {min_delay}, but refused: {er}"),
                }
            }
            Step::Execute { op, raw, tamper, at } => {
                let i = resolve(op, last, &st);
                last = i;
                if let (Some(d), St::Sched(r)) = (at, st[i]) {
                    let to = (r as i64 + *d as i64).clamp(0, u32::MAX as i64) as u32;
                    if to > now && to <= LEDGER_CAP {
                        envx::set_seq(&e, to);
                    }
                }
                let now = envx::seq(&e);
                let sp = &case.pool[i];
                let (oper, t_ok) = match tamper {
                    Some(t) => (tampered(&w, case, i, *t), false),
                    None => (w.ops[i].clone(), true),
                };
                let pred_done = match (pred_of[i], pred_ok_never[i]) {
                    (_, true) => false,
                    (Some(j), _) => st[j] == St::Done,
                    (None, _) => true,
                };
                let ready = matches!(st[i], St::Sched(r) if r <= now);
                let target_fails = !*raw && sp.func == 1 && failing;
                let want_ok = t_ok && ready && pred_done && !target_fails;
                if t_ok {
                    if let St::Sched(r) = st[i] {
                        if r == now.wrapping_add(1) {
                            saw_m1 = true;
                            ctx.class("exec_attempt_at_ready_minus_1");
                        } else if r == now {
                            saw_at = true;
                            ctx.class("exec_attempt_at_ready");
                        } else if r < now {
                            ctx.class("exec_attempt_after_ready");
                        } else {
                            ctx.class("exec_attempt_waiting_far");
                        }
                    }
                    if st[i] == St::Done {
                        ctx.class("exec_attempt_on_done");
                    }
                    if st[i] == St::Unset {
                        ctx.class("exec_attempt_on_unset");
                    }
                    if ready && !pred_done {
                        saw_blocked = true;
                        ctx.class("exec_blocked_by_predecessor");
                    }
                    if ready && pred_done && target_fails {
                        ctx.class("exec_target_fails");
                    }
                } else {
                    ctx.class("exec_tampered_fields");
                }
                let f = if *raw { "set_execute_operation" } else { "execute_operation" };
                let r = call(&e, &tl, f, args![&e; oper]);
                ctx.op(r.is_ok());
                match (&r, want_ok) {
                    (Ok(v), true) => {
                        st[i] = St::Done;
                        if !*raw {
                            let (fk, x) = fkey(sp.func, sp.arg as u32);
                            let c = counts.get_mut(&(sp.tgt as usize, fk, x)).unwrap();
                            *c += 1;
                            let ret = <u32 as soroban_sdk::TryFromVal<Env, Val>>::try_from_val(&e, v).ok();
                            ensure!(ret == Some(*c), "C08/execute/return-value", "{what}: execute_operation returned {:?}, the target returned {}", ret, *c);
                            ctx.class("execute_ok");
                        } else {
                            ctx.class("set_execute_ok");
                        }
                        if depth[i] >= 1 {
                            saw_chain = true;
                            ctx.class("execute_ok_with_pool_predecessor");
                        }
                        if depth[i] >= 2 {
                            ctx.class("execute_ok_chain_depth_ge_2");
                        }
                        if min_changed_since_sched[i] {
                            saw_min_between = true;
                            ctx.class("execute_ok_after_min_delay_change");
                        }
                    }
                    (Err(_), false) => {}
                    (Ok(_), false) => {
                        if !t_ok {
                            bail!("C08/execute/other-fields-accepted", "{what}: an operation with a changed field ({:?}) was executed although only the original was scheduled", tamper)
                        }
                        match st[i] {
                            St::Done => bail!("C08/execute/re-executed", "{what}: op {i} was already Done"),
                            St::Unset => bail!("C08/execute/unset-executed", "{what}: op {i} is not scheduled"),
                            St::Sched(r) if r > now => bail!("C08/execute/before-ready", "{what}: ready ledger {r} > now {now}"),
                            _ if !pred_done => bail!("C08/execute/predecessor-not-done", "{what}: predecessor of op {i} has not been executed"),
                            _ => bail!("C08/execute/target-failure-swallowed", "{what}: the target call failed but execute succeeded"),
                        }
                    }
                    (Err(er), true) => bail!("C08/execute/refused-ready", "{what}: op {i} Ready (ready {:?} <= now {now}), predecessor done, but refused: {er}", st[i]),
                }
            }
            Step::Cancel { id } => {
                let (idv, idx): (BytesN<32>, Option<usize>) = match id {
                    IdSel::Pool(s) => {
                        let i = resolve(s, last, &st);
                        (w.ids[i].clone(), Some(i))
                    }
                    IdSel::Ghost => (w.ghost_id.clone(), None),
                    IdSel::Never => (w.never_id.clone(), None),
                };
                let cur = idx.map(|i| st[i]).unwrap_or(St::Unset);
                let want_ok = matches!(cur, St::Sched(_));
                let r = call(&e, &tl, "cancel_operation", args![&e; idv]);
                ctx.op(r.is_ok());
                match (&r, want_ok) {
                    (Ok(_), true) => {
                        if matches!(cur, St::Sched(rd) if rd <= now) {
                            ctx.class("cancel_ready");
                        } else {
                            ctx.class("cancel_waiting");
                        }
                        st[idx.unwrap()] = St::Unset;
                    }
                    (Err(_), false) => {
                        if cur == St::Done {
                            ctx.class("cancel_done_refused");
                        }
                    }
                    (Ok(_), false) => {
                        if cur == St::Done {
                            bail!("C08/cancel/done-cancelled", "{what}: a Done operation was cancelled")
                        } else {
                            bail!("C08/cancel/unset-cancelled", "{what}: an unscheduled id was cancelled")
                        }
                    }
                    (Err(er), true) => bail!("C08/cancel/refused-pending", "{what}: op is pending ({:?}) but cancel was refused: {er}", cur),
                }
            }
            Step::SetMinDelay { v } => {
                let r = call(&e, &tl, "set_min_delay", args![&e; *v]);
                ctx.op(r.is_ok());
                ensure!(r.is_ok(), "C08/set_min_delay/failed", "{what}: {:?}", r);
                if *v != min_delay {
                    for (i, s) in st.iter().enumerate() {
                        if matches!(s, St::Sched(_)) {
                            min_changed_since_sched[i] = true;
                        }
                    }
                }
                min_delay = *v;
            }
            Step::Advance(a) => match a {
                Adv::K(k) => {
                    if now.saturating_add(*k) <= LEDGER_CAP {
                        envx::advance(&e, *k)
                    }
                }
                Adv::ToReady { op, d } => {
                    let i = resolve(op, last, &st);
                    last = i;
                    if let St::Sched(r) = st[i] {
                        let to = (r as i64 + *d as i64).clamp(0, u32::MAX as i64) as u32;
                        // the test host refuses TTL arithmetic close to u32::MAX ("ledger is mis-configured"):
                        // ledgers beyond LEDGER_CAP are outside the explorable domain
                        if to > now && to <= LEDGER_CAP {
                            envx::set_seq(&e, to);
                        } else if to > LEDGER_CAP {
                            ctx.class("advance_beyond_ledger_cap_skipped");
                        }
                    }
                }
            },
            Step::Probe { op } => {
                let i = resolve(op, last, &st);
                let want = derive(st[i], now);
                let id = w.ids[i].clone();
                let g = |f: &str| -> Result<u32, Violation> {
                    let v = call(&e, &tl, f, args![&e; id.clone()]).map_err(|er| violation("C08/getters/failed", format!("{f} failed: {er}")))?;
                    if let Ok(b) = <bool as soroban_sdk::TryFromVal<Env, Val>>::try_from_val(&e, &v) {
                        return Ok(b as u32);
                    }
                    if let Ok(s) = <OperationState as soroban_sdk::TryFromVal<Env, Val>>::try_from_val(&e, &v) {
                        if f == "get_operation_state" {
                            return Ok(s as u32);
                        }
                    }
                    <u32 as soroban_sdk::TryFromVal<Env, Val>>::try_from_val(&e, &v).map_err(|_| violation("C08/getters/failed", format!("{f}: unexpected return type")))
                };
                let got = [
                    g("get_operation_ledger")?,
                    g("get_operation_state")?,
                    g("operation_exists")?,
                    g("is_operation_pending")?,
                    g("is_operation_ready")?,
                    g("is_operation_done")?,
                ];
                ensure!(got == want, "C08/state/entry-point-mismatch", "{what}: entry points report {:?}, model {:?} => {:?}", got, st[i], want);
                let m = call_t::<u32>(&e, &tl, "get_min_delay", args![&e]).map_err(|er| violation("C08/getters/failed", er))?;
                ensure!(m == min_delay, "C08/min_delay/mismatch", "{what}: get_min_delay {m}, model {min_delay}");
                ctx.class("probe");
            }
            Step::HashProbe { op, field } => {
                let i = resolve(op, last, &st);
                let again = hash(&e, &tl, &w.ops[i])?;
                ensure!(again == w.ids[i], "C08/hash_operation/not-deterministic", "{what}: same fields hashed to a different id");
                let t = tampered(&w, case, i, *field);
                let tid = hash(&e, &tl, &t)?;
                ensure!(tid != w.ids[i], "C08/hash_operation/field-not-bound", "{what}: changing {:?} does not change the id", field);
                ensure!(!w.ids.contains(&tid), "C08/hash_operation/collision", "{what}: perturbed op collides with a pool id");
                // predecessor and salt are two different fields of the tuple, also when one of them is the all-zero
                // "none" value: (pred = P, salt = 0) and (pred = 0, salt = P) are different operations
                let zero = BytesN::from_array(&e, &[0u8; 32]);
                let base = &w.ops[i];
                let pval = if base.predecessor != zero {
                    base.predecessor.clone()
                } else if base.salt != zero {
                    base.salt.clone()
                } else {
                    BytesN::from_array(&e, &[7u8; 32])
                };
                let mut a = base.clone();
                a.predecessor = pval.clone();
                a.salt = zero.clone();
                let mut b = base.clone();
                b.predecessor = zero.clone();
                b.salt = pval.clone();
                ensure!(hash(&e, &tl, &a)? != hash(&e, &tl, &b)?, "C08/hash_operation/predecessor-salt-not-distinguished", "{what}: (predecessor = P, salt = 0) and (predecessor = 0, salt = P) hash to the same id");
                if base.predecessor != base.salt {
                    let mut sw = base.clone();
                    sw.predecessor = base.salt.clone();
                    sw.salt = base.predecessor.clone();
                    ensure!(hash(&e, &tl, &sw)? != w.ids[i], "C08/hash_operation/predecessor-salt-not-distinguished", "{what}: exchanging predecessor and salt does not change the id");
                }
                ctx.class("hash_probe");
            }
            Step::Fail { on } => {
                for t in &w.tgts {
                    let r = call(&e, t, "set_fail", args![&e; *on]);
                    ensure!(r.is_ok(), "C08/harness/set_fail", "{:?}", r);
                }
                failing = *on;
            }
        }
        check(&st, min_delay, &counts, &what)?;
    }
    if saw_m1 && saw_at && saw_chain && saw_min_between {
        ctx.nontrivial = true;
        ctx.class("nontrivial");
    }
    if saw_blocked {
        ctx.class("case_with_blocked_predecessor");
    }
    Ok(())
}

pub fn property() -> Property {
    Property {
        id: "C08",
        rule: "case = (start ledger >= 2, initial min_delay, pool of 5 operations with predecessor in none | earlier pool op | never-scheduled id | cancelled id | own base id, \
               history of <= 35 (thorough 80) schedule / execute / set_execute / cancel / set_min_delay / advance-to(ready-1|ready|ready+1|k) / probe steps, state compared with the \
               reference model after every step); non-trivial = the history contains an execute attempt at ready-1 AND one at ready AND a successful execute of an op whose pool \
               predecessor was executed first AND a successful execute with a set_min_delay change between its schedule and its execute; distinct = distinct serialised case",
        // (own Gen value instead of gen_sub: more shrink iterations, the histories are long)
        subs: vec![Box::new(Gen::<Case> { name: "history", quick: 3000, thorough: 50000, strategy, run, max_shrink_iters: 3000 })],
        // <= 1/10 of the class counts measured over seeds 0..5 (quick); thorough = 15x quick
        floors: vec![
            ("nontrivial", 10, 150),
            ("execute_ok", 300, 4500),
            ("execute_ok_with_pool_predecessor", 80, 1200),
            ("execute_ok_after_min_delay_change", 120, 1800),
            ("exec_attempt_at_ready", 300, 4500),
            ("exec_attempt_at_ready_minus_1", 120, 1800),
            ("exec_blocked_by_predecessor", 500, 7500),
            ("exec_target_fails", 35, 500),
            ("exec_tampered_fields", 250, 3700),
            ("cancel_ready", 80, 1200),
            ("cancel_waiting", 80, 1200),
            ("cancel_done_refused", 30, 450),
            ("reschedule_done_refused", 140, 2100),
            ("schedule_saturated", 100, 1500),
            ("hash_probe", 200, 3000),
        ],
        assumptions: vec![
            "Soroban native test host (storage, rollback of failed invocations, cross-contract calls) is trusted",
            "Keccak-256 collision / fixpoint resistance: distinct field tuples have distinct ids; a literal self-predecessor is not constructible",
            "ledger sequences >= 2 (0 and 1 are the state sentinels)",
        ],
    }
}

//! C08 — not implemented yet.
use crate::engine::*;

pub fn property() -> Property {
    Property { id: "C08", rule: "", subs: vec![], floors: vec![], assumptions: vec![] }
}

//! C20 (second half) — four registry sub-checks appended to C20's property:
//! smart-account context rules, bound tokens, documents, compliance modules
//! (+ a small deterministic capacity sub-check for the two big bucketed registries).
//!
//! Every sub-check interprets a generated history against a reference model written
//! from the documentation (plain sets / maps), compares the outcome of EVERY operation
//! with the model's prediction and evaluates EVERY getter after EVERY step.
//! Enumeration order is never asserted: lists are compared as sets ("each element
//! exactly once") plus the index bijection where an index getter exists.
//!
//! Signatures: `C20/<registry>.<fn>/accepted:<why the model refuses>`,
//! `C20/<registry>.<fn>/refused:<valid|at-limit|freed|...>`, `C20/<registry>.<getter>/<clause>`.

use crate::contracts::c20b::{binder::Binder, compliance_reg::ComplianceReg, docs::Docs, mock_module::MockModule, mock_policy::MockPolicy};
use crate::engine::*;
use crate::envx::{self, call, call_t};
use crate::gen::pick;
use proptest::prelude::*;
use serde::{Deserialize, Serialize};
use soroban_sdk::testutils::Address as _;
use soroban_sdk::xdr::{ContractId, Hash, ScAddress};
use soroban_sdk::{Address, Bytes, BytesN, Env, IntoVal, Map, String as SString, Val, Vec as SVec};
use std::collections::{BTreeMap, BTreeSet};

use stellar_accounts::smart_account::{ContextRule, ContextRuleType, Signer};
use stellar_tokens::rwa::compliance::ComplianceHook;
use stellar_tokens::rwa::extensions::doc_manager::{self as dm, Document};

// documented limits (re-stated from the docs, NOT imported from the code under test)
const MAX_RULES: usize = 15;
const MAX_SIGNERS: usize = 15;
const MAX_POLICIES: usize = 5;
const MAX_TOKENS: usize = 10_000;
const TOKEN_BUCKET: usize = 100;
const MAX_BATCH: usize = 200;
const MAX_DOCS: usize = 5_000;
const DOC_BUCKET: usize = 50;
const MAX_URI: usize = 200;
const MAX_MODULES: usize = 20;

// ------------------------------------------------------------------ shared helpers

/// Fresh Env without the (SDK 25 default) mainnet per-invocation resource limits: the capacity
/// scenarios deliberately drive registries to their documented limits (200-token batches emit
/// ~24 KB of events, a 5 000-document scan touches > 100 ledger entries), and a resource-limit
/// abort is not a registry answer.
fn new_env(seq: u32) -> Env {
    let e = envx::new_env(seq, envx::BIG_TTL);
    e.cost_estimate().disable_resource_limits();
    e
}

fn akey(a: &Address) -> [u8; 32] {
    match ScAddress::try_from(a) {
        Ok(ScAddress::Contract(ContractId(Hash(h)))) => h,
        _ => [0u8; 32],
    }
}

/// Outcome of an operation against the model's prediction.
/// `exp = Ok(situation)` : the model expects success; `Err(why)` : the model expects refusal.
fn verdict(reg: &str, f: &str, exp: Result<&'static str, &'static str>, got: &Result<Val, String>, what: &str) -> R {
    match (exp, got) {
        (Ok(sit), Err(er)) => {
            bail!(format!("C20/{reg}.{f}/refused:{sit}"), "{what}: the model expects success ({sit}) but the call was refused: {er}")
        }
        (Err(why), Ok(_)) => {
            bail!(format!("C20/{reg}.{f}/accepted:{why}"), "{what}: the model expects refusal ({why}) but the call succeeded")
        }
        _ => Ok(()),
    }
}

/// State-relative selector of a list-registry element. Positions refer to the
/// enumeration the registry itself returned after the previous step.
#[derive(Clone, Debug, Serialize, Deserialize)]
pub enum Sel {
    First,
    Last,
    /// the element now sitting at the position vacated by the last successful removal
    Swapped,
    /// neither first nor last
    Mid(u16),
    At(u16),
    /// universe key that is currently not in the registry
    Absent(u16),
    /// key that was removed before and is currently not in the registry
    Removed(u16),
    /// (compliance) registered under another hook, not under this one
    Elsewhere(u16),
    /// brand-new key
    Fresh,
}

enum Pick {
    Key(usize),
    Fresh,
    Nothing,
}

/// an empty registry turns the positional selectors into "absent key" (the op then probes the refusal path)
fn resolve(sel: &Sel, obs: &[usize], hole: Option<usize>, absent: &[usize], removed: &[usize], elsewhere: &[usize]) -> Pick {
    match resolve_pos(sel, obs, hole, absent, removed, elsewhere) {
        Pick::Nothing => {
            if absent.is_empty() {
                Pick::Fresh
            } else {
                Pick::Key(absent[0])
            }
        }
        p => p,
    }
}
fn resolve_pos(sel: &Sel, obs: &[usize], hole: Option<usize>, absent: &[usize], removed: &[usize], elsewhere: &[usize]) -> Pick {
    let n = obs.len();
    let from_absent = |s: u16| if absent.is_empty() { Pick::Fresh } else { Pick::Key(absent[pick(s, absent.len())]) };
    match sel {
        Sel::First => {
            if n > 0 {
                Pick::Key(obs[0])
            } else {
                Pick::Nothing
            }
        }
        Sel::Last => {
            if n > 0 {
                Pick::Key(obs[n - 1])
            } else {
                Pick::Nothing
            }
        }
        Sel::Swapped => match hole {
            Some(h) if h < n => Pick::Key(obs[h]),
            _ => {
                if n > 0 {
                    Pick::Key(obs[n / 2])
                } else {
                    Pick::Nothing
                }
            }
        },
        Sel::Mid(s) => {
            if n >= 3 {
                Pick::Key(obs[1 + pick(*s, n - 2)])
            } else if n > 0 {
                Pick::Key(obs[pick(*s, n)])
            } else {
                Pick::Nothing
            }
        }
        Sel::At(s) => {
            if n > 0 {
                Pick::Key(obs[pick(*s, n)])
            } else {
                Pick::Nothing
            }
        }
        Sel::Absent(s) => from_absent(*s),
        Sel::Removed(s) => {
            if removed.is_empty() {
                from_absent(*s)
            } else {
                Pick::Key(removed[pick(*s, removed.len())])
            }
        }
        Sel::Elsewhere(s) => {
            if elsewhere.is_empty() {
                from_absent(*s)
            } else {
                Pick::Key(elsewhere[pick(*s, elsewhere.len())])
            }
        }
        Sel::Fresh => Pick::Fresh,
    }
}

fn sel_for_remove() -> BoxedStrategy<Sel> {
    prop_oneof![
        2 => Just(Sel::First),
        2 => Just(Sel::Last),
        6 => Just(Sel::Swapped),
        6 => any::<u16>().prop_map(Sel::Mid),
        3 => any::<u16>().prop_map(Sel::At),
        1 => any::<u16>().prop_map(Sel::Absent),
        1 => any::<u16>().prop_map(Sel::Removed),
        1 => any::<u16>().prop_map(Sel::Elsewhere),
        1 => Just(Sel::Fresh),
    ]
    .boxed()
}
fn sel_for_add() -> BoxedStrategy<Sel> {
    prop_oneof![
        7 => any::<u16>().prop_map(Sel::Absent),
        3 => any::<u16>().prop_map(Sel::Removed),
        2 => Just(Sel::Fresh),
        2 => any::<u16>().prop_map(Sel::At),
        1 => Just(Sel::First),
        1 => Just(Sel::Last),
        1 => any::<u16>().prop_map(Sel::Elsewhere),
    ]
    .boxed()
}

/// Index sample for a big bucketed list: both ends, every bucket edge (for huge lists only
/// the outer ones and those around the hole), the neighbourhood of the hole, a spread.
fn windows(n: usize, bucket: usize, hole: Option<usize>) -> Vec<u32> {
    let mut s: BTreeSet<usize> = BTreeSet::new();
    // last slot of a bucket and first slot of the next one
    let edge = |c: usize, s: &mut BTreeSet<usize>| {
        s.insert(c.saturating_sub(1));
        s.insert(c);
    };
    s.insert(0);
    s.insert(1);
    edge(n.saturating_sub(1), &mut s);
    let nb = n / bucket;
    for b in 1..=nb {
        if n <= 1000 || b <= 2 || b + 2 > nb {
            edge(b * bucket, &mut s);
        }
    }
    if let Some(h) = hole {
        s.insert(h.saturating_sub(1));
        s.insert(h);
        s.insert(h + 1);
        edge((h / bucket) * bucket, &mut s);
        edge((h / bucket + 1) * bucket, &mut s);
    }
    s.insert(n / 3);
    s.insert(2 * n / 3);
    s.into_iter().filter(|i| *i < n).map(|i| i as u32).collect()
}

/// bookkeeping shared by the list registries for the non-triviality rule:
/// "a removal of an element that is neither first nor last followed by removal of the
/// element that was moved into its place".
#[derive(Default, Clone, Debug)]
struct SwapTrack {
    hole: Option<usize>,
    /// position of the last removal when it was a middle one; the key sitting there afterwards
    pending_pos: Option<usize>,
    pending_key: Option<usize>,
    hit: bool,
}
impl SwapTrack {
    /// call after a successful removal of `key` that sat at `pos` in a list of `n_before`
    fn removed(&mut self, key: usize, pos: Option<usize>, n_before: usize) {
        if self.pending_key == Some(key) {
            self.hit = true;
        }
        self.pending_key = None;
        self.pending_pos = None;
        self.hole = pos;
        if let Some(p) = pos {
            if p > 0 && p + 1 < n_before {
                self.pending_pos = Some(p);
            }
        }
    }
    /// call after the enumeration was re-read
    fn observe(&mut self, obs: &[usize]) {
        if let Some(p) = self.pending_pos.take() {
            self.pending_key = obs.get(p).copied();
        }
    }
}

// ================================================================== 1. smart-account context rules

const NS: usize = 17; // signer universe (first 6 = regular universe, the rest for capacity)
const NP: usize = 6; // policy universe
const NT: usize = 4; // context types in use (+1 never used)
const SMALL: usize = 6;

#[derive(Clone, Debug, Serialize, Deserialize)]
pub enum RSel {
    First,
    Last,
    /// the rule that followed the last removed rule in its per-type list
    Swapped,
    Mid(u16),
    At(u16),
    Removed(u16),
    /// an id that was never handed out (next_id + k)
    Never(u8),
}
#[derive(Clone, Debug, Serialize, Deserialize)]
pub enum KSel {
    Member(u16),
    NonMember(u16),
    Any(u8),
}
#[derive(Clone, Debug, Serialize, Deserialize)]
pub enum Spec {
    Fresh { smask: u8, pmask: u8 },
    /// (type, signers, policies) of a live rule -> must be refused as duplicate whatever the order
    CopyLive(u16),
    /// ... of a rule removed before
    CopyRemoved(u16),
    /// ... of a rule as it was BEFORE a later signer/policy edit
    CopyStale(u16),
    /// first `ns` signers / first `np` policies of the universe
    Big { ns: u8, np: u8 },
    /// a live rule's (type, signers, policies) with ONE signer / policy toggled: one edit away from a twin
    NearLive { src: u16, key: u8, on_policy: bool },
}
#[derive(Clone, Debug, Serialize, Deserialize)]
pub enum Vu {
    None,
    Rel(i8),
    /// ledger 0
    Zero,
}
#[derive(Clone, Debug, Serialize, Deserialize)]
pub enum ROp {
    AddRule { ty: u8, spec: Spec, order: u8, dup_signer: bool, name: u8, vu: Vu },
    RemoveRule(RSel),
    AddSigner(RSel, KSel),
    RemoveSigner(RSel, KSel),
    AddPolicy(RSel, KSel),
    RemovePolicy(RSel, KSel),
    /// kind 0..4 = add_signer / remove_signer / add_policy / remove_policy chosen so that the
    /// edited rule would become identical to another live rule
    EditIntoDup { kind: u8, sel: u16 },
    SetName(RSel, u8),
    SetValidUntil(RSel, Vu),
    Advance(u8),
}
#[derive(Clone, Debug, Serialize, Deserialize)]
pub struct RCase {
    pub seq: u32,
    pub init_s: u8,
    pub init_p: u8,
    /// extra rules (distinct fingerprints) added during set-up
    pub prefill: u8,
    pub ops: Vec<ROp>,
}

fn rsel() -> BoxedStrategy<RSel> {
    prop_oneof![
        2 => Just(RSel::First),
        4 => Just(RSel::Last),
        3 => Just(RSel::Swapped),
        4 => any::<u16>().prop_map(RSel::Mid),
        4 => any::<u16>().prop_map(RSel::At),
        1 => any::<u16>().prop_map(RSel::Removed),
        1 => (0u8..3).prop_map(RSel::Never),
    ]
    .boxed()
}
fn ksel(member_w: u32, non_w: u32) -> BoxedStrategy<KSel> {
    prop_oneof![
        member_w => any::<u16>().prop_map(KSel::Member),
        non_w => any::<u16>().prop_map(KSel::NonMember),
        1 => any::<u8>().prop_map(KSel::Any),
    ]
    .boxed()
}
fn vu_strategy() -> BoxedStrategy<Vu> {
    // Rel(i8::MIN) resolves to ledger 0 (the histories start at ledger 100): a past ledger that must not read as "no expiration"
    prop_oneof![8 => Just(Vu::None), 4 => (-1i8..=4).prop_map(Vu::Rel), 1 => any::<i8>().prop_map(Vu::Rel), 1 => Just(Vu::Zero)].boxed()
}
fn add_rule_strategy(big_w: u32) -> BoxedStrategy<ROp> {
    let spec = prop_oneof![
        8 => (0u8..16, 0u8..8).prop_map(|(smask, pmask)| Spec::Fresh { smask, pmask }),
        2 => (any::<u8>(), 0u8..64).prop_map(|(smask, pmask)| Spec::Fresh { smask, pmask }),
        3 => any::<u16>().prop_map(Spec::CopyLive),
        3 => any::<u16>().prop_map(Spec::CopyRemoved),
        2 => any::<u16>().prop_map(Spec::CopyStale),
        big_w => (13u8..=16, 0u8..=6).prop_map(|(ns, np)| Spec::Big { ns, np }),
        4 => (any::<u16>(), 0u8..4, any::<bool>()).prop_map(|(src, key, on_policy)| Spec::NearLive { src, key, on_policy }),
        2 => proptest::sample::select(vec![0u8, 1, 2, 4, 3]).prop_map(|pmask| Spec::Fresh { smask: 0, pmask }),
    ];
    let ty = prop_oneof![3 => Just(0u8), 3 => Just(1u8), 1 => Just(2u8), 1 => Just(3u8)];
    (ty, spec, 0u8..4, proptest::bool::weighted(0.05), 0u8..6, vu_strategy())
        .prop_map(|(ty, spec, order, dup_signer, name, vu)| ROp::AddRule { ty, spec, order, dup_signer, name, vu })
        .boxed()
}
fn rop_general() -> BoxedStrategy<ROp> {
    let tgt = || prop_oneof![2 => Just(RSel::Last), 4 => rsel()];
    prop_oneof![
        7 => add_rule_strategy(1),
        4 => prop_oneof![3 => Just(RSel::Swapped), 3 => any::<u16>().prop_map(RSel::Mid), 4 => rsel()].prop_map(ROp::RemoveRule),
        3 => (tgt(), ksel(1, 4)).prop_map(|(r, k)| ROp::AddSigner(r, k)),
        3 => (tgt(), ksel(4, 1)).prop_map(|(r, k)| ROp::RemoveSigner(r, k)),
        3 => (tgt(), ksel(1, 4)).prop_map(|(r, k)| ROp::AddPolicy(r, k)),
        3 => (tgt(), ksel(4, 1)).prop_map(|(r, k)| ROp::RemovePolicy(r, k)),
        4 => (0u8..4, any::<u16>()).prop_map(|(kind, sel)| ROp::EditIntoDup { kind, sel }),
        1 => (rsel(), 0u8..6).prop_map(|(r, n)| ROp::SetName(r, n)),
        1 => (rsel(), vu_strategy()).prop_map(|(r, v)| ROp::SetValidUntil(r, v)),
        1 => (0u8..20).prop_map(ROp::Advance),
    ]
    .boxed()
}
/// edits concentrated on the newest rule, for the per-rule limits
fn rop_keys() -> BoxedStrategy<ROp> {
    let last = || prop_oneof![6 => Just(RSel::Last), 1 => rsel()];
    prop_oneof![
        5 => (last(), ksel(0, 6)).prop_map(|(r, k)| ROp::AddSigner(r, k)),
        2 => (last(), ksel(6, 0)).prop_map(|(r, k)| ROp::RemoveSigner(r, k)),
        5 => (last(), ksel(0, 6)).prop_map(|(r, k)| ROp::AddPolicy(r, k)),
        2 => (last(), ksel(6, 0)).prop_map(|(r, k)| ROp::RemovePolicy(r, k)),
        1 => add_rule_strategy(6),
        1 => rsel().prop_map(ROp::RemoveRule),
    ]
    .boxed()
}
fn rop_rules_cap() -> BoxedStrategy<ROp> {
    prop_oneof![6 => add_rule_strategy(0), 3 => rsel().prop_map(ROp::RemoveRule), 2 => rop_general()].boxed()
}

fn rcase_strategy(tier: Tier) -> BoxedStrategy<RCase> {
    let max_ops = tier.pick(40usize, 50usize);
    let head = (100u32..5000, 0u8..16, 0u8..8);
    let general = (head.clone(), prop_oneof![4 => Just(0u8), 2 => 1u8..4], proptest::collection::vec(rop_general(), 1..max_ops))
        .prop_map(|((seq, init_s, init_p), prefill, ops)| RCase { seq, init_s, init_p, prefill, ops });
    let rules_cap = (head.clone(), 11u8..=14, proptest::collection::vec(rop_rules_cap(), 1..tier.pick(16usize, 30usize)))
        .prop_map(|((seq, init_s, init_p), prefill, ops)| RCase { seq, init_s, init_p, prefill, ops });
    let keys_cap = (head, (13u8..=16, 3u8..=6, 0u8..NT as u8), proptest::collection::vec(rop_keys(), 1..tier.pick(20usize, 40usize))).prop_map(
        |((seq, init_s, init_p), (ns, np, ty), mut ops)| {
            ops.insert(0, ROp::AddRule { ty, spec: Spec::Big { ns, np }, order: 0, dup_signer: false, name: 1, vu: Vu::None });
            RCase { seq, init_s, init_p, prefill: 0, ops }
        },
    );
    prop_oneof![6 => general, 2 => rules_cap, 2 => keys_cap].boxed()
}

struct RUniv {
    signers: Vec<Signer>,
    policies: Vec<Address>,
    /// NT types in use + one that never gets a rule
    types: Vec<ContextRuleType>,
}
type Fp = (usize, BTreeSet<usize>, BTreeSet<usize>);
#[derive(Clone, Debug, PartialEq)]
struct MRule {
    ty: usize,
    name: String,
    vu: Option<u32>,
    signers: BTreeSet<usize>,
    policies: BTreeSet<usize>,
}
impl MRule {
    fn fp(&self) -> Fp {
        (self.ty, self.signers.clone(), self.policies.clone())
    }
}
#[derive(Default)]
struct RModel {
    rules: BTreeMap<u32, MRule>,
    /// live ids in insertion order (used for selection only, never asserted)
    order: Vec<u32>,
    next_id: u32,
    removed: Vec<(u32, Fp)>,
    stale: Vec<Fp>,
}
impl RModel {
    fn dup(&self, fp: &Fp, except: Option<u32>) -> bool {
        self.rules.iter().any(|(id, r)| Some(*id) != except && r.fp() == *fp)
    }
    fn type_list(&self, ty: usize) -> Vec<u32> {
        self.order.iter().copied().filter(|id| self.rules[id].ty == ty).collect()
    }
}

fn rule_matches(e: &Env, u: &RUniv, cr: &ContextRule, id: u32, m: &MRule) -> Result<(), String> {
    if cr.id != id {
        return Err(format!("id {} instead of {id}", cr.id));
    }
    if cr.context_type != u.types[m.ty] {
        return Err(format!("rule {id}: context type {:?}, model type #{}", cr.context_type, m.ty));
    }
    if cr.name != SString::from_str(e, &m.name) {
        return Err(format!("rule {id}: name {:?}, model {:?}", cr.name, m.name));
    }
    if cr.valid_until != m.vu {
        return Err(format!("rule {id}: valid_until {:?}, model {:?}", cr.valid_until, m.vu));
    }
    let mut ss = BTreeSet::new();
    for s in cr.signers.iter() {
        let Some(ix) = u.signers.iter().position(|x| *x == s) else { return Err(format!("rule {id}: unknown signer {:?}", s)) };
        if !ss.insert(ix) {
            return Err(format!("rule {id}: signer #{ix} listed twice"));
        }
    }
    if ss != m.signers {
        return Err(format!("rule {id}: signer set {:?}, model {:?}", ss, m.signers));
    }
    let mut ps = BTreeSet::new();
    for p in cr.policies.iter() {
        let Some(ix) = u.policies.iter().position(|x| *x == p) else { return Err(format!("rule {id}: unknown policy")) };
        if !ps.insert(ix) {
            return Err(format!("rule {id}: policy #{ix} listed twice"));
        }
    }
    if ps != m.policies {
        return Err(format!("rule {id}: policy set {:?}, model {:?}", ps, m.policies));
    }
    Ok(())
}

/// every getter of the context-rule registry against the model
fn check_rules(e: &Env, acct: &Address, u: &RUniv, m: &RModel, failing_ids: &[u32], what: &str) -> R {
    let cnt = call_t::<u32>(e, acct, "get_context_rules_count", args![e]).map_err(|er| violation("C20/ctx_rules.get_context_rules_count/failed", er))?;
    ensure!(cnt as usize == m.rules.len(), "C20/ctx_rules.get_context_rules_count/wrong", "{what}: count {cnt}, model {}", m.rules.len());
    for (ty, t) in u.types.iter().enumerate() {
        let list = call_t::<SVec<ContextRule>>(e, acct, "get_context_rules", args![e; t.clone()])
            .map_err(|er| violation("C20/ctx_rules.get_context_rules/failed", format!("{what}: type #{ty}: {er}")))?;
        let want: BTreeSet<u32> = m.rules.iter().filter(|(_, r)| r.ty == ty).map(|(id, _)| *id).collect();
        let mut got = BTreeSet::new();
        for cr in list.iter() {
            ensure!(got.insert(cr.id), "C20/ctx_rules.get_context_rules/element-twice", "{what}: type #{ty} lists rule {} twice", cr.id);
            let Some(mr) = m.rules.get(&cr.id) else {
                bail!("C20/ctx_rules.get_context_rules/set-differs", "{what}: type #{ty} lists rule {} which the model does not hold (model ids {:?})", cr.id, want)
            };
            rule_matches(e, u, &cr, cr.id, mr).map_err(|er| violation("C20/ctx_rules.get_context_rules/wrong-rule", format!("{what}: type #{ty}: {er}")))?;
        }
        ensure!(got == want, "C20/ctx_rules.get_context_rules/set-differs", "{what}: type #{ty} lists ids {:?}, model {:?}", got, want);
    }
    for (id, mr) in &m.rules {
        let cr = call_t::<ContextRule>(e, acct, "get_context_rule", args![e; *id])
            .map_err(|er| violation("C20/ctx_rules.get_context_rule/present-but-failed", format!("{what}: rule {id}: {er}")))?;
        rule_matches(e, u, &cr, *id, mr).map_err(|er| violation("C20/ctx_rules.get_context_rule/wrong-rule", format!("{what}: {er}")))?;
    }
    for id in failing_ids {
        if m.rules.contains_key(id) {
            continue;
        }
        let r = call(e, acct, "get_context_rule", args![e; *id]);
        ensure!(r.is_err(), "C20/ctx_rules.get_context_rule/absent-found", "{what}: get_context_rule({id}) answers although the model holds no such rule (next id {})", m.next_id);
    }
    Ok(())
}

/// ids whose lookup must fail: the next (never used) id, the most recently removed one, one older removed id
fn failing_ids(m: &RModel, last_removed: Option<u32>, step: usize) -> Vec<u32> {
    let mut v = vec![m.next_id];
    if let Some(id) = last_removed {
        v.push(id);
    }
    if !m.removed.is_empty() {
        v.push(m.removed[step % m.removed.len()].0);
    }
    v
}

fn order_signers(set: &BTreeSet<usize>, order: u8) -> Vec<usize> {
    let mut v: Vec<usize> = set.iter().copied().collect();
    match order {
        1 => v.reverse(),
        2 => {
            if v.len() > 1 {
                v.rotate_left(1)
            }
        }
        3 => {
            if v.len() > 2 {
                v.swap(0, 1)
            }
        }
        _ => {}
    }
    v
}

pub fn run_rules(case: &RCase, ctx: &mut Ctx) -> R {
    use crate::examples::multisig_account::contract::MultisigContract;
    let e = new_env(case.seq);
    let e = &e;
    // universe
    let ver0 = Address::generate(e);
    let ver1 = Address::generate(e);
    let mut signers = vec![
        Signer::Delegated(Address::generate(e)),
        Signer::Delegated(Address::generate(e)),
        Signer::External(ver0.clone(), Bytes::from_array(e, &[1, 2, 3])),
        Signer::External(ver0.clone(), Bytes::from_array(e, &[1, 2, 4])),
        Signer::Delegated(Address::generate(e)),
        Signer::External(ver1.clone(), Bytes::from_array(e, &[1, 2, 3])),
    ];
    while signers.len() < NS {
        signers.push(Signer::Delegated(Address::generate(e)));
    }
    let policies: Vec<Address> = (0..NP).map(|_| e.register(MockPolicy, ())).collect();
    let types = vec![
        ContextRuleType::Default,
        ContextRuleType::CallContract(Address::generate(e)),
        ContextRuleType::CallContract(Address::generate(e)),
        ContextRuleType::CreateContract(BytesN::from_array(e, &[7u8; 32])),
        ContextRuleType::CreateContract(BytesN::from_array(e, &[8u8; 32])),
    ];
    let u = RUniv { signers, policies, types };
    let unit: Val = ().into_val(e);
    let pol_map = |set: &BTreeSet<usize>| {
        let mut m: Map<Address, Val> = Map::new(e);
        for p in set {
            m.set(u.policies[*p].clone(), unit);
        }
        m
    };
    let sig_vec = |ids: &[usize]| {
        let mut v: SVec<Signer> = SVec::new(e);
        for i in ids {
            v.push_back(u.signers[*i].clone());
        }
        v
    };

    // initial rule (constructor): Default type, id 0
    let mut s0: BTreeSet<usize> = (0..4).filter(|i| case.init_s >> i & 1 == 1).collect();
    let p0: BTreeSet<usize> = (0..3).filter(|i| case.init_p >> i & 1 == 1).collect();
    if s0.is_empty() && p0.is_empty() {
        s0.insert(0);
    }
    let acct = e.register(MultisigContract, (sig_vec(&order_signers(&s0, 0)), pol_map(&p0)));
    e.mock_all_auths(); // the admin entry points require the account's own authorization; not C20's subject
    let mut m = RModel::default();
    m.rules.insert(0, MRule { ty: 0, name: "multisig".into(), vu: None, signers: s0, policies: p0 });
    m.order.push(0);
    m.next_id = 1;
    for j in 0..case.prefill as usize {
        let ty = j % NT;
        let ss: BTreeSet<usize> = [6 + (j % 11)].into_iter().collect();
        let name = format!("pre-{j}");
        let r = call(e, &acct, "add_context_rule", args![e; u.types[ty].clone(), SString::from_str(e, &name), Option::<u32>::None, sig_vec(&[6 + (j % 11)]), pol_map(&BTreeSet::new())]);
        ensure!(r.is_ok(), "C20/ctx_rules.add_context_rule/refused:prefill", "set-up rule {j} refused: {:?}", r);
        m.rules.insert(m.next_id, MRule { ty, name, vu: None, signers: ss, policies: BTreeSet::new() });
        m.order.push(m.next_id);
        m.next_id += 1;
    }
    check_rules(e, &acct, &u, &m, &[m.next_id], "after set-up")?;

    let mut pending_succ: Option<u32> = None;
    let mut mid_then_succ = false;
    let (mut dup_refused, mut readd_ok) = (false, false);
    let mut last_removed: Option<u32> = None;

    for (step, op) in case.ops.iter().enumerate() {
        let what = format!("step {step} {:?}", op);
        let seq = envx::seq(e);
        let ps_now = pending_succ;
        let resolve_rule = |m: &RModel, r: &RSel| -> Option<u32> {
            let n = m.order.len();
            match r {
                RSel::First => m.order.first().copied(),
                RSel::Last => m.order.last().copied(),
                RSel::Swapped => match ps_now {
                    Some(id) if m.rules.contains_key(&id) => Some(id),
                    _ => {
                        if n > 0 {
                            Some(m.order[n / 2])
                        } else {
                            None
                        }
                    }
                },
                RSel::Mid(s) => {
                    if n >= 3 {
                        Some(m.order[1 + pick(*s, n - 2)])
                    } else if n > 0 {
                        Some(m.order[pick(*s, n)])
                    } else {
                        None
                    }
                }
                RSel::At(s) => {
                    if n > 0 {
                        Some(m.order[pick(*s, n)])
                    } else {
                        None
                    }
                }
                RSel::Removed(s) => {
                    if m.removed.is_empty() {
                        Some(m.next_id)
                    } else {
                        Some(m.removed[pick(*s, m.removed.len())].0)
                    }
                }
                RSel::Never(k) => Some(m.next_id + *k as u32),
            }
        };
        let resolve_key = |members: Option<&BTreeSet<usize>>, k: &KSel, uni: usize| -> usize {
            match (members, k) {
                (Some(ms), KSel::Member(s)) if !ms.is_empty() => *ms.iter().nth(pick(*s, ms.len())).unwrap(),
                (Some(ms), KSel::Member(s)) | (Some(ms), KSel::NonMember(s)) => {
                    let range = if ms.len() >= 5 { uni } else { SMALL.min(uni) };
                    let non: Vec<usize> = (0..range).filter(|i| !ms.contains(i)).collect();
                    if non.is_empty() {
                        pick(*s, uni)
                    } else {
                        non[pick(*s, non.len())]
                    }
                }
                (None, KSel::Member(s)) | (None, KSel::NonMember(s)) => pick(*s, SMALL.min(uni)),
                (_, KSel::Any(x)) => *x as usize % SMALL.min(uni),
            }
        };

        // an edit of one signer / policy of one rule, shared by the four edit ops and EditIntoDup
        // kind: 0 add_signer, 1 remove_signer, 2 add_policy, 3 remove_policy
        let mut edit: Option<(u8, u32, usize)> = None;
        match op {
            ROp::Advance(k) => {
                envx::advance(e, *k as u32);
                check_rules(e, &acct, &u, &m, &failing_ids(&m, last_removed, step), &what)?;
                continue;
            }
            ROp::AddRule { ty, spec, order, dup_signer, name, vu } => {
                let mut origin = "valid";
                let (ty, ss, ps): Fp = match spec {
                    Spec::Fresh { smask, pmask } => (
                        *ty as usize % NT,
                        (0..8).filter(|i| smask >> i & 1 == 1).collect(),
                        (0..NP).filter(|i| pmask >> i & 1 == 1).collect(),
                    ),
                    Spec::CopyLive(s) if !m.order.is_empty() => m.rules[&m.order[pick(*s, m.order.len())]].fp(),
                    Spec::CopyRemoved(s) if !m.removed.is_empty() => {
                        origin = "freed";
                        m.removed[pick(*s, m.removed.len())].1.clone()
                    }
                    Spec::CopyStale(s) if !m.stale.is_empty() => {
                        origin = "freed";
                        m.stale[pick(*s, m.stale.len())].clone()
                    }
                    Spec::Big { ns, np } => (*ty as usize % NT, (0..(*ns as usize).min(NS)).collect(), (0..(*np as usize).min(NP)).collect()),
                    Spec::NearLive { src, key, on_policy } if !m.order.is_empty() => {
                        let mut fp = m.rules[&m.order[pick(*src, m.order.len())]].fp();
                        let set = if *on_policy { &mut fp.2 } else { &mut fp.1 };
                        let k = *key as usize % 4;
                        if !set.remove(&k) {
                            set.insert(k);
                        }
                        fp
                    }
                    Spec::NearLive { src, key, .. } => (*ty as usize % NT, [*key as usize % 4].into_iter().collect(), (0..3).filter(|i| src >> i & 1 == 1).collect()),
                    Spec::CopyLive(s) | Spec::CopyRemoved(s) | Spec::CopyStale(s) => {
                        (*ty as usize % NT, (0..4).filter(|i| s >> i & 1 == 1).collect(), (0..3).filter(|i| s >> (i + 4) & 1 == 1).collect())
                    }
                };
                let mut sv = order_signers(&ss, *order);
                let dup_in_list = *dup_signer && !sv.is_empty();
                if dup_in_list {
                    sv.push(sv[0]);
                }
                let vu_abs = match vu {
                    Vu::None => None,
                    Vu::Rel(d) => Some((seq as i64 + *d as i64).max(0) as u32),
                    Vu::Zero => Some(0),
                };
                let name_s = format!("rule-{name}");
                let fp: Fp = (ty, ss.clone(), ps.clone());
                let exp: Result<&'static str, &'static str> = if m.rules.len() >= MAX_RULES {
                    Err("limit-rules")
                } else if dup_in_list {
                    Err("duplicate-signer-in-list")
                } else if vu_abs.map(|v| v < seq).unwrap_or(false) {
                    Err("past-valid-until")
                } else if ss.len() > MAX_SIGNERS {
                    Err("limit-signers")
                } else if ps.len() > MAX_POLICIES {
                    Err("limit-policies")
                } else if ss.is_empty() && ps.is_empty() {
                    Err("no-signers-and-policies")
                } else if m.dup(&fp, None) {
                    Err("duplicate-rule")
                } else if m.rules.len() + 1 == MAX_RULES {
                    Ok("at-limit")
                } else if ss.len() == MAX_SIGNERS || ps.len() == MAX_POLICIES {
                    Ok("at-limit")
                } else {
                    Ok(origin)
                };
                let r = call(e, &acct, "add_context_rule", args![e; u.types[ty].clone(), SString::from_str(e, &name_s), vu_abs, sig_vec(&sv), pol_map(&ps)]);
                ctx.op(r.is_ok());
                verdict("ctx_rules", "add_context_rule", exp, &r, &what)?;
                match (&r, exp) {
                    (Ok(v), _) => {
                        let mr = MRule { ty, name: name_s, vu: vu_abs, signers: ss, policies: ps };
                        let cr: ContextRule = soroban_sdk::TryFromVal::try_from_val(e, v)
                            .map_err(|_| violation("C20/ctx_rules.add_context_rule/wrong-return", format!("{what}: return value is not a ContextRule")))?;
                        ensure!(
                            cr.id == m.next_id,
                            if cr.id < m.next_id { "C20/ctx_rules.add_context_rule/id-reused" } else { "C20/ctx_rules.add_context_rule/id-skipped" },
                            "{what}: new rule got id {}, ids handed out so far 0..{} (live {:?})",
                            cr.id,
                            m.next_id,
                            m.order
                        );
                        rule_matches(e, &u, &cr, m.next_id, &mr).map_err(|er| violation("C20/ctx_rules.add_context_rule/wrong-return", format!("{what}: {er}")))?;
                        m.rules.insert(m.next_id, mr);
                        m.order.push(m.next_id);
                        m.next_id += 1;
                        match exp {
                            Ok("at-limit") => ctx.class("rules:add_at_limit_ok"),
                            Ok("freed") => {
                                readd_ok = true;
                                ctx.class("rules:readd_freed_fingerprint_ok")
                            }
                            _ => {}
                        }
                    }
                    (Err(_), Err(why)) => {
                        ctx.class(&format!("rules:add_refused:{why}"));
                        if why == "duplicate-rule" {
                            dup_refused = true;
                            if *order != 0 && fp.1.len() > 1 {
                                ctx.class("rules:permuted_duplicate_refused");
                            }
                        }
                    }
                    _ => {}
                }
            }
            ROp::RemoveRule(rs) => {
                let Some(id) = resolve_rule(&m, rs) else {
                    ctx.class("skipped_op");
                    continue;
                };
                let live = m.rules.contains_key(&id);
                let exp = if live { Ok("valid") } else { Err("absent-rule") };
                let r = call(e, &acct, "remove_context_rule", args![e; id]);
                ctx.op(r.is_ok());
                verdict("ctx_rules", "remove_context_rule", exp, &r, &what)?;
                if r.is_ok() {
                    let ty = m.rules[&id].ty;
                    let tl = m.type_list(ty);
                    let p = tl.iter().position(|x| *x == id).unwrap_or(0);
                    let succ = if p > 0 && p + 1 < tl.len() { Some(tl[p + 1]) } else { None };
                    if succ.is_some() {
                        ctx.class("rules:mid_removal");
                    }
                    if tl.len() == 1 {
                        ctx.class("rules:remove_only_of_type");
                    }
                    let mr = m.rules.remove(&id).unwrap();
                    m.order.retain(|x| *x != id);
                    m.removed.push((id, mr.fp()));
                    last_removed = Some(id);
                    if pending_succ == Some(id) {
                        mid_then_succ = true;
                    }
                    pending_succ = succ;
                } else {
                    ctx.class("rules:remove_absent_refused");
                }
            }
            ROp::AddSigner(rs, k) | ROp::RemoveSigner(rs, k) | ROp::AddPolicy(rs, k) | ROp::RemovePolicy(rs, k) => {
                let Some(id) = resolve_rule(&m, rs) else {
                    ctx.class("skipped_op");
                    continue;
                };
                let kind: u8 = match op {
                    ROp::AddSigner(..) => 0,
                    ROp::RemoveSigner(..) => 1,
                    ROp::AddPolicy(..) => 2,
                    _ => 3,
                };
                let members = m.rules.get(&id).map(|r| if kind < 2 { &r.signers } else { &r.policies });
                // add ops default to non-members, remove ops to members; the selector may invert that
                let key = resolve_key(members, k, if kind < 2 { NS } else { NP });
                edit = Some((kind, id, key));
            }
            ROp::EditIntoDup { kind, sel } => {
                let kind = *kind % 4;
                let mut cands: Vec<(u32, usize)> = vec![];
                for id in &m.order {
                    let r = &m.rules[id];
                    let uni = if kind < 2 { SMALL } else { NP };
                    for k in 0..uni {
                        let mut fp = r.fp();
                        let set = if kind < 2 { &mut fp.1 } else { &mut fp.2 };
                        let changed = if kind % 2 == 0 { set.insert(k) } else { set.remove(&k) };
                        if changed && !(fp.1.is_empty() && fp.2.is_empty()) && m.dup(&fp, Some(*id)) {
                            cands.push((*id, k));
                        }
                    }
                }
                if cands.is_empty() {
                    ctx.class("rules:edit_into_dup_unavailable");
                    continue;
                }
                let (id, k) = cands[pick(*sel, cands.len())];
                edit = Some((kind, id, k));
            }
            ROp::SetName(rs, n) => {
                let Some(id) = resolve_rule(&m, rs) else {
                    ctx.class("skipped_op");
                    continue;
                };
                let name_s = format!("rule-{n}");
                let exp = if m.rules.contains_key(&id) { Ok("valid") } else { Err("absent-rule") };
                let r = call(e, &acct, "update_context_rule_name", args![e; id, SString::from_str(e, &name_s)]);
                ctx.op(r.is_ok());
                verdict("ctx_rules", "update_context_rule_name", exp, &r, &what)?;
                if let Ok(v) = &r {
                    let mr = m.rules.get_mut(&id).unwrap();
                    mr.name = name_s;
                    let cr: ContextRule = soroban_sdk::TryFromVal::try_from_val(e, v)
                        .map_err(|_| violation("C20/ctx_rules.update_context_rule_name/wrong-return", format!("{what}: return value is not a ContextRule")))?;
                    rule_matches(e, &u, &cr, id, mr).map_err(|er| violation("C20/ctx_rules.update_context_rule_name/wrong-return", format!("{what}: {er}")))?;
                }
            }
            ROp::SetValidUntil(rs, vu) => {
                let Some(id) = resolve_rule(&m, rs) else {
                    ctx.class("skipped_op");
                    continue;
                };
                let vu_abs = match vu {
                    Vu::None => None,
                    Vu::Rel(d) => Some((seq as i64 + *d as i64).max(0) as u32),
                    Vu::Zero => Some(0),
                };
                let exp = if !m.rules.contains_key(&id) {
                    Err("absent-rule")
                } else if vu_abs.map(|v| v < seq).unwrap_or(false) {
                    Err("past-valid-until")
                } else {
                    Ok("valid")
                };
                let r = call(e, &acct, "update_context_rule_valid_until", args![e; id, vu_abs]);
                ctx.op(r.is_ok());
                verdict("ctx_rules", "update_context_rule_valid_until", exp, &r, &what)?;
                if let Ok(v) = &r {
                    let mr = m.rules.get_mut(&id).unwrap();
                    mr.vu = vu_abs;
                    let cr: ContextRule = soroban_sdk::TryFromVal::try_from_val(e, v)
                        .map_err(|_| violation("C20/ctx_rules.update_context_rule_valid_until/wrong-return", format!("{what}: return value is not a ContextRule")))?;
                    rule_matches(e, &u, &cr, id, mr).map_err(|er| violation("C20/ctx_rules.update_context_rule_valid_until/wrong-return", format!("{what}: {er}")))?;
                }
            }
        }

        if let Some((kind, id, key)) = edit {
            let f = ["add_signer", "remove_signer", "add_policy", "remove_policy"][kind as usize];
            let what = format!("{what} => {f}(rule {id}, key #{key})");
            let exp: Result<&'static str, &'static str> = match m.rules.get(&id) {
                None => Err("absent-rule"),
                Some(r) => {
                    let mut fp = r.fp();
                    let (set, limit) = if kind < 2 { (&mut fp.1, MAX_SIGNERS) } else { (&mut fp.2, MAX_POLICIES) };
                    let len_before = set.len();
                    if kind % 2 == 0 {
                        if !set.insert(key) {
                            Err("already-member")
                        } else if len_before + 1 > limit {
                            Err(if kind == 0 { "limit-signers" } else { "limit-policies" })
                        } else if m.dup(&fp, Some(id)) {
                            Err("duplicate-rule")
                        } else if len_before + 1 == limit {
                            Ok("at-limit")
                        } else {
                            Ok("valid")
                        }
                    } else if !set.remove(&key) {
                        Err("not-a-member")
                    } else if fp.1.is_empty() && fp.2.is_empty() {
                        Err("last-signer-and-no-policy")
                    } else if m.dup(&fp, Some(id)) {
                        Err("duplicate-rule")
                    } else if len_before == 1 {
                        Ok("last-of-its-kind")
                    } else {
                        Ok("valid")
                    }
                }
            };
            let r = if kind < 2 {
                call(e, &acct, f, args![e; id, u.signers[key].clone()])
            } else if kind == 2 {
                call(e, &acct, f, args![e; id, u.policies[key].clone(), unit])
            } else {
                call(e, &acct, f, args![e; id, u.policies[key].clone()])
            };
            ctx.op(r.is_ok());
            verdict("ctx_rules", f, exp, &r, &what)?;
            if r.is_ok() {
                let mr = m.rules.get_mut(&id).unwrap();
                m.stale.push(mr.fp());
                let set = if kind < 2 { &mut mr.signers } else { &mut mr.policies };
                if kind % 2 == 0 {
                    set.insert(key);
                } else {
                    set.remove(&key);
                }
                if let Ok(sit) = exp {
                    if sit != "valid" {
                        ctx.class(&format!("rules:{f}_ok:{sit}"));
                    }
                }
            } else if let Err(why) = exp {
                ctx.class(&format!("rules:{f}_refused:{why}"));
                if why == "duplicate-rule" {
                    dup_refused = true;
                }
            }
        }
        check_rules(e, &acct, &u, &m, &failing_ids(&m, last_removed, step), &what)?;
    }
    // final: every id ever handed out (and two past)
    let all: Vec<u32> = (0..m.next_id + 2).collect();
    check_rules(e, &acct, &u, &m, &all, "final")?;
    if mid_then_succ {
        ctx.class("rules:mid_removal_then_successor");
    }
    if mid_then_succ || (dup_refused && readd_ok) {
        ctx.nontrivial = true;
        ctx.class("nontrivial:ctx-rules");
    }
    Ok(())
}


// ================================================================== 2. bound tokens

const B_UNI: usize = 8;

#[derive(Clone, Debug, Serialize, Deserialize)]
pub enum BatchN {
    Small(u8),
    /// size such that the count lands on the next bucket edge + d
    ToEdge(i8),
    /// size such that the count lands on the capacity + d (falls back to a small batch when too far)
    ToMax(i8),
    Abs(u16),
}
#[derive(Clone, Debug, Serialize, Deserialize)]
pub enum BOp {
    Bind(Sel),
    Unbind(Sel),
    /// `reuse` absent/removed universe keys first, then fresh ones; `dup` copies one entry over another;
    /// `bound` overwrites one entry with an already bound token
    Batch { n: BatchN, reuse: u8, dup: Option<(u16, u16)>, bound: Option<(u16, u16)> },
}
#[derive(Clone, Debug, Serialize, Deserialize)]
pub struct BCase {
    /// tokens bound during set-up (fillers)
    pub base: u16,
    pub ops: Vec<BOp>,
}

fn bop_strategy() -> BoxedStrategy<BOp> {
    let n = prop_oneof![
        6 => (0u8..7).prop_map(BatchN::Small),
        4 => (-1i8..=1).prop_map(BatchN::ToEdge),
        1 => (-1i8..=1).prop_map(BatchN::ToMax),
        3 => proptest::sample::select(vec![199u16, 200, 201, 202, 100, 101]).prop_map(BatchN::Abs),
    ];
    prop_oneof![
        7 => sel_for_add().prop_map(BOp::Bind),
        9 => sel_for_remove().prop_map(BOp::Unbind),
        4 => (n, 0u8..3, proptest::option::weighted(0.12, (any::<u16>(), any::<u16>())), proptest::option::weighted(0.12, (any::<u16>(), any::<u16>())))
            .prop_map(|(n, reuse, dup, bound)| BOp::Batch { n, reuse, dup, bound }),
    ]
    .boxed()
}
fn bcase_strategy(tier: Tier) -> BoxedStrategy<BCase> {
    // small registries with long histories; registries pre-filled to a bucket edge with short ones
    let small = (prop_oneof![5 => 0u16..6, 2 => 6u16..40], proptest::collection::vec(bop_strategy(), 1..tier.pick(40usize, 50usize)));
    let edge_base = prop_oneof![
        4 => proptest::sample::select(vec![98u16, 99, 100, 101, 102]),
        3 => proptest::sample::select(vec![198u16, 199, 200, 201, 202]),
        1 => proptest::sample::select(vec![299u16, 300, 301]),
    ];
    let edge = (edge_base, proptest::collection::vec(bop_strategy(), 1..tier.pick(14usize, 30usize)));
    prop_oneof![3 => small, 1 => edge].prop_map(|(base, ops)| BCase { base, ops }).boxed()
}

struct BinderH {
    e: Env,
    c: Address,
    toks: Vec<Address>,
    ids: BTreeMap<[u8; 32], usize>,
    set: BTreeSet<usize>,
    removed: Vec<usize>,
    obs: Vec<usize>,
    track: SwapTrack,
    ghost: Address,
    tick: usize,
}
impl BinderH {
    fn new_tok(&mut self) -> usize {
        let a = Address::generate(&self.e);
        let id = self.toks.len();
        self.ids.insert(akey(&a), id);
        self.toks.push(a);
        id
    }
    fn addr_vec(&self, ids: &[usize]) -> SVec<Address> {
        let mut v = SVec::new(&self.e);
        for i in ids {
            v.push_back(self.toks[*i].clone());
        }
        v
    }
    fn dump(&self, idx: &[u32], keys: &[usize], what: &str) -> Result<(Vec<usize>, Vec<(bool, u32)>), Violation> {
        let e = &self.e;
        let huge = idx.len() > 1000 || keys.len() > 1000;
        if huge {
            // the thorough tier reads all 10 000 indices of a capacity scenario in one read-only frame
            envx::raise_budget(e, 1_000_000_000_000_000, 1_000_000_000_000_000); // (also resets the counters)
        }
        let r = self.dump_inner(idx, keys, what);
        if huge && std::env::var("VERIF_RSS").is_ok() {
            eprintln!("huge dump: ok={} cpu={} mem={}", r.is_ok(), e.cost_estimate().budget().cpu_instruction_cost(), e.cost_estimate().budget().memory_bytes_cost());
        }
        if huge {
            envx::raise_budget(e, 200_000_000_000, 6_000_000_000);
        }
        r
    }
    fn dump_inner(&self, idx: &[u32], keys: &[usize], what: &str) -> Result<(Vec<usize>, Vec<(bool, u32)>), Violation> {
        let e = &self.e;
        let mut iv: SVec<u32> = SVec::new(e);
        for i in idx {
            iv.push_back(*i);
        }
        let (by, ks) = call_t::<(SVec<Address>, SVec<(bool, u32)>)>(e, &self.c, "dump", args![e; iv, self.addr_vec(keys)]).map_err(|er| {
            violation("C20/binder.get_token_by_index/in-range-failed", format!("{what}: bulk read of indices below the list length / of index lookups failed: {er}"))
        })?;
        let mut out = vec![];
        for a in by.iter() {
            let Some(id) = self.ids.get(&akey(&a)) else {
                bail!("C20/binder.get_token_by_index/unknown-element", "{what}: get_token_by_index returned an address that was never bound")
            };
            out.push(*id);
        }
        Ok((out, ks.iter().collect()))
    }
    /// every getter against the model
    fn check(&mut self, full: bool, last: bool, touched: Option<usize>, what: &str) -> R {
        let e = self.e.clone();
        let e = &e;
        let linked = call_t::<SVec<Address>>(e, &self.c, "linked_tokens", args![e]).map_err(|er| violation("C20/binder.linked_tokens/failed", format!("{what}: {er}")))?;
        let mut obs = Vec::with_capacity(linked.len() as usize);
        let mut seen = BTreeSet::new();
        for a in linked.iter() {
            let Some(&id) = self.ids.get(&akey(&a)) else { bail!("C20/binder.linked_tokens/unknown-element", "{what}: linked_tokens holds an address that was never bound") };
            ensure!(seen.insert(id), "C20/binder.linked_tokens/element-twice", "{what}: token #{id} appears twice in linked_tokens (len {})", linked.len());
            obs.push(id);
        }
        if seen != self.set {
            let missing: Vec<_> = self.set.difference(&seen).take(5).collect();
            let extra: Vec<_> = seen.difference(&self.set).take(5).collect();
            bail!("C20/binder.linked_tokens/set-differs", "{what}: linked_tokens has {} elements, model {}; missing {:?} extra {:?}", seen.len(), self.set.len(), missing, extra);
        }
        let n = obs.len();
        let is_full = full || n <= 64;
        let idx: Vec<u32> = if is_full { (0..n as u32).collect() } else { windows(n, TOKEN_BUCKET, self.track.hole) };
        let keys: Vec<usize> = (0..B_UNI).collect();
        let (by, ks) = self.dump(&idx, &keys, what)?;
        ensure!(by.len() == idx.len(), "C20/binder.get_token_by_index/in-range-failed", "{what}: bulk read returned {} of {} entries", by.len(), idx.len());
        let mut at: BTreeMap<u32, usize> = BTreeMap::new();
        let mut pos_of: BTreeMap<usize, u32> = BTreeMap::new();
        for (i, id) in idx.iter().zip(by.iter()) {
            ensure!(self.set.contains(id), "C20/binder.get_token_by_index/not-in-set", "{what}: index {i} holds token #{id} which is not bound in the model");
            if let Some(j) = pos_of.insert(*id, *i) {
                bail!("C20/binder.get_token_by_index/element-twice", "{what}: token #{id} is enumerated at index {j} and at index {i} (count {n})");
            }
            at.insert(*i, *id);
        }
        let mut index_of: BTreeMap<usize, u32> = BTreeMap::new();
        for (k, (b, ix)) in keys.iter().zip(ks.iter()) {
            ensure!(*b == self.set.contains(k), "C20/binder.is_token_bound/wrong", "{what}: is_token_bound(token #{k}) = {b}, model {}", self.set.contains(k));
            if *b {
                ensure!((*ix as usize) < n, "C20/binder.get_token_index/out-of-range", "{what}: get_token_index(token #{k}) = {ix}, count {n}");
                index_of.insert(*k, *ix);
            }
        }
        // second phase: close the bijection for what the first phase did not cover
        let extra_idx: Vec<u32> = index_of.values().copied().filter(|i| !at.contains_key(i)).collect::<BTreeSet<_>>().into_iter().collect();
        let extra_keys: Vec<usize> = at.values().copied().filter(|k| !index_of.contains_key(k)).collect();
        if !extra_idx.is_empty() || !extra_keys.is_empty() {
            let (by2, ks2) = self.dump(&extra_idx, &extra_keys, what)?;
            for (i, id) in extra_idx.iter().zip(by2.iter()) {
                at.insert(*i, *id);
            }
            for (k, (b, ix)) in extra_keys.iter().zip(ks2.iter()) {
                ensure!(*b, "C20/binder.is_token_bound/wrong", "{what}: is_token_bound(token #{k}) = false although get_token_by_index enumerates it");
                index_of.insert(*k, *ix);
            }
        }
        for (k, ix) in &index_of {
            ensure!(
                at.get(ix) == Some(k),
                "C20/binder.get_token_index/not-inverse-of-get_token_by_index",
                "{what}: get_token_index(token #{k}) = {ix} but get_token_by_index({ix}) = {:?} (count {n})",
                at.get(ix)
            );
        }
        for (i, id) in &at {
            if let Some(ix) = index_of.get(id) {
                ensure!(ix == i, "C20/binder.get_token_index/not-inverse-of-get_token_by_index", "{what}: get_token_by_index({i}) = token #{id} but get_token_index(token #{id}) = {ix}");
            }
        }
        // one past the end
        let r = call(e, &self.c, "get_token_by_index", args![e; n as u32]);
        ensure!(r.is_err(), "C20/binder.get_token_by_index/one-past-accepted", "{what}: get_token_by_index({n}) answers although count = {n}");
        // lookups of absent keys must fail: the key just touched and two rotating universe keys
        // on ordinary steps, every absent universe key and every removed key on the last step
        let absent: Vec<usize> = (0..B_UNI).filter(|k| !self.set.contains(k)).collect();
        let mut probe: BTreeSet<usize> = BTreeSet::new();
        if last {
            probe.extend(absent.iter().copied());
            probe.extend(self.removed.iter().copied().filter(|k| !self.set.contains(k)).take(12));
        } else {
            if let Some(k) = touched {
                if !self.set.contains(&k) {
                    probe.insert(k);
                }
            }
            for d in 0..2 {
                if !absent.is_empty() {
                    probe.insert(absent[(self.tick + d) % absent.len()]);
                }
            }
        }
        self.tick += 1;
        for k in probe {
            let r = call(e, &self.c, "get_token_index", args![e; self.toks[k].clone()]);
            ensure!(r.is_err(), "C20/binder.get_token_index/absent-found", "{what}: get_token_index(token #{k}) = {:?} although it is not bound", r);
        }
        let r = call(e, &self.c, "get_token_index", args![e; self.ghost.clone()]);
        ensure!(r.is_err(), "C20/binder.get_token_index/absent-found", "{what}: get_token_index(never bound address) answers");
        self.obs = obs;
        self.track.observe(&self.obs);
        Ok(())
    }
}

/// mirror of the library's documented (but not re-exported) `TokenBinderStorageKey`: a contracttype enum key is encoded by its
/// variant names, so this addresses the same entries; used only to pre-fill the capacity scenarios (see run_binder)
#[soroban_sdk::contracttype]
#[derive(Clone)]
pub enum BinderLayoutKey {
    TokenBucket(u32),
    TotalCount,
}

pub fn run_binder(case: &BCase, ctx: &mut Ctx) -> R {
    let e = new_env(100);
    let c = e.register(Binder, ());
    let ghost = Address::generate(&e);
    let mut h = BinderH { e: e.clone(), c: c.clone(), toks: vec![], ids: BTreeMap::new(), set: BTreeSet::new(), removed: vec![], obs: vec![], track: SwapTrack::default(), ghost, tick: 0 };
    for _ in 0..B_UNI {
        h.new_tok();
    }
    // set-up: fillers through the batch entry point.  The capacity scenarios (base > 1000) write all but the last ~300
    // fillers as full buckets straight into the documented storage layout (`TokenBinderStorageKey`): `bind_tokens` rebuilds
    // an immutable host map of every bound token on each call, which costs O(n^2) host memory that a test Env never frees
    // (12 GB for 10 000 tokens through the API).  Everything at and around the limit then goes through the library.
    let mut left = case.base as usize;
    if left > 1000 {
        // bind_tokens at ~10 000 tokens costs ~1.5e10 instructions / 1.2 GB of modelled memory per call
        envx::raise_budget(&e, 200_000_000_000, 6_000_000_000);
        use BinderLayoutKey as K;
        let direct_buckets = (left - 2 * MAX_BATCH) / TOKEN_BUCKET;
        let mut all: Vec<usize> = vec![];
        e.as_contract(&c, || {
            for b in 0..direct_buckets {
                let ids: Vec<usize> = (0..TOKEN_BUCKET).map(|_| h.new_tok()).collect();
                e.storage().persistent().set(&K::TokenBucket(b as u32), &h.addr_vec(&ids));
                all.extend(ids);
            }
            e.storage().persistent().set(&K::TotalCount, &((direct_buckets * TOKEN_BUCKET) as u32));
        });
        h.set.extend(all);
        left -= direct_buckets * TOKEN_BUCKET;
    }
    while left > 0 {
        // capacity scenarios fill with full 200-token batches, ordinary cases with smaller ones
        let k = left.min(if case.base as usize > 1000 { MAX_BATCH } else { 150 });
        let ids: Vec<usize> = (0..k).map(|_| h.new_tok()).collect();
        let r = call(&e, &c, "bind_tokens", args![&e; h.addr_vec(&ids)]);
        ensure!(r.is_ok(), "C20/binder.bind_tokens/refused:prefill", "set-up batch of {k} fresh tokens refused at count {}: {:?}", h.set.len(), r);
        h.set.extend(ids);
        left -= k;
    }
    let big = case.base as usize > 1000;
    let rss = || std::fs::read_to_string("/proc/self/statm").ok().and_then(|s| s.split_whitespace().nth(1).and_then(|x| x.parse::<u64>().ok())).unwrap_or(0) * 4 / 1024;
    if std::env::var("VERIF_RSS").is_ok() { eprintln!("binder after prefill rss={} MB", rss()); }
    h.check(false, false, None, "after set-up")?;
    if std::env::var("VERIF_RSS").is_ok() { eprintln!("binder after first check rss={} MB", rss()); }
    let n_ops = case.ops.len();
    for (step, op) in case.ops.iter().enumerate() {
        if std::env::var("VERIF_RSS").is_ok() { eprintln!("binder step {step} rss={} MB cpu={} mem={}", rss(), e.cost_estimate().budget().cpu_instruction_cost(), e.cost_estimate().budget().memory_bytes_cost()); }
        let what = format!("step {step} {:?}", op);
        let absent: Vec<usize> = (0..B_UNI).filter(|k| !h.set.contains(k)).collect();
        let removed: Vec<usize> = h.removed.iter().copied().filter(|k| !h.set.contains(k)).collect();
        let n = h.set.len();
        let mut touched: Option<usize> = None;
        match op {
            BOp::Bind(sel) => {
                let k = match resolve(sel, &h.obs, h.track.hole, &absent, &removed, &[]) {
                    Pick::Key(k) => k,
                    Pick::Fresh => h.new_tok(),
                    Pick::Nothing => {
                        ctx.class("skipped_op");
                        continue;
                    }
                };
                touched = Some(k);
                let exp = if h.set.contains(&k) {
                    Err("already-bound")
                } else if n >= MAX_TOKENS {
                    Err("limit-tokens")
                } else if n + 1 == MAX_TOKENS {
                    Ok("at-limit")
                } else if h.removed.contains(&k) {
                    Ok("rebind-after-unbind")
                } else {
                    Ok("valid")
                };
                let r = call(&e, &c, "bind_token", args![&e; h.toks[k].clone()]);
                ctx.op(r.is_ok());
                verdict("binder", "bind_token", exp, &r, &what)?;
                match exp {
                    Ok(sit) => {
                        h.set.insert(k);
                        if sit != "valid" {
                            ctx.class(&format!("binder:bind_ok:{sit}"));
                        }
                        if n % TOKEN_BUCKET == 0 && n > 0 {
                            ctx.class("binder:bind_opens_bucket");
                        }
                    }
                    Err(why) => {
                        ctx.class(&format!("binder:bind_refused:{why}"));
                    }
                }
            }
            BOp::Unbind(sel) => {
                let k = match resolve(sel, &h.obs, h.track.hole, &absent, &removed, &[]) {
                    Pick::Key(k) => k,
                    Pick::Fresh => h.new_tok(),
                    Pick::Nothing => {
                        ctx.class("skipped_op");
                        continue;
                    }
                };
                touched = Some(k);
                let exp = if h.set.contains(&k) { Ok("valid") } else { Err("not-bound") };
                let r = call(&e, &c, "unbind_token", args![&e; h.toks[k].clone()]);
                ctx.op(r.is_ok());
                verdict("binder", "unbind_token", exp, &r, &what)?;
                if exp.is_ok() {
                    h.set.remove(&k);
                    if !h.removed.contains(&k) {
                        h.removed.push(k);
                    }
                    let pos = h.obs.iter().position(|x| *x == k);
                    h.track.removed(k, pos, n);
                    if let Some(p) = pos {
                        if p / TOKEN_BUCKET != (n - 1) / TOKEN_BUCKET {
                            ctx.class("binder:unbind_swaps_across_buckets");
                        }
                        if p > 0 && p + 1 < n {
                            ctx.class("binder:unbind_middle");
                        }
                    }
                    if n == 1 {
                        ctx.class("binder:unbind_only");
                    }
                    if (n - 1) % TOKEN_BUCKET == 0 && n > 1 {
                        ctx.class("binder:unbind_empties_bucket");
                    }
                } else {
                    ctx.class("binder:unbind_refused:not-bound");
                }
            }
            BOp::Batch { n: bn, reuse, dup, bound } => {
                let size = match bn {
                    BatchN::Small(k) => *k as usize,
                    BatchN::ToEdge(d) => (((n / TOKEN_BUCKET + 1) * TOKEN_BUCKET) as i64 + *d as i64 - n as i64).max(0) as usize,
                    BatchN::ToMax(d) => {
                        let s = MAX_TOKENS as i64 + *d as i64 - n as i64;
                        if (0..=(MAX_BATCH as i64 + 1)).contains(&s) {
                            s as usize
                        } else {
                            3
                        }
                    }
                    BatchN::Abs(x) => *x as usize,
                };
                let mut list: Vec<usize> = vec![];
                let mut pool: Vec<usize> = absent.iter().chain(removed.iter()).copied().collect::<BTreeSet<_>>().into_iter().collect();
                for _ in 0..(*reuse as usize).min(size) {
                    if let Some(k) = pool.pop() {
                        list.push(k);
                    }
                }
                while list.len() < size {
                    let k = h.new_tok();
                    list.push(k);
                }
                if let Some((i, j)) = dup {
                    if size >= 2 {
                        let (i, j) = (pick(*i, size), pick(*j, size));
                        if i != j {
                            list[j] = list[i];
                        }
                    }
                }
                if let Some((p, w)) = bound {
                    if size >= 1 && !h.obs.is_empty() {
                        list[pick(*p, size)] = h.obs[pick(*w, h.obs.len())];
                    }
                }
                let distinct: BTreeSet<usize> = list.iter().copied().collect();
                let exp = if size > MAX_BATCH {
                    Err("batch-too-large")
                } else if n + size > MAX_TOKENS {
                    Err("limit-tokens")
                } else if distinct.len() != list.len() {
                    Err("duplicate-in-batch")
                } else if distinct.iter().any(|k| h.set.contains(k)) {
                    Err("already-bound")
                } else if n + size == MAX_TOKENS && size > 0 {
                    Ok("at-limit")
                } else if size == MAX_BATCH {
                    Ok("max-batch")
                } else {
                    Ok("valid")
                };
                let r = call(&e, &c, "bind_tokens", args![&e; h.addr_vec(&list)]);
                ctx.op(r.is_ok());
                verdict("binder", "bind_tokens", exp, &r, &format!("step {step} batch of {size} at count {n} ({:?})", op))?;
                match exp {
                    Ok(sit) => {
                        h.set.extend(list.iter().copied());
                        if sit != "valid" {
                            ctx.class(&format!("binder:batch_ok:{sit}"));
                        }
                        if size > 0 && n / TOKEN_BUCKET != (n + size - 1) / TOKEN_BUCKET {
                            ctx.class("binder:batch_crosses_bucket_edge");
                        }
                    }
                    Err(why) => ctx.class(&format!("binder:batch_refused:{why}")),
                }
            }
        }
        let last = step + 1 == n_ops;
        h.check(last && (!big || ctx.tier() == Tier::Thorough), last, touched, &what)?;
        if h.track.hit {
            ctx.class("binder:removed_the_swapped_in");
            h.track.hit = false;
            ctx.nontrivial = true;
        }
    }
    if ctx.nontrivial {
        ctx.class("nontrivial:binder");
    }
    Ok(())
}

// ================================================================== 3. documents

const D_UNI: usize = 6;

#[derive(Clone, Debug, Serialize, Deserialize)]
pub enum Uri {
    Short(u8),
    Len(u16),
}
#[derive(Clone, Debug, Serialize, Deserialize)]
pub enum DOp {
    Set { name: Sel, uri: Uri, hash: u8 },
    Remove(Sel),
    Advance(u8),
}
#[derive(Clone, Debug, Serialize, Deserialize)]
pub struct DCase {
    pub base: u16,
    pub ops: Vec<DOp>,
}
fn dop_strategy() -> BoxedStrategy<DOp> {
    let uri = prop_oneof![
        8 => (0u8..5).prop_map(Uri::Short),
        3 => proptest::sample::select(vec![0u16, 1, 199, 200, 201, 202, 256, 1000]).prop_map(Uri::Len),
    ];
    let set_sel = prop_oneof![2 => sel_for_add(), 1 => sel_for_remove()];
    prop_oneof![
        9 => (set_sel, uri, 0u8..4).prop_map(|(name, uri, hash)| DOp::Set { name, uri, hash }),
        8 => sel_for_remove().prop_map(DOp::Remove),
        1 => (0u8..20).prop_map(DOp::Advance),
    ]
    .boxed()
}
fn dcase_strategy(tier: Tier) -> BoxedStrategy<DCase> {
    let small = (prop_oneof![5 => 0u16..6, 2 => 6u16..30], proptest::collection::vec(dop_strategy(), 1..tier.pick(40usize, 50usize)));
    let edge_base = prop_oneof![5 => proptest::sample::select(vec![48u16, 49, 50, 51, 52]), 1 => proptest::sample::select(vec![99u16, 100, 101])];
    let edge = (edge_base, proptest::collection::vec(dop_strategy(), 1..tier.pick(14usize, 30usize)));
    prop_oneof![3 => small, 1 => edge].prop_map(|(base, ops)| DCase { base, ops }).boxed()
}

#[derive(Clone, Debug, PartialEq)]
struct MDoc {
    uri: String,
    hash: [u8; 32],
    ts: u64,
}
fn doc_name(id: usize) -> [u8; 32] {
    let mut b = [0u8; 32];
    b[0] = 0xD0;
    b[4..8].copy_from_slice(&(id as u32).to_be_bytes());
    b
}
/// the hash embeds the name id, so two names never hold equal documents
fn doc_hash(id: usize, h: u8) -> [u8; 32] {
    let mut b = [0u8; 32];
    b[0] = h;
    b[1] = 0xAA;
    b[4..8].copy_from_slice(&(id as u32).to_be_bytes());
    b
}
fn uri_string(u: &Uri) -> String {
    match u {
        Uri::Short(k) => format!("https://docs.example/{k}"),
        Uri::Len(n) => "a".repeat(*n as usize),
    }
}

struct DocsH {
    e: Env,
    c: Address,
    /// name id -> name bytes are derived (doc_name); ids: 0..D_UNI universe, then fillers / fresh
    next_name: usize,
    map: BTreeMap<usize, MDoc>,
    removed: Vec<usize>,
    obs: Vec<usize>,
    track: SwapTrack,
    tick: usize,
}
impl DocsH {
    fn name_id(b: &BytesN<32>) -> Option<usize> {
        let a = b.to_array();
        let id = u32::from_be_bytes([a[4], a[5], a[6], a[7]]) as usize;
        if a == doc_name(id) {
            Some(id)
        } else {
            None
        }
    }
    fn doc_eq(&self, d: &Document, m: &MDoc) -> bool {
        d.timestamp == m.ts && d.document_hash.to_array() == m.hash && d.uri == SString::from_str(&self.e, &m.uri)
    }
    fn describe(d: &Document) -> String {
        format!("(uri len {}, hash {:02x}{:02x}.., ts {})", d.uri.len(), d.document_hash.to_array()[0], d.document_hash.to_array()[7], d.timestamp)
    }
    fn check(&mut self, full: bool, last: bool, touched: Option<usize>, what: &str) -> R {
        let e = self.e.clone();
        let e = &e;
        let n = self.map.len();
        let is_full = full || n <= 64;
        let win = windows(n, DOC_BUCKET, self.track.hole);
        let idx: Vec<u32> = if is_full { (0..n as u32).collect() } else { win.clone() };
        let mut iv: SVec<u32> = SVec::new(e);
        for i in &idx {
            iv.push_back(*i);
        }
        let mut bv: SVec<u32> = SVec::new(e);
        for b in 0..=(n / DOC_BUCKET + 1) as u32 {
            bv.push_back(b);
        }
        type Entry = (BytesN<32>, Document);
        let (count, by, buckets) = call_t::<(u32, SVec<Entry>, SVec<SVec<Entry>>)>(e, &self.c, "dump", args![e; iv, bv])
            .map_err(|er| violation("C20/docs.get_document_by_index/in-range-failed", format!("{what}: bulk read (count, in-range indices, buckets) failed: {er}")))?;
        ensure!(count as usize == n, "C20/docs.get_document_count/wrong", "{what}: get_document_count = {count}, model {n}");
        // paged getter: union over all buckets (one past the last used one included) = the map, each entry once
        let mut obs = vec![];
        let mut seen = BTreeSet::new();
        for (bi, b) in buckets.iter().enumerate() {
            for (name, d) in b.iter() {
                let Some(id) = Self::name_id(&name) else { bail!("C20/docs.get_documents/unknown-element", "{what}: bucket {bi} holds a name that was never set") };
                ensure!(seen.insert(id), "C20/docs.get_documents/element-twice", "{what}: document #{id} appears twice in the buckets (second time in bucket {bi})");
                let Some(m) = self.map.get(&id) else { bail!("C20/docs.get_documents/set-differs", "{what}: bucket {bi} holds document #{id} which the model does not hold") };
                ensure!(self.doc_eq(&d, m), "C20/docs.get_documents/wrong-document", "{what}: bucket {bi}: document #{id} = {}, model {:?}", Self::describe(&d), (m.uri.len(), m.hash[0], m.ts));
                obs.push(id);
            }
        }
        ensure!(seen.len() == n, "C20/docs.get_documents/set-differs", "{what}: the buckets hold {} documents, model {n}", seen.len());
        // index getter
        ensure!(by.len() as usize == idx.len(), "C20/docs.get_document_by_index/in-range-failed", "{what}: {} of {} in-range indices answered", by.len(), idx.len());
        let mut seen_i: BTreeMap<usize, u32> = BTreeMap::new();
        let mut probe: BTreeSet<usize> = (0..D_UNI).collect();
        for (i, (name, d)) in idx.iter().zip(by.iter()) {
            let Some(id) = Self::name_id(&name) else { bail!("C20/docs.get_document_by_index/unknown-element", "{what}: index {i} holds a name that was never set") };
            let Some(m) = self.map.get(&id) else { bail!("C20/docs.get_document_by_index/not-in-map", "{what}: index {i} holds document #{id} which the model does not hold") };
            if let Some(j) = seen_i.insert(id, *i) {
                bail!("C20/docs.get_document_by_index/element-twice", "{what}: document #{id} is enumerated at index {j} and at index {i} (count {n})");
            }
            ensure!(self.doc_eq(&d, m), "C20/docs.get_document_by_index/wrong-document", "{what}: index {i}: document #{id} = {}, model {:?}", Self::describe(&d), (m.uri.len(), m.hash[0], m.ts));
            if full || n <= 16 || win.contains(i) {
                probe.insert(id);
            }
        }
        // name getter (through the name -> index map): universe keys, the documents at the sampled positions.
        // Names the model holds are read in one bulk invocation; only if that fails are they re-read one by one
        // to name the culprit. Names the model does not hold must fail, each in its own invocation.
        let present: Vec<usize> = probe.iter().copied().filter(|id| self.map.contains_key(id)).collect();
        let mut nv: SVec<BytesN<32>> = SVec::new(e);
        for id in &present {
            nv.push_back(BytesN::from_array(e, &doc_name(*id)));
        }
        match call_t::<SVec<Document>>(e, &self.c, "get_docs", args![e; nv]) {
            Ok(ds) => {
                ensure!(ds.len() as usize == present.len(), "C20/docs.get_document/present-but-failed", "{what}: bulk get_document answered {} of {}", ds.len(), present.len());
                for (id, d) in present.iter().zip(ds.iter()) {
                    let m = &self.map[id];
                    ensure!(self.doc_eq(&d, m), "C20/docs.get_document/wrong-document", "{what}: get_document(#{id}) = {}, model {:?}", Self::describe(&d), (m.uri.len(), m.hash[0], m.ts));
                }
            }
            Err(_) => {
                for id in &present {
                    let r = call_t::<Document>(e, &self.c, "get_document", args![e; BytesN::from_array(e, &doc_name(*id))]);
                    if let Err(er) = r {
                        bail!("C20/docs.get_document/present-but-failed", "{what}: get_document(#{id}) failed although the document is attached (index {:?}, count {n}): {er}", seen_i.get(id));
                    }
                }
                bail!("C20/docs.get_document/present-but-failed", "{what}: bulk get_document failed but every single read worked");
            }
        }
        let absent_all: Vec<usize> = (0..D_UNI).filter(|id| !self.map.contains_key(id)).collect();
        let mut must_fail: BTreeSet<usize> = BTreeSet::new();
        if last {
            must_fail.extend(absent_all.iter().copied());
            must_fail.extend(self.removed.iter().copied().filter(|k| !self.map.contains_key(k)).take(12));
        } else {
            if let Some(k) = touched {
                if !self.map.contains_key(&k) {
                    must_fail.insert(k);
                }
            }
            for d in 0..2 {
                if !absent_all.is_empty() {
                    must_fail.insert(absent_all[(self.tick + d) % absent_all.len()]);
                }
            }
        }
        self.tick += 1;
        for id in must_fail {
            let r = call_t::<Document>(e, &self.c, "get_document", args![e; BytesN::from_array(e, &doc_name(id))]);
            if let Ok(d) = r {
                bail!("C20/docs.get_document/absent-found", "{what}: get_document(#{id}) = {} although the model holds no such document", Self::describe(&d));
            }
        }
        let r = call(e, &self.c, "get_document", args![e; BytesN::from_array(e, &[0xEEu8; 32])]);
        ensure!(r.is_err(), "C20/docs.get_document/absent-found", "{what}: get_document(never used name) answers");
        let r = call(e, &self.c, "get_document_by_index", args![e; n as u32]);
        ensure!(r.is_err(), "C20/docs.get_document_by_index/one-past-accepted", "{what}: get_document_by_index({n}) answers although count = {n}");
        let cnt = call_t::<u32>(e, &self.c, "get_document_count", args![e]).map_err(|er| violation("C20/docs.get_document_count/failed", er))?;
        ensure!(cnt as usize == n, "C20/docs.get_document_count/wrong", "{what}: get_document_count = {cnt}, model {n}");
        self.obs = obs;
        self.track.observe(&self.obs);
        Ok(())
    }
}

pub fn run_docs(case: &DCase, ctx: &mut Ctx) -> R {
    let e = new_env(100);
    let c = e.register(Docs, ());
    let mut h = DocsH { e: e.clone(), c: c.clone(), next_name: D_UNI, map: BTreeMap::new(), removed: vec![], obs: vec![], track: SwapTrack::default(), tick: 0 };
    // set-up: fillers attached with the library function inside one contract frame
    let base = case.base as usize;
    if base > 500 {
        // thousands of documents attached inside ONE contract frame during set-up
        envx::raise_budget(&e, 200_000_000_000, 6_000_000_000);
    }
    if base > 0 {
        let ts = e.ledger().timestamp();
        let uri = "https://docs.example/filler".to_string();
        let suri = SString::from_str(&e, &uri);
        let first = h.next_name;
        e.as_contract(&c, || {
            for id in first..first + base {
                dm::set_document(&e, &BytesN::from_array(&e, &doc_name(id)), &suri, &BytesN::from_array(&e, &doc_hash(id, 9)));
            }
        });
        for id in first..first + base {
            h.map.insert(id, MDoc { uri: uri.clone(), hash: doc_hash(id, 9), ts });
        }
        h.next_name += base;
    }
    let big = base > 500;
    h.check(false, false, None, "after set-up")?;
    let n_ops = case.ops.len();
    for (step, op) in case.ops.iter().enumerate() {
        let what = format!("step {step} {:?}", op);
        let absent: Vec<usize> = (0..D_UNI).filter(|k| !h.map.contains_key(k)).collect();
        let removed: Vec<usize> = h.removed.iter().copied().filter(|k| !h.map.contains_key(k)).collect();
        let n = h.map.len();
        let mut touched: Option<usize> = None;
        let resolve_name = |h: &mut DocsH, sel: &Sel| -> Option<usize> {
            match resolve(sel, &h.obs, h.track.hole, &absent, &removed, &[]) {
                Pick::Key(k) => Some(k),
                Pick::Fresh => {
                    h.next_name += 1;
                    Some(h.next_name - 1)
                }
                Pick::Nothing => None,
            }
        };
        match op {
            DOp::Advance(k) => envx::advance(&e, *k as u32),
            DOp::Set { name, uri, hash } => {
                let Some(k) = resolve_name(&mut h, name) else {
                    ctx.class("skipped_op");
                    continue;
                };
                touched = Some(k);
                let us = uri_string(uri);
                let present = h.map.contains_key(&k);
                let exp = if us.len() > MAX_URI {
                    Err("uri-too-long")
                } else if !present && n >= MAX_DOCS {
                    Err("limit-documents")
                } else if present {
                    Ok("update-in-place")
                } else if n + 1 == MAX_DOCS {
                    Ok("at-limit")
                } else if us.len() == MAX_URI {
                    Ok("uri-at-limit")
                } else if h.removed.contains(&k) {
                    Ok("reattach-after-removal")
                } else {
                    Ok("valid")
                };
                let ts = e.ledger().timestamp();
                let r = call(&e, &c, "set_document", args![&e; BytesN::from_array(&e, &doc_name(k)), SString::from_str(&e, &us), BytesN::from_array(&e, &doc_hash(k, *hash))]);
                ctx.op(r.is_ok());
                verdict("docs", "set_document", exp, &r, &format!("step {step} set_document(#{k}, uri len {}) at count {n} ({:?})", us.len(), name))?;
                match exp {
                    Ok(sit) => {
                        h.map.insert(k, MDoc { uri: us.clone(), hash: doc_hash(k, *hash), ts });
                        if sit != "valid" {
                            ctx.class(&format!("docs:set_ok:{sit}"));
                        }
                        if us.len() == MAX_URI {
                            ctx.class("docs:set_ok:uri-200");
                        }
                        if !present && n % DOC_BUCKET == 0 && n > 0 {
                            ctx.class("docs:set_opens_bucket");
                        }
                    }
                    Err(why) => ctx.class(&format!("docs:set_refused:{why}")),
                }
            }
            DOp::Remove(sel) => {
                let Some(k) = resolve_name(&mut h, sel) else {
                    ctx.class("skipped_op");
                    continue;
                };
                touched = Some(k);
                let exp = if h.map.contains_key(&k) { Ok("valid") } else { Err("absent") };
                let r = call(&e, &c, "remove_document", args![&e; BytesN::from_array(&e, &doc_name(k))]);
                ctx.op(r.is_ok());
                verdict("docs", "remove_document", exp, &r, &what)?;
                if exp.is_ok() {
                    h.map.remove(&k);
                    if !h.removed.contains(&k) {
                        h.removed.push(k);
                    }
                    let pos = h.obs.iter().position(|x| *x == k);
                    h.track.removed(k, pos, n);
                    if let Some(p) = pos {
                        if p / DOC_BUCKET != (n - 1) / DOC_BUCKET {
                            ctx.class("docs:remove_swaps_across_buckets");
                        }
                        if p > 0 && p + 1 < n {
                            ctx.class("docs:remove_middle");
                        }
                    }
                    if n == 1 {
                        ctx.class("docs:remove_only");
                    }
                    if (n - 1) % DOC_BUCKET == 0 && n > 1 {
                        ctx.class("docs:remove_empties_bucket");
                    }
                } else {
                    ctx.class("docs:remove_refused:absent");
                }
            }
        }
        let last = step + 1 == n_ops;
        h.check(last && (!big || ctx.tier() == Tier::Thorough), last, touched, &what)?;
        if h.track.hit {
            ctx.class("docs:removed_the_swapped_in");
            h.track.hit = false;
            ctx.nontrivial = true;
        }
    }
    if ctx.nontrivial {
        ctx.class("nontrivial:docs");
    }
    Ok(())
}

// ================================================================== 4. compliance modules

const M_UNI: usize = 6;
const HOOKS: usize = 5;
fn hook(i: usize) -> ComplianceHook {
    match i {
        0 => ComplianceHook::Transferred,
        1 => ComplianceHook::Created,
        2 => ComplianceHook::Destroyed,
        3 => ComplianceHook::CanTransfer,
        _ => ComplianceHook::CanCreate,
    }
}
const HOOK_FN: [&str; HOOKS] = ["transferred", "created", "destroyed", "can_transfer", "can_create"];

#[derive(Clone, Debug, Serialize, Deserialize)]
pub enum MOp {
    Add(u8, Sel),
    Remove(u8, Sel),
    /// run all five hooks once and compare the set of modules that were called
    RunHooks,
}
#[derive(Clone, Debug, Serialize, Deserialize)]
pub struct MCase {
    /// (hook, number of filler modules registered during set-up)
    pub prefill: Vec<(u8, u8)>,
    pub ops: Vec<MOp>,
}
fn mcase_strategy(tier: Tier) -> BoxedStrategy<MCase> {
    fn ops(hooks: std::ops::Range<u8>, max: usize) -> BoxedStrategy<Vec<MOp>> {
        let op = prop_oneof![
            12 => (hooks.clone(), sel_for_add()).prop_map(|(h, s)| MOp::Add(h, s)),
            9 => (hooks.clone(), sel_for_remove()).prop_map(|(h, s)| MOp::Remove(h, s)),
            1 => Just(MOp::RunHooks),
        ];
        proptest::collection::vec(op, 1..max).boxed()
    }
    let max = tier.pick(40usize, 50usize);
    // few hooks -> longer lists per hook; all hooks -> cross-hook confusion
    let general = prop_oneof![2 => ops(0..2, max), 1 => ops(0..HOOKS as u8, max), 1 => ops(3..5, max)].prop_map(|ops| MCase { prefill: vec![], ops });
    let cap = (0u8..HOOKS as u8, 17u8..=20, proptest::option::of((0u8..HOOKS as u8, 0u8..6)), 0u8..2)
        .prop_flat_map(move |(h, n, other, spread)| {
            let hooks = if spread == 0 { h..h + 1 } else { 0..HOOKS as u8 };
            ops(hooks, tier.pick(16usize, 30usize)).prop_map(move |ops| {
                let mut prefill = vec![(h, n)];
                if let Some((h2, n2)) = other {
                    if h2 != h {
                        prefill.push((h2, n2));
                    }
                }
                MCase { prefill, ops }
            })
        });
    prop_oneof![4 => general, 1 => cap].boxed()
}

struct CompH {
    e: Env,
    c: Address,
    mods: Vec<Address>,
    ids: BTreeMap<[u8; 32], usize>,
    reg: Vec<BTreeSet<usize>>,
    removed: Vec<Vec<usize>>,
    obs: Vec<Vec<usize>>,
    track: Vec<SwapTrack>,
}
impl CompH {
    fn new_mod(&mut self) -> usize {
        let a = self.e.register(MockModule, ());
        let id = self.mods.len();
        self.ids.insert(akey(&a), id);
        self.mods.push(a);
        id
    }
    fn to_ids(&self, list: &SVec<Address>, h: usize, getter: &str, what: &str) -> Result<Vec<usize>, Violation> {
        let mut out = vec![];
        let mut seen = BTreeSet::new();
        for a in list.iter() {
            let Some(&id) = self.ids.get(&akey(&a)) else {
                bail!(format!("C20/compliance.{getter}/unknown-element"), "{what}: hook {h} lists an address that was never registered")
            };
            ensure!(seen.insert(id), format!("C20/compliance.{getter}/element-twice"), "{what}: hook {h} lists module #{id} twice");
            out.push(id);
        }
        ensure!(seen == self.reg[h], format!("C20/compliance.{getter}/set-differs"), "{what}: hook {h} ({}) lists {:?}, model {:?}", HOOK_FN[h], seen, self.reg[h]);
        Ok(out)
    }
    fn check(&mut self, touched: Option<(usize, usize)>, what: &str) -> R {
        let e = self.e.clone();
        let e = &e;
        let mut hv: SVec<ComplianceHook> = SVec::new(e);
        for h in 0..HOOKS {
            hv.push_back(hook(h));
        }
        let mut mv: SVec<Address> = SVec::new(e);
        for m in &self.mods {
            mv.push_back(m.clone());
        }
        let d = call_t::<SVec<(SVec<Address>, SVec<bool>)>>(e, &self.c, "dump", args![e; hv, mv]).map_err(|er| violation("C20/compliance.get_modules_for_hook/failed", format!("{what}: bulk read failed: {er}")))?;
        ensure!(d.len() as usize == HOOKS, "C20/compliance.get_modules_for_hook/failed", "{what}: bulk read returned {} hooks", d.len());
        for (h, (list, flags)) in d.iter().enumerate() {
            let ids = self.to_ids(&list, h, "get_modules_for_hook", what)?;
            for (m, f) in flags.iter().enumerate() {
                ensure!(f == self.reg[h].contains(&m), "C20/compliance.is_module_registered/wrong", "{what}: is_module_registered({}, module #{m}) = {f}, model {}", HOOK_FN[h], !f);
            }
            self.obs[h] = ids;
            let o = self.obs[h].clone();
            self.track[h].observe(&o);
        }
        // the plain entry points for the hook / module just touched
        if let Some((h, m)) = touched {
            let list = call_t::<SVec<Address>>(e, &self.c, "get_modules_for_hook", args![e; hook(h)]).map_err(|er| violation("C20/compliance.get_modules_for_hook/failed", format!("{what}: {er}")))?;
            self.to_ids(&list, h, "get_modules_for_hook", what)?;
            for hh in 0..HOOKS {
                let f = call_t::<bool>(e, &self.c, "is_module_registered", args![e; hook(hh), self.mods[m].clone()]).map_err(|er| violation("C20/compliance.is_module_registered/failed", format!("{what}: {er}")))?;
                ensure!(f == self.reg[hh].contains(&m), "C20/compliance.is_module_registered/wrong", "{what}: is_module_registered({}, module #{m}) = {f}, model {}", HOOK_FN[hh], !f);
            }
        }
        Ok(())
    }
    fn calls(&self, what: &str) -> Result<Vec<Vec<u32>>, Violation> {
        let e = &self.e;
        let mut out = vec![];
        for m in &self.mods {
            let v = call_t::<SVec<u32>>(e, m, "calls", args![e]).map_err(|er| violation("C20/compliance.hooks/mock-module-failed", format!("{what}: {er}")))?;
            out.push(v.iter().collect());
        }
        Ok(out)
    }
    /// the five hook executors consult exactly the registered set (each module once)
    fn run_hooks(&self, token: &Address, a: &Address, b: &Address, what: &str) -> R {
        let e = &self.e;
        let before = self.calls(what)?;
        let amt = 1i128;
        let rs = [
            call(e, &self.c, "transferred", args![e; a.clone(), b.clone(), amt, token.clone()]),
            call(e, &self.c, "created", args![e; b.clone(), amt, token.clone()]),
            call(e, &self.c, "destroyed", args![e; a.clone(), amt, token.clone()]),
            call(e, &self.c, "can_transfer", args![e; a.clone(), b.clone(), amt, token.clone()]),
            call(e, &self.c, "can_create", args![e; b.clone(), amt, token.clone()]),
        ];
        for (h, r) in rs.iter().enumerate() {
            ensure!(r.is_ok(), format!("C20/compliance.{}/hook-run-failed", HOOK_FN[h]), "{what}: {} failed with accept-all modules: {:?}", HOOK_FN[h], r);
        }
        let after = self.calls(what)?;
        for m in 0..self.mods.len() {
            for h in 0..HOOKS {
                let delta = after[m][h] - before[m][h];
                let want = if self.reg[h].contains(&m) { 1 } else { 0 };
                ensure!(
                    delta == want,
                    format!("C20/compliance.{}/executed-set-differs", HOOK_FN[h]),
                    "{what}: {} called module #{m} {delta} time(s); registered under that hook in the model: {}",
                    HOOK_FN[h],
                    want == 1
                );
            }
        }
        Ok(())
    }
}

pub fn run_compliance(case: &MCase, ctx: &mut Ctx) -> R {
    let e = new_env(100);
    let c = e.register(ComplianceReg, ());
    let mut h = CompH {
        e: e.clone(),
        c: c.clone(),
        mods: vec![],
        ids: BTreeMap::new(),
        reg: vec![BTreeSet::new(); HOOKS],
        removed: vec![vec![]; HOOKS],
        obs: vec![vec![]; HOOKS],
        track: vec![SwapTrack::default(); HOOKS],
    };
    for _ in 0..M_UNI {
        h.new_mod();
    }
    let token = Address::generate(&e);
    let (a, b) = (Address::generate(&e), Address::generate(&e));
    e.mock_all_auths(); // the state-changing hooks require the bound token's authorization; not C20's subject
    let r = call(&e, &c, "bind_token", args![&e; token.clone()]);
    ensure!(r.is_ok(), "C20/compliance.setup/bind-token", "set-up bind_token failed: {:?}", r);
    let want_fillers = case.prefill.iter().map(|(_, n)| *n as usize).max().unwrap_or(0);
    for _ in 0..want_fillers {
        h.new_mod();
    }
    for (hk, n) in &case.prefill {
        let hk = *hk as usize % HOOKS;
        for j in 0..(*n as usize).min(MAX_MODULES) {
            let m = M_UNI + j;
            if h.reg[hk].contains(&m) {
                continue;
            }
            let r = call(&e, &c, "add_module_to", args![&e; hook(hk), h.mods[m].clone()]);
            ensure!(r.is_ok(), "C20/compliance.add_module_to/refused:prefill", "set-up registration {j} for hook {hk} refused: {:?}", r);
            h.reg[hk].insert(m);
        }
    }
    h.check(None, "after set-up")?;
    for (step, op) in case.ops.iter().enumerate() {
        let what = format!("step {step} {:?}", op);
        let (hk, sel, is_add) = match op {
            MOp::RunHooks => {
                h.run_hooks(&token, &a, &b, &what)?;
                ctx.class("compliance:run_hooks");
                continue;
            }
            MOp::Add(hk, sel) => (*hk as usize % HOOKS, sel, true),
            MOp::Remove(hk, sel) => (*hk as usize % HOOKS, sel, false),
        };
        let absent: Vec<usize> = (0..M_UNI).filter(|k| !h.reg[hk].contains(k)).collect();
        let removed: Vec<usize> = h.removed[hk].iter().copied().filter(|k| !h.reg[hk].contains(k)).collect();
        let elsewhere: Vec<usize> = (0..h.mods.len()).filter(|k| !h.reg[hk].contains(k) && (0..HOOKS).any(|o| o != hk && h.reg[o].contains(k))).collect();
        let n = h.reg[hk].len();
        let m = match resolve(sel, &h.obs[hk], h.track[hk].hole, &absent, &removed, &elsewhere) {
            Pick::Key(k) => k,
            Pick::Fresh => {
                // a not yet registered filler if there is one, else a brand-new module
                match (M_UNI..h.mods.len()).find(|k| (0..HOOKS).all(|o| !h.reg[o].contains(k))) {
                    Some(k) => k,
                    None => h.new_mod(),
                }
            }
            Pick::Nothing => {
                ctx.class("skipped_op");
                continue;
            }
        };
        let present = h.reg[hk].contains(&m);
        let on_other = (0..HOOKS).any(|o| o != hk && h.reg[o].contains(&m));
        if is_add {
            let exp = if present {
                Err("already-registered")
            } else if n >= MAX_MODULES {
                Err("limit-modules")
            } else if n + 1 == MAX_MODULES {
                Ok("at-limit")
            } else if h.removed[hk].contains(&m) {
                Ok("re-register-after-removal")
            } else {
                Ok("valid")
            };
            let r = call(&e, &c, "add_module_to", args![&e; hook(hk), h.mods[m].clone()]);
            ctx.op(r.is_ok());
            verdict("compliance", "add_module_to", exp, &r, &format!("{what} => add module #{m} to {} holding {n}", HOOK_FN[hk]))?;
            match exp {
                Ok(sit) => {
                    h.reg[hk].insert(m);
                    if sit != "valid" {
                        ctx.class(&format!("compliance:add_ok:{sit}"));
                    }
                    if on_other {
                        ctx.class("compliance:add_ok:registered-under-other-hook-too");
                    }
                }
                Err(why) => ctx.class(&format!("compliance:add_refused:{why}")),
            }
        } else {
            let exp = if present { Ok("valid") } else { Err("not-registered") };
            let r = call(&e, &c, "remove_module_from", args![&e; hook(hk), h.mods[m].clone()]);
            ctx.op(r.is_ok());
            verdict("compliance", "remove_module_from", exp, &r, &format!("{what} => remove module #{m} from {} holding {n}", HOOK_FN[hk]))?;
            if exp.is_ok() {
                h.reg[hk].remove(&m);
                if !h.removed[hk].contains(&m) {
                    h.removed[hk].push(m);
                }
                let pos = h.obs[hk].iter().position(|x| *x == m);
                h.track[hk].removed(m, pos, n);
                if let Some(p) = pos {
                    if p > 0 && p + 1 < n {
                        ctx.class("compliance:remove_middle");
                    }
                }
                if n == 1 {
                    ctx.class("compliance:remove_only");
                }
                if on_other {
                    ctx.class("compliance:remove_ok:stays-under-other-hook");
                }
            } else {
                ctx.class(if on_other { "compliance:remove_refused:registered-under-other-hook-only" } else { "compliance:remove_refused:not-registered" });
            }
        }
        h.check(Some((hk, m)), &what)?;
        if h.track[hk].hit {
            ctx.class("compliance:removed_the_moved_in");
            h.track[hk].hit = false;
            ctx.nontrivial = true;
        }
    }
    h.run_hooks(&token, &a, &b, "final")?;
    if ctx.nontrivial {
        ctx.class("nontrivial:compliance");
    }
    Ok(())
}

// ================================================================== capacity scenarios of the two big bucketed registries

fn cap_binder_case(slab: u64) -> BCase {
    let small = |k| BOp::Batch { n: BatchN::Small(k), reuse: 0, dup: None, bound: None };
    match slab {
        // 9 999 -> single binds at / past the limit, swap-remove in a full registry, batch at / past the limit
        0 => BCase {
            base: (MAX_TOKENS - 1) as u16,
            ops: vec![
                BOp::Bind(Sel::Fresh),
                BOp::Bind(Sel::Fresh),
                small(1),
                BOp::Unbind(Sel::Mid(30000)),
                BOp::Unbind(Sel::Swapped),
                small(3),
                small(2),
                BOp::Bind(Sel::Fresh),
                BOp::Bind(Sel::Removed(0)),
            ],
        },
        // 9 800 -> batch edges against the capacity
        _ => BCase {
            base: (MAX_TOKENS - MAX_BATCH) as u16,
            ops: vec![
                BOp::Batch { n: BatchN::Abs(201), reuse: 0, dup: None, bound: None },
                BOp::Bind(Sel::Absent(0)),
                BOp::Batch { n: BatchN::Abs(200), reuse: 0, dup: None, bound: None },
                BOp::Batch { n: BatchN::ToMax(1), reuse: 0, dup: None, bound: None },
                BOp::Batch { n: BatchN::ToMax(0), reuse: 1, dup: None, bound: None },
                BOp::Bind(Sel::Fresh),
                BOp::Unbind(Sel::First),
                BOp::Unbind(Sel::Last),
                small(3),
                small(2),
                small(1),
            ],
        },
    }
}
fn cap_docs_case(slab: u64) -> DCase {
    let set = |name, uri| DOp::Set { name, uri, hash: 1 };
    match slab {
        0 => DCase {
            base: (MAX_DOCS - 1) as u16,
            ops: vec![
                set(Sel::Fresh, Uri::Short(1)),
                set(Sel::Fresh, Uri::Short(2)),
                set(Sel::At(40000), Uri::Len(200)),
                set(Sel::Absent(0), Uri::Short(0)),
                DOp::Remove(Sel::Mid(20000)),
                DOp::Remove(Sel::Swapped),
                set(Sel::Absent(0), Uri::Short(3)),
                set(Sel::Removed(0), Uri::Len(201)),
                set(Sel::Removed(0), Uri::Short(3)),
                set(Sel::Fresh, Uri::Short(3)),
                set(Sel::Last, Uri::Short(4)),
            ],
        },
        _ => DCase {
            base: (MAX_DOCS - 2) as u16,
            ops: vec![
                set(Sel::Absent(0), Uri::Short(1)),
                DOp::Remove(Sel::First),
                set(Sel::Absent(0), Uri::Short(1)),
                set(Sel::Absent(0), Uri::Len(200)),
                set(Sel::Absent(0), Uri::Short(1)),
                DOp::Remove(Sel::Last),
                set(Sel::Fresh, Uri::Short(1)),
                set(Sel::Fresh, Uri::Short(1)),
            ],
        },
    }
}
fn cap_slabs(tier: Tier) -> u64 {
    // reaching 5 000 documents / 10 000 tokens through the API costs 10-60 s each; the four scripted histories run
    // on four worker threads in parallel, so the quick tier affords them too (the limits are part of the statement)
    tier.pick(4, 4)
}
/// slab 0: documents at 5 000; slab 1: tokens at 10 000; thorough adds the second variant of each
fn cap_run(_tier: Tier, slab: u64, ctx: &mut Ctx, out: &mut FixedOut) -> R {
    out.evaluations = 1;
    let (r, js) = if slab % 2 == 0 {
        let c = cap_docs_case(slab / 2);
        (run_docs(&c, ctx), serde_json::to_value(&c).ok())
    } else {
        let c = cap_binder_case(slab / 2);
        (run_binder(&c, ctx), serde_json::to_value(&c).ok())
    };
    ctx.nontrivial = false;
    if r.is_err() {
        out.failing = js;
    } else {
        out.nontrivial.push(hash_str(&format!("capacity-{slab}")));
        ctx.class("capacity_scenario");
    }
    r
}

// ================================================================== registration

/// generator + non-triviality rule of these sub-checks (for `Property.rule` in c20.rs)
pub const RULE: &str = "ctx-rules: multisig example account + 6 accept-all policies; history <=40 (thorough 50) of add_context_rule (fresh masks over 4 signers/3 policies/4 types, copy of a live rule with permuted signers, copy of a removed rule, copy of a rule as it was before an edit, one-edit-away twin, 13..16 signers / 0..6 policies), remove_context_rule, add/remove signer/policy (member / non-member selectors, edits aimed at creating a twin), rename, valid_until, ledger advance; profiles: general, 11..14 pre-filled rules, per-rule limits; non-trivial = removal of a rule that is neither first nor last of its type followed by removal of its successor, OR a duplicate refused plus a freed fingerprint re-added. binder/docs/compliance: history <=40 (edge profile <=14) of add / remove / update / batch over 6..8 universe keys + fresh keys with selectors First/Last/Swapped/Mid/At/Absent/Removed/Elsewhere resolved against the registry's own enumeration, pre-filled to 0..40 or to a bucket edge (tokens 98..102/198..202/299..301, documents 48..52/99..101, modules 17..20 per hook); non-trivial = removal of an element that is neither first nor last followed by removal of the element that then sits at its position. capacity (thorough only): 4 scripted histories at 4 999/4 998 documents and 9 999/9 800 tokens. distinct = distinct serialised case";

/// suggested vacuity floors (class, quick, thorough) — about 1/10 of the counts measured over seeds 0..5
pub const FLOORS: &[(&str, u64, u64)] = &[
    ("nontrivial:ctx-rules", 5, 75),
    ("nontrivial:binder", 18, 270),
    ("nontrivial:docs", 15, 225),
    ("nontrivial:compliance", 5, 75),
    ("rules:readd_freed_fingerprint_ok", 10, 150),
    ("rules:permuted_duplicate_refused", 3, 45),
    ("rules:add_at_limit_ok", 8, 120),
    ("rules:add_refused:limit-rules", 8, 120),
    ("binder:unbind_swaps_across_buckets", 50, 750),
    ("docs:remove_swaps_across_buckets", 5, 75),
    ("compliance:add_ok:at-limit", 3, 45),
    ("compliance:add_refused:limit-modules", 3, 45),
    ("rules:add_signer_ok:at-limit", 1, 15),
    ("rules:add_policy_ok:at-limit", 3, 45),
    ("binder:batch_ok:max-batch", 2, 30),
    ("docs:set_ok:uri-at-limit", 5, 75),
];

pub fn subs() -> Vec<Box<dyn SubCheck>> {
    vec![
        gen_sub::<RCase>("ctx-rules", 400, 6000, rcase_strategy, run_rules),
        gen_sub::<BCase>("binder", 400, 6000, bcase_strategy, run_binder),
        gen_sub::<DCase>("docs", 400, 6000, dcase_strategy, run_docs),
        gen_sub::<MCase>("compliance", 400, 6000, mcase_strategy, run_compliance),
        Box::new(Fixed { name: "bucket-capacity", slabs: cap_slabs, run: cap_run }),
    ]
}

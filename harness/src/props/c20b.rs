//! C20 (second half) — additional registry sub-checks, appended to C20's property.
use crate::engine::*;

pub fn subs() -> Vec<Box<dyn SubCheck>> {
    vec![]
}

//! C16 — Pause, allow/block lists, supply cap and migration flags cannot be bypassed.
//! Sub-checks: token gates (lists + pause) on harness and example tokens, the `pausable`
//! example, the cap check, and the upgrade/migrate flag of the derive macros.

use super::ftcore::*;
use crate::engine::*;
use crate::envx::{self, call, Inv};
use crate::gen::pick;
use proptest::prelude::*;
use serde::{Deserialize, Serialize};
use soroban_sdk::{Address, BytesN, Env, IntoVal, Val};
use std::collections::BTreeSet;

// ------------------------------------------------------------------ token gates

#[derive(Clone, Debug, Serialize, Deserialize)]
pub struct GateCase {
    pub flavor: Flavor,
    pub n: u8,
    pub seq: u32,
    pub listed: u16,
    pub ops: Vec<Op>,
}

fn weights(f: Flavor) -> OpWeights {
    OpWeights {
        mint: if f.has_mint() { 3 } else { 0 },
        transfer: 6,
        transfer_from: 5,
        approve: 5,
        burn: if f.has_burn() { 3 } else { 0 },
        burn_from: if f.has_burn() { 3 } else { 0 },
        advance: 1,
        list: if f.has_list() { 7 } else { 0 },
        pause: if f.has_pause() { 6 } else { 0 },
        exact_auth: 14,
        spend_profile: true,
    }
}

fn gate_strategy(f: Flavor, tier: Tier) -> BoxedStrategy<GateCase> {
    let max_ops = tier.pick(35usize, 70usize);
    (2u8..=4, 100u32..3000, any::<u16>(), proptest::collection::vec(op_strategy(&weights(f)), 1..max_ops))
        .prop_map(move |(n, seq, listed, ops)| GateCase { flavor: f, n, seq, listed, ops })
        .boxed()
}

pub fn run_gates(case: &GateCase, ctx: &mut Ctx) -> R {
    let t = Tok::setup(case.flavor, case.n as usize, case.seq, envx::BIG_TTL);
    let e = &t.e;
    let hs = t.holders();
    // fund every account while all gates are open, then apply the generated list state
    if case.flavor.is_allow() {
        t.setup_lists(0xffff).map_err(|er| violation("C16/setup/list", er))?;
    }
    for i in 0..t.accts.len() {
        let c = if case.flavor.has_mint() {
            Call {
                func: "mint",
                args: vec![t.accts[i].clone().into_val(e), (1000i128 + i as i128).into_val(e)],
                required: if case.flavor.mint_needs_auth() { vec![t.admin.clone()] } else { vec![] },
                amount_arg: Some(1),
            }
        } else if i > 0 {
            Call {
                func: "transfer",
                args: vec![t.accts[0].clone().into_val(e), t.accts[i].clone().into_val(e), (1000i128 + i as i128).into_val(e)],
                required: vec![t.accts[0].clone()],
                amount_arg: Some(2),
            }
        } else {
            continue;
        };
        let (r, _) = exec(&t, &c, &AuthMode::Exact);
        ensure!(r.is_ok(), "C16/setup/fund", "set-up funding failed: {:?}", r);
    }
    if case.flavor.has_list() {
        // allow flavours: mostly allowed; block flavours: mostly not blocked
        let mask = if case.flavor.is_allow() { case.listed | case.listed.rotate_left(5) } else { case.listed & case.listed.rotate_left(5) };
        t.setup_lists(mask).map_err(|er| violation("C16/setup/list", er))?;
    }
    let mut d = t.dump();
    let mut hist = Hist::default();
    let mut blocked: BTreeSet<(&'static str, &'static str)> = BTreeSet::new();
    let mut reopened = false;
    let mut ok_after_reopen: BTreeSet<&'static str> = BTreeSet::new();

    for (step, op) in case.ops.iter().enumerate() {
        let r = match t.resolve(op, &d, &mut hist) {
            Step::Advanced => {
                d = t.dump();
                continue;
            }
            Step::Skipped => {
                ctx.class("skipped_op");
                continue;
            }
            Step::Call(r) => r,
        };
        let f = kind_name(r.kind);
        let what = format!("step {step} {}({:?})", r.call.func, op);
        let gate = closed_gate(&t, &r, &d);
        let pre = base_preconditions(&t, &r, &d);
        let (res, exact) = exec(&t, &r.call, &r.mode);
        let d2 = t.dump();
        ctx.op(res.is_ok());

        if res.is_err() {
            ensure!(d2 == d, format!("C16/{f}/refused-call-changed-state"), "{what}: refused but state changed {:?} -> {:?}", d, d2);
        }
        match r.kind {
            Kind::List => {
                let (wi, on) = r.list.unwrap();
                if res.is_ok() {
                    ensure!(exact, "C16/list/changed-without-manager-auth", "{what}: list changed in auth mode {:?}", r.mode);
                    // immediate and idempotent
                    let mut want = d.listed.clone();
                    want[wi] = on;
                    ensure!(
                        d2.listed == want,
                        "C16/list/not-immediate-or-not-idempotent",
                        "{what}: membership after call {:?}, expected {:?}",
                        d2.listed,
                        want
                    );
                    ensure!(d2.bal == d.bal && d2.allow == d.allow && d2.supply == d.supply, "C16/list/side-effect", "{what}: list change touched balances/allowances");
                    if d.listed[wi] == on {
                        ctx.class("list_idempotent_repeat");
                    }
                    let opens = if case.flavor.is_allow() { on } else { !on };
                    if opens && d.listed[wi] != on {
                        reopened = true;
                    }
                    // entry-point view
                    let getter = if case.flavor.is_allow() { "allowed" } else { "blocked" };
                    let v = envx::call_t::<bool>(e, &t.addr, getter, args![e; hs[wi].clone()]).map_err(|er| violation("C16/list/getter-failed", er))?;
                    ensure!(v == on, "C16/list/getter-mismatch", "{what}: {getter}() = {v}, expected {on}");
                } else {
                    ensure!(!exact, "C16/list/manager-call-refused", "{what}: exact manager call was refused: {:?}", res);
                }
            }
            Kind::Pause => {
                let (on, by_owner) = r.pause.unwrap();
                let should = exact && by_owner && (d.paused != on);
                ensure!(
                    res.is_ok() == should,
                    if on { "C16/pause/alternation-or-auth" } else { "C16/unpause/alternation-or-auth" },
                    "{what}: paused before = {}, by_owner = {by_owner}, exact auth = {exact}: call {} but should {}",
                    d.paused,
                    if res.is_ok() { "succeeded" } else { "failed" },
                    if should { "succeed" } else { "fail" }
                );
                if res.is_ok() {
                    ensure!(d2.paused == on, "C16/pause/flag-wrong", "{what}: paused() = {} after the call", d2.paused);
                    let v = envx::call_t::<bool>(e, &t.addr, "paused", args![e]).map_err(|er| violation("C16/pause/getter-failed", er))?;
                    ensure!(v == on, "C16/pause/getter-mismatch", "{what}: paused() entry point = {v}");
                    if !on {
                        reopened = true;
                    }
                }
            }
            _ => {
                if res.is_ok() {
                    if let Some(g) = gate {
                        bail!(
                            format!("C16/{f}/gate-bypass:{g}"),
                            "{what}: succeeded although gate `{g}` is closed (flavour {}, listed {:?}, paused {})",
                            case.flavor.name(),
                            d.listed,
                            d.paused
                        );
                    }
                    if reopened {
                        ok_after_reopen.insert(f);
                    }
                } else {
                    if let Some(g) = gate {
                        if exact && pre.is_ok() {
                            blocked.insert((f, g));
                            ctx.class(&format!("blocked:{f}:{g}"));
                        }
                    } else if exact && pre.is_ok() {
                        // documented: with every gate open and all other preconditions met the call works
                        bail!(
                            format!("C16/{f}/refused-with-open-gates"),
                            "{what}: exact authorization, preconditions met, gates open (listed {:?}, paused {}), but refused: {:?}",
                            d.listed,
                            d.paused,
                            res
                        );
                    }
                }
            }
        }
        d = d2;
    }
    if blocked.len() >= 3 && !ok_after_reopen.is_empty() {
        ctx.nontrivial = true;
        ctx.class("nontrivial");
    }
    Ok(())
}

// ------------------------------------------------------------------ pausable example (counter)

#[derive(Clone, Debug, Serialize, Deserialize)]
pub enum POp {
    Increment,
    Reset,
    Pause { on: bool, by_owner: bool, with_auth: bool },
}
#[derive(Clone, Debug, Serialize, Deserialize)]
pub struct PCase {
    pub ops: Vec<POp>,
}
fn pcase_strategy(tier: Tier) -> BoxedStrategy<PCase> {
    let op = prop_oneof![
        4 => Just(POp::Increment),
        2 => Just(POp::Reset),
        4 => (any::<bool>(), proptest::bool::weighted(0.8), proptest::bool::weighted(0.8))
            .prop_map(|(on, by_owner, with_auth)| POp::Pause { on, by_owner, with_auth }),
    ];
    proptest::collection::vec(op, 1..tier.pick(40usize, 90usize)).prop_map(|ops| PCase { ops }).boxed()
}
pub fn run_pausable(case: &PCase, ctx: &mut Ctx) -> R {
    use crate::examples::pausable::contract::ExampleContract;
    let e = envx::new_env(100, envx::BIG_TTL);
    let owner = envx::actor(&e);
    let other = envx::actor(&e);
    let c = e.register(ExampleContract, (owner.clone(),));
    let mut paused = false;
    let mut counter: i32 = 0;
    let (mut blocked_inc, mut ok_after) = (false, false);
    let mut was_unpaused = false;
    for (i, op) in case.ops.iter().enumerate() {
        match op {
            POp::Increment => {
                envx::no_auth(&e);
                let r = envx::call_t::<i32>(&e, &c, "increment", args![&e]);
                ctx.op(r.is_ok());
                if paused {
                    ensure!(r.is_err(), "C16/pausable-example/increment-while-paused", "step {i}: increment succeeded while paused");
                    blocked_inc = true;
                } else {
                    ensure!(r == Ok(counter + 1), "C16/pausable-example/increment-wrong", "step {i}: increment returned {:?}, expected {}", r, counter + 1);
                    counter += 1;
                    if was_unpaused {
                        ok_after = true;
                    }
                }
            }
            POp::Reset => {
                envx::no_auth(&e);
                let r = call(&e, &c, "emergency_reset", args![&e]);
                ctx.op(r.is_ok());
                ensure!(r.is_ok() == paused, "C16/pausable-example/when_paused-guard", "step {i}: emergency_reset {:?} while paused = {paused}", r.is_ok());
                if r.is_ok() {
                    counter = 0;
                }
            }
            POp::Pause { on, by_owner, with_auth } => {
                let who = if *by_owner { &owner } else { &other };
                let f = if *on { "pause" } else { "unpause" };
                if *with_auth {
                    envx::set_auth(&e, &[(who, &Inv::new(&c, f, args![&e; who.clone()]))]);
                } else {
                    envx::no_auth(&e);
                }
                let r = call(&e, &c, f, args![&e; who.clone()]);
                envx::no_auth(&e);
                ctx.op(r.is_ok());
                let should = *by_owner && *with_auth && paused != *on;
                ensure!(
                    r.is_ok() == should,
                    "C16/pausable-example/alternation-or-auth",
                    "step {i}: {f} by_owner={by_owner} auth={with_auth} paused={paused}: ok={}",
                    r.is_ok()
                );
                if r.is_ok() {
                    paused = *on;
                    if !*on {
                        was_unpaused = true;
                    }
                }
            }
        }
        let p = envx::call_t::<bool>(&e, &c, "paused", args![&e]).map_err(|er| violation("C16/pausable-example/getter-failed", er))?;
        ensure!(p == paused, "C16/pausable-example/flag", "step {i}: paused() = {p}, model {paused}");
    }
    if blocked_inc && ok_after {
        ctx.nontrivial = true;
        ctx.class("nontrivial_pausable");
    }
    Ok(())
}

// ------------------------------------------------------------------ cap

#[derive(Clone, Debug, Serialize, Deserialize)]
pub struct CapCase {
    #[serde(with = "crate::gen::i128_str")]
    pub cap: i128,
    pub mints: Vec<(u16, Amt)>,
}
fn cap_strategy(tier: Tier) -> BoxedStrategy<CapCase> {
    let cap = prop_oneof![
        3 => 0i128..=5000,
        2 => crate::gen::amount_pos(),
        1 => proptest::sample::select(vec![i128::MAX, i128::MAX - 1, i128::MAX / 2 + 1, 0i128, 1]),
    ];
    let amt = prop_oneof![
        5 => (-2i8..=2).prop_map(Amt::CapGap),
        2 => (0i128..=3000).prop_map(Amt::Abs),
        2 => crate::gen::amount_any().prop_map(Amt::Abs),
        1 => (-2i8..=2).prop_map(Amt::SupplyGap),
    ];
    (cap, proptest::collection::vec((any::<u16>(), amt), 1..tier.pick(20usize, 40usize))).prop_map(|(cap, mints)| CapCase { cap, mints }).boxed()
}
pub fn run_cap(case: &CapCase, ctx: &mut Ctx) -> R {
    use crate::examples::fungible_capped::contract::ExampleContract;
    let e = envx::new_env(100, envx::BIG_TTL);
    let accts = envx::actors(&e, 3);
    let c = e.register(ExampleContract, (case.cap,));
    let mut supply: i128 = 0;
    let (mut at_cap, mut over_cap, mut ok) = (false, false, false);
    for (i, (to, amt)) in case.mints.iter().enumerate() {
        let a = match amt {
            Amt::Abs(x) => *x,
            Amt::CapGap(d) => (case.cap - supply).saturating_add(*d as i128),
            Amt::SupplyGap(d) => (i128::MAX - supply).saturating_add(*d as i128),
            _ => 1,
        };
        let to = accts[pick(*to, accts.len())].clone();
        envx::no_auth(&e);
        let r = call(&e, &c, "mint", args![&e; to, a]);
        ctx.op(r.is_ok());
        let s2 = envx::call_t::<i128>(&e, &c, "total_supply", args![&e]).map_err(|er| violation("C16/cap/total_supply-failed", er))?;
        if r.is_ok() {
            ensure!(s2 <= case.cap, "C16/cap/supply-above-cap", "mint {i} of {a} lifted the supply to {s2} above the cap {}", case.cap);
            ok = true;
            if s2 == case.cap && a > 0 {
                at_cap = true;
                ctx.class("mint_exactly_to_cap");
            }
            supply = s2;
        } else {
            ensure!(s2 == supply, "C16/cap/refused-mint-changed-supply", "refused mint {i} changed the supply {supply} -> {s2}");
            let fits = a >= 0 && supply.checked_add(a).map(|s| s <= case.cap).unwrap_or(false);
            if fits && a > 0 {
                // the documented refusals of the example's mint are MathOverflow and ExceededCap ("will exceed the cap"):
                // a positive amount that keeps the supply within the cap (in particular exactly AT the cap) is accepted
                bail!("C16/cap/refused-within-cap", "mint {i} of {a} refused ({:?}) although supply {supply} + {a} <= cap {}", r, case.cap);
            } else if fits {
                ctx.class("cap_zero_mint_refused");
            } else if a > 0 {
                over_cap = true;
                ctx.class("mint_over_cap_refused");
            }
        }
    }
    if ok && over_cap && at_cap {
        ctx.nontrivial = true;
        ctx.class("nontrivial_cap");
    }
    Ok(())
}

// ------------------------------------------------------------------ cap that is re-set during the history

#[derive(Clone, Debug, Serialize, Deserialize)]
pub enum RcOp {
    /// set_cap(supply + d) or an absolute value
    SetCapRel(i16),
    SetCapAbs(#[serde(with = "crate::gen::i128_str")] i128),
    Mint(u16, Amt),
    /// burn k/4 of the holder's balance
    Burn(u16, u8),
}
#[derive(Clone, Debug, Serialize, Deserialize)]
pub struct RcCase {
    #[serde(with = "crate::gen::i128_str")]
    pub cap: i128,
    pub ops: Vec<RcOp>,
}
fn rc_strategy(tier: Tier) -> BoxedStrategy<RcCase> {
    let amt = prop_oneof![
        5 => (-2i8..=2).prop_map(Amt::CapGap),
        3 => (0i128..=3000).prop_map(Amt::Abs),
        1 => crate::gen::amount_any().prop_map(Amt::Abs),
    ];
    let op = prop_oneof![
        3 => prop_oneof![-1500i16..=1500, -3i16..=3].prop_map(RcOp::SetCapRel),
        1 => prop_oneof![0i128..=5000, crate::gen::amount_any()].prop_map(RcOp::SetCapAbs),
        6 => (any::<u16>(), amt).prop_map(|(to, a)| RcOp::Mint(to, a)),
        2 => (any::<u16>(), 0u8..=4).prop_map(|(h, k)| RcOp::Burn(h, k)),
    ];
    (0i128..=4000, proptest::collection::vec(op, 1..tier.pick(30usize, 60usize))).prop_map(|(cap, ops)| RcCase { cap, ops }).boxed()
}
pub fn run_resettable_cap(case: &RcCase, ctx: &mut Ctx) -> R {
    use crate::contracts::c16::ft_capped::FtCapped;
    let e = envx::new_env(100, envx::BIG_TTL);
    let accts = envx::actors(&e, 3);
    let c = e.register(FtCapped, (case.cap,));
    let mut cap = case.cap;
    let mut supply: i128 = 0;
    let (mut lowered_below, mut refused_under_lowered, mut ok_mint) = (false, false, false);
    for (i, op) in case.ops.iter().enumerate() {
        match op {
            RcOp::SetCapRel(_) | RcOp::SetCapAbs(_) => {
                let v = match op {
                    RcOp::SetCapRel(d) => supply.saturating_add(*d as i128),
                    RcOp::SetCapAbs(x) => *x,
                    _ => unreachable!(),
                };
                envx::no_auth(&e);
                let r = call(&e, &c, "set_cap", args![&e; v]);
                ctx.op(r.is_ok());
                if r.is_ok() {
                    cap = v;
                    if cap < supply {
                        lowered_below = true;
                        ctx.class("cap_lowered_below_supply");
                    }
                }
                let q = envx::call_t::<i128>(&e, &c, "cap", args![&e]).map_err(|er| violation("C16/cap/query_cap-failed", er))?;
                ensure!(q == cap, "C16/cap/query-mismatch", "step {i}: query_cap = {q}, last successfully set cap = {cap}");
            }
            RcOp::Mint(to, amt) => {
                let a = match amt {
                    Amt::Abs(x) => *x,
                    Amt::CapGap(d) => (cap - supply).saturating_add(*d as i128),
                    _ => 1,
                };
                let to = accts[pick(*to, accts.len())].clone();
                envx::no_auth(&e);
                let r = call(&e, &c, "mint", args![&e; to, a]);
                ctx.op(r.is_ok());
                let s2 = envx::call_t::<i128>(&e, &c, "total_supply", args![&e]).map_err(|er| violation("C16/cap/total_supply-failed", er))?;
                if r.is_ok() {
                    if s2 > supply {
                        ensure!(
                            s2 <= cap,
                            "C16/cap/supply-above-cap",
                            "step {i}: a cap-checked mint of {a} lifted the supply {supply} -> {s2} above the cap {cap}"
                        );
                        ok_mint = true;
                    }
                    supply = s2;
                } else {
                    ensure!(s2 == supply, "C16/cap/refused-mint-changed-supply", "step {i}: refused mint changed the supply {supply} -> {s2}");
                    if cap < supply && a > 0 {
                        refused_under_lowered = true;
                        ctx.class("mint_refused_while_cap_below_supply");
                    }
                }
            }
            RcOp::Burn(h, k) => {
                let who = accts[pick(*h, accts.len())].clone();
                let bal = envx::call_t::<i128>(&e, &c, "balance", args![&e; who.clone()]).map_err(|er| violation("C16/cap/balance-failed", er))?;
                let a = bal / 4 * (*k as i128);
                envx::set_auth(&e, &[(&who, &Inv::new(&c, "burn", args![&e; who.clone(), a]))]);
                let r = call(&e, &c, "burn", args![&e; who.clone(), a]);
                envx::no_auth(&e);
                ctx.op(r.is_ok());
                supply = envx::call_t::<i128>(&e, &c, "total_supply", args![&e]).map_err(|er| violation("C16/cap/total_supply-failed", er))?;
            }
        }
    }
    if lowered_below && refused_under_lowered && ok_mint {
        ctx.nontrivial = true;
        ctx.class("nontrivial_resettable_cap");
    }
    Ok(())
}

// ------------------------------------------------------------------ stacked guard macros

#[derive(Clone, Debug, Serialize, Deserialize)]
pub enum SgOp {
    /// call entry point k (0..7) by owner / member / stranger (who = 0/1/2), with or without that caller's entry
    Call { k: u8, who: u8, with_auth: bool },
    Pause { on: bool, by_owner: bool },
}
#[derive(Clone, Debug, Serialize, Deserialize)]
pub struct SgCase {
    pub ops: Vec<SgOp>,
}
fn sg_strategy(tier: Tier) -> BoxedStrategy<SgCase> {
    let op = prop_oneof![
        6 => (0u8..7, prop_oneof![3 => Just(0u8), 2 => Just(1u8), 1 => Just(2u8)], proptest::bool::weighted(0.85)).prop_map(|(k, who, with_auth)| SgOp::Call { k, who, with_auth }),
        2 => (any::<bool>(), proptest::bool::weighted(0.9)).prop_map(|(on, by_owner)| SgOp::Pause { on, by_owner }),
    ];
    proptest::collection::vec(op, 1..tier.pick(30usize, 60usize)).prop_map(|ops| SgCase { ops }).boxed()
}
pub fn run_stacked(case: &SgCase, ctx: &mut Ctx) -> R {
    run_stacked_mode(case, ctx, false)
}
pub fn sg_strategy_pub(tier: Tier) -> BoxedStrategy<SgCase> {
    sg_strategy(tier)
}
/// `principal_only` (used by C06): only the principal half of the stacked guards is judged - a guarded function must not run for
/// anyone but its authorized principal, whatever happened to the pause guard - and the non-trivial rule is about refused principals
pub fn run_stacked_mode(case: &SgCase, ctx: &mut Ctx, principal_only: bool) -> R {
    use crate::contracts::c16::stacked::Stacked;
    let pid = if principal_only { "C06" } else { "C16" };
    let (mut refused_principal, mut passed_principal) = (0u32, 0u32);
    const NAMES: [&str; 7] =
        ["owner_then_pause", "pause_then_owner", "admin_then_pause", "pause_then_admin", "role_then_pause", "pause_then_role", "owner_then_when_paused"];
    let e = envx::new_env(100, envx::BIG_TTL);
    let owner = envx::actor(&e);
    let member = envx::actor(&e);
    let stranger = envx::actor(&e);
    let c = e.register(Stacked, (owner.clone(), member.clone()));
    let people = [owner.clone(), member.clone(), stranger.clone()];
    let mut paused = false;
    let mut counter: u32 = 0;
    let (mut blocked_by_pause, mut ok_after, mut was_unpaused) = (0u32, false, false);
    for (i, op) in case.ops.iter().enumerate() {
        match op {
            SgOp::Pause { on, by_owner } => {
                let who = if *by_owner { &owner } else { &stranger };
                let f = if *on { "pause" } else { "unpause" };
                // `only_owner` authenticates the stored owner: only the owner's entry can satisfy it
                envx::set_auth(&e, &[(who, &Inv::new(&c, f, args![&e]))]);
                let r = call(&e, &c, f, args![&e]);
                envx::no_auth(&e);
                ctx.op(r.is_ok());
                let should = *by_owner && paused != *on;
                ensure!(r.is_ok() == should, "C16/stacked/pause-alternation-or-auth", "step {i}: {f} by_owner={by_owner} paused={paused}: ok={}", r.is_ok());
                if r.is_ok() {
                    paused = *on;
                    if !*on {
                        was_unpaused = true;
                    }
                }
            }
            SgOp::Call { k, who, with_auth } => {
                let k = (*k as usize) % 7;
                let name = NAMES[k];
                let p = &people[(*who as usize) % 3];
                let is_role = k == 4 || k == 5;
                let a: soroban_sdk::Vec<Val> = if is_role { args![&e; p.clone()] } else { args![&e] };
                if *with_auth {
                    envx::set_auth(&e, &[(p, &Inv::new(&c, name, a.clone()))]);
                } else {
                    envx::no_auth(&e);
                }
                let r = envx::call_t::<u32>(&e, &c, name, a);
                envx::no_auth(&e);
                ctx.op(r.is_ok());
                // who passes the principal guard: owner/admin entry points need the owner's entry; the role entry points
                // need the named caller to hold the role and to authorize
                let principal_ok = *with_auth && if is_role { (*who as usize) % 3 == 1 } else { (*who as usize) % 3 == 0 };
                let pause_ok = if k == 6 { paused } else { !paused };
                if r.is_ok() {
                    if !principal_only {
                        ensure!(pause_ok, format!("C16/stacked.{name}/pause-guard-bypassed"), "step {i}: {name} ran while paused = {paused} (the pause guard stacked with the principal guard was lost)");
                    }
                    ensure!(principal_ok, format!("{pid}/stacked.{name}/principal-guard-bypassed"), "step {i}: {name} ran for caller kind {} (0 owner/admin, 1 role member, 2 stranger) with_auth={with_auth}", who % 3);
                    passed_principal += 1;
                    counter += 1;
                    ensure!(r == Ok(counter), "C16/stacked/counter", "step {i}: {name} returned {:?}, expected {counter}", r);
                    if was_unpaused && k != 6 {
                        ok_after = true;
                    }
                } else {
                    if !principal_only {
                        ensure!(!(pause_ok && principal_ok), format!("C16/stacked.{name}/refused-with-open-gates"), "step {i}: {name}: authorized principal, pause state {paused} allows it, yet refused: {:?}", r);
                    }
                    if pause_ok && !principal_ok {
                        refused_principal += 1;
                        ctx.class(&format!("stacked_refused_principal:{name}"));
                    }
                    if principal_ok && !pause_ok {
                        blocked_by_pause += 1;
                        ctx.class(&format!("stacked_blocked_by_pause:{name}"));
                    }
                }
            }
        }
        let p = envx::call_t::<bool>(&e, &c, "paused", args![&e]).map_err(|er| violation("C16/stacked/getter-failed", er))?;
        ensure!(p == paused, "C16/stacked/flag", "step {i}: paused() = {p}, model {paused}");
    }
    if principal_only {
        if refused_principal >= 2 && passed_principal >= 1 {
            ctx.nontrivial = true;
            ctx.class("nontrivial_stacked");
        }
    } else if blocked_by_pause >= 2 && ok_after {
        ctx.nontrivial = true;
        ctx.class("nontrivial_stacked");
    }
    Ok(())
}

// ------------------------------------------------------------------ upgrade / migrate

#[derive(Clone, Debug, Serialize, Deserialize)]
pub enum MOp {
    Upgrade { by_owner: bool, with_auth: bool },
    Migrate { by_owner: bool, with_auth: bool },
}
#[derive(Clone, Debug, Serialize, Deserialize)]
pub struct MigCase {
    /// start from the `Upgradeable`-only v1 example (true) or directly from a migratable contract that was never upgraded (false)
    pub from_v1: bool,
    pub ops: Vec<MOp>,
}
fn mig_strategy(tier: Tier) -> BoxedStrategy<MigCase> {
    let op = prop_oneof![
        2 => (proptest::bool::weighted(0.8), proptest::bool::weighted(0.8)).prop_map(|(by_owner, with_auth)| MOp::Upgrade { by_owner, with_auth }),
        3 => (proptest::bool::weighted(0.8), proptest::bool::weighted(0.8)).prop_map(|(by_owner, with_auth)| MOp::Migrate { by_owner, with_auth }),
    ];
    (any::<bool>(), proptest::collection::vec(op, 1..tier.pick(12usize, 25usize))).prop_map(|(from_v1, ops)| MigCase { from_v1, ops }).boxed()
}

const V2_WASM: &[u8] = include_bytes!("/repo/examples/upgradeable/testdata/upgradeable_v2_example.wasm");

fn upload_v2(e: &Env) -> BytesN<32> {
    e.deployer().upload_contract_wasm(V2_WASM)
}

pub fn run_migration(case: &MigCase, ctx: &mut Ctx) -> R {
    use crate::examples::upgradeable_v1::contract::ExampleContract as V1;
    use crate::examples::upgradeable_v2::contract::{Data, ExampleContract as V2, OWNER};
    let e = envx::new_env(100, envx::BIG_TTL);
    let owner = envx::actor(&e);
    let other = envx::actor(&e);
    let hash = upload_v2(&e);
    // the contract under test always runs NATIVE code of the current tree:
    // v1 (derive(Upgradeable)) before the first upgrade, v2 (derive(UpgradeableMigratable)) afterwards.
    let addr: Address;
    let mut is_v2;
    if case.from_v1 {
        addr = e.register(V1, (owner.clone(),));
        is_v2 = false;
    } else {
        addr = e.register(V2, ());
        e.as_contract(&addr, || e.storage().instance().set(&OWNER, &owner));
        is_v2 = true;
    }
    let mut can_migrate = false; // model: an upgrade happened since the last completed migration
    let (mut refused_without_upgrade, mut ok_once, mut refused_twice) = (false, false, false);
    let mut last_was_migrate_ok = false;
    for (i, op) in case.ops.iter().enumerate() {
        match op {
            MOp::Upgrade { by_owner, with_auth } => {
                let who = if *by_owner { &owner } else { &other };
                let a: soroban_sdk::Vec<Val> = args![&e; hash.clone(), who.clone()];
                if *with_auth {
                    envx::set_auth(&e, &[(who, &Inv::new(&addr, "upgrade", a.clone()))]);
                } else {
                    envx::no_auth(&e);
                }
                let r = call(&e, &addr, "upgrade", a);
                envx::no_auth(&e);
                ctx.op(r.is_ok());
                let should = *by_owner && *with_auth;
                ensure!(r.is_ok() == should, "C16/upgrade/auth", "step {i}: upgrade by_owner={by_owner} auth={with_auth} ok={}", r.is_ok());
                if r.is_ok() {
                    // the instance now points at the uploaded wasm; re-install the native v2 code of the
                    // current tree at the same address (instance storage is kept)
                    e.register_at(&addr, V2, ());
                    is_v2 = true;
                    can_migrate = true;
                    last_was_migrate_ok = false;
                }
            }
            MOp::Migrate { by_owner, with_auth } => {
                if !is_v2 {
                    // v1 has no migrate entry point at all
                    ctx.class("migrate_on_v1_skipped");
                    continue;
                }
                let who = if *by_owner { &owner } else { &other };
                let data = Data { num1: i as u32, num2: 7 };
                let a: soroban_sdk::Vec<Val> = args![&e; data, who.clone()];
                if *with_auth {
                    envx::set_auth(&e, &[(who, &Inv::new(&addr, "migrate", a.clone()))]);
                } else {
                    envx::no_auth(&e);
                }
                let r = call(&e, &addr, "migrate", a);
                envx::no_auth(&e);
                ctx.op(r.is_ok());
                if r.is_ok() {
                    ensure!(
                        can_migrate,
                        "C16/migrate/completed-without-pending-upgrade",
                        "step {i}: migrate succeeded although no upgrade happened since the last completed migration"
                    );
                    ensure!(*by_owner && *with_auth, "C16/migrate/auth", "step {i}: migrate succeeded by_owner={by_owner} auth={with_auth}");
                    can_migrate = false;
                    ok_once = true;
                    last_was_migrate_ok = true;
                } else {
                    if *by_owner && *with_auth {
                        ensure!(
                            !can_migrate,
                            "C16/migrate/refused-after-upgrade",
                            "step {i}: authorized migrate refused although an upgrade is pending: {:?}",
                            r
                        );
                        if last_was_migrate_ok {
                            refused_twice = true;
                            ctx.class("second_migrate_refused");
                        } else {
                            refused_without_upgrade = true;
                            ctx.class("migrate_without_upgrade_refused");
                        }
                    }
                }
            }
        }
        let flag = e.as_contract(&addr, || stellar_contract_utils::upgradeable::can_complete_migration(&e));
        ensure!(flag == can_migrate, "C16/migrate/flag", "step {i}: can_complete_migration = {flag}, model {can_migrate}");
    }
    if ok_once && (refused_twice || refused_without_upgrade) {
        ctx.nontrivial = true;
        ctx.class("nontrivial_migration");
    }
    Ok(())
}

macro_rules! gate_sub {
    ($name:expr, $f:expr, $q:expr, $t:expr) => {{
        fn strat(tier: Tier) -> BoxedStrategy<GateCase> {
            gate_strategy($f, tier)
        }
        gen_sub::<GateCase>($name, $q, $t, strat, run_gates)
    }};
}

pub fn property() -> Property {
    Property {
        id: "C16",
        rule: "gate subs: case = (flavour, 2..4 funded accounts, generated initial list membership, history of <=35 (thorough 70) token entry points \
               interleaved with allow/disallow, block/unblock, pause/unpause, each with an auth mode); non-trivial = >=3 distinct (entry point, closed gate) pairs refused \
               AND an entry point succeeding after a gate was re-opened. pausable-example: increment refused while paused and working after unpause. \
               cap: a mint exactly to the cap, one refused above it; cap-resettable: the cap lowered below the supply, a mint refused meanwhile and a mint accepted. stacked-guards: harness contract stacking only_owner / only_admin / only_role with when_not_paused / when_paused in both orders; >= 2 authorized calls refused by the pause guard and one succeeding after unpause. migration: a completed migrate plus a refused second/unprepared migrate. distinct = distinct serialised case",
        subs: vec![
            gate_sub!("allow", Flavor::Allow, 1500, 30000),
            gate_sub!("block", Flavor::Block, 1500, 30000),
            gate_sub!("ex-allowlist", Flavor::ExAllow, 1200, 24000),
            gate_sub!("ex-blocklist", Flavor::ExBlock, 1000, 20000),
            gate_sub!("ex-pausable", Flavor::ExPausable, 1500, 30000),
            gen_sub::<PCase>("pausable-example", 800, 16000, pcase_strategy, run_pausable),
            gen_sub::<CapCase>("cap", 1500, 30000, cap_strategy, run_cap),
            gen_sub::<RcCase>("cap-resettable", 1500, 30000, rc_strategy, run_resettable_cap),
            gen_sub::<SgCase>("stacked-guards", 800, 16000, sg_strategy, run_stacked),
            gen_sub::<MigCase>("migration", 800, 16000, mig_strategy, run_migration),
        ],
        floors: vec![],
        assumptions: vec![
            "Soroban native test host is trusted; after `upgrade` the native code of the current tree is re-installed at the same address (register_at keeps instance storage) because no wasm target is installed",
            "the spender is not vetted by the lists (module docs); `approve` is not declared pausable in the fungible-pausable example",
        ],
    }
}

//! C16 — not implemented yet.
use crate::engine::*;

pub fn property() -> Property {
    Property { id: "C16", rule: "", subs: vec![], floors: vec![], assumptions: vec![] }
}
